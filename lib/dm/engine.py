"""Check runner: rule registry, reports, known findings, evidence and replay files."""
import json
import os
import sys
import time
import traceback

from . import ast as A

VERIF = A.VERIF
KNOWN = os.path.join(VERIF, "known_findings.json")
EVID = os.environ.get("DM_EVIDENCE_DIR") or os.path.join(VERIF, "evidence")


class Report:
    def __init__(self, rule, key, where, msg, detail=None):
        self.rule = rule
        self.key = key
        self.where = where
        self.msg = msg
        self.detail = detail or {}

    def to_json(self):
        return {"rule": self.rule, "key": self.key, "where": self.where, "message": self.msg, "detail": self.detail}


class RuleStats:
    def __init__(self, name, doc):
        self.name = name
        self.doc = doc
        self.instances = 0
        self.nontrivial = set()
        self.samples = []
        self.notes = []
        self.obligations = 0
        self.discharged = 0


class Ctx:
    def __init__(self, prop, tier, seed, repo=None):
        self.prop = prop
        self.tier = tier
        self.seed = seed
        self.repo = repo or A.REPO
        self._files = None
        self._mir = None
        self.reports = []
        self.rules = {}
        self.cur = None
        self.assumptions = []
        self.extra = {}

    # ---- facts
    @property
    def files(self):
        if self._files is None:
            self._files = A.load(self.repo)
        return self._files

    @property
    def mir(self):
        if self._mir is None:
            from . import mirfacts

            self._mir = mirfacts.load(self.repo)
        return self._mir

    # ---- bookkeeping used by rules
    def begin(self, name, doc):
        self.cur = self.rules.setdefault(name, RuleStats(name, doc))
        return self.cur

    def instance(self, construct, nontrivial=True, sample=None):
        """Record one examined rule instance (a construct the rule had to decide)."""
        st = self.cur
        st.instances += 1
        if nontrivial:
            st.nontrivial.add(construct)
        if sample is not None and len(st.samples) < 4:
            st.samples.append(sample)
        elif sample is None and len(st.samples) < 4 and nontrivial:
            st.samples.append(construct)

    def obligation(self, ok=True):
        self.cur.obligations += 1
        if ok:
            self.cur.discharged += 1

    def note(self, text):
        self.cur.notes.append(text)

    def report(self, key, where, msg, detail=None):
        rule = self.cur.name
        full = f"{rule}:{key}"
        # one report per key
        for r in self.reports:
            if r.key == full:
                return
        self.reports.append(Report(rule, full, where, msg, detail))

    def floor(self, what, count, minimum):
        """Fail closed when a rule sees far fewer instances than were counted on the audited tree (vacuity guard).
        `minimum` is the audited count; the alarm threshold is 70% of it, so that a refactoring which merges two
        duplicated sites into one (a helper extracted, two identical closures unified) is not reported."""
        audited = minimum
        minimum = max(1, (audited * 7 + 9) // 10)
        if count < minimum:
            self.report(
                f"FLOOR:{what}",
                "(whole tree)",
                f"rule instance count fell below the audited floor: {what}: {count} < {minimum}; "
                "the rule may be passing vacuously - re-audit",
                {"count": count, "floor": minimum, "audited": audited},
            )

    def anchor_lost(self, anchor, why):
        self.report(
            f"ANCHOR-LOST:{anchor}",
            anchor,
            f"anchor not found: {anchor} ({why}); the rule cannot be evaluated - re-audit, the property may still hold",
            {"why": why},
        )

    def where(self, f, node_or_off):
        if isinstance(node_or_off, int):
            off = node_or_off
        else:
            sp = A.span_of(node_or_off)
            off = sp[0] if sp else 0
        return f"{f.rel}:{f.line(off)}"


def load_known():
    if not os.path.exists(KNOWN):
        return {"known": [], "fixed": []}
    with open(KNOWN) as f:
        return json.load(f)


def run_property(prop, rules, tier, seed, level="other", replay=None, meta=None):
    """Run `rules` (list of callables taking ctx) and emit evidence, KNOWN-FINDING / VIOLATION lines."""
    t0 = time.time()
    ctx = Ctx(prop, tier, seed)
    meta = meta or {}
    crashed = []
    for rule in rules:
        name = getattr(rule, "rule_name", rule.__name__)
        ctx.begin(name, (rule.__doc__ or "").strip())
        try:
            rule(ctx)
        except A.AnchorLost as e:
            ctx.anchor_lost(e.anchor, e.why)
        except SystemExit:
            raise
        except Exception as e:  # a crashing rule must not pass silently
            crashed.append(name)
            ctx.report(
                f"RULE-CRASH:{name}",
                "(checker)",
                f"rule {name} could not be evaluated on this tree: {type(e).__name__}: {e}",
                {"traceback": traceback.format_exc()[-3000:]},
            )
    known = load_known()
    known_keys = {}
    for k in known.get("known", []):
        if prop in k.get("properties", []):
            known_keys[k["key"]] = k
    viol = []
    kf = []
    for r in ctx.reports:
        if r.key in known_keys:
            kf.append((r, known_keys[r.key]))
        else:
            viol.append(r)
    # ---- output
    print(f"== property {prop} tier={tier} repo={ctx.repo}")
    for name, st in ctx.rules.items():
        print(f"rule {name}: {st.instances} instances, {len(st.nontrivial)} distinct non-trivial" + (f", {st.discharged}/{st.obligations} obligations" if st.obligations else ""))
        for n in st.notes[:12]:
            print(f"    note: {n}")
    for r, k in kf:
        print(f"KNOWN-FINDING: property={prop} {r.key} {k.get('what', r.msg)}")
    rdir = os.path.join(EVID, "replay", prop)
    if viol:
        os.makedirs(rdir, exist_ok=True)
    for r in viol:
        fn = os.path.join(rdir, _safe(r.key) + ".json")
        with open(fn, "w") as f:
            json.dump({"property": prop, **r.to_json()}, f, indent=1)
        print(f"  {r.where}: [{r.rule}] {r.msg}")
        print(f"VIOLATION property={prop} replay={fn}")
    # ---- evidence
    evaluations = sum(st.instances for st in ctx.rules.values())
    distinct = sum(len(st.nontrivial) for st in ctx.rules.values())
    obligations = sum(st.obligations for st in ctx.rules.values())
    discharged = sum(st.discharged for st in ctx.rules.values())
    samples = []
    for name, st in ctx.rules.items():
        for s in st.samples[:3]:
            samples.append({"rule": name, "instance": s})
    explanation = meta.get("explanation", "") + " Rules applied: " + "; ".join(
        f"{name} ({st.instances} instances): {st.doc.splitlines()[0] if st.doc else ''}" for name, st in ctx.rules.items()
    )
    cov = {
        "evaluations": evaluations,
        "distinct_nontrivial": distinct,
        "rule": "one evaluation = one construct of /repo's current source (template, call site, match arm, cfg reference, MIR statement) "
        "on which a rule had to decide; distinct_nontrivial counts distinct constructs keyed by file/function/construct descriptor",
        "samples": samples or [{"note": "no instance"}],
        "explanation": explanation.strip(),
        "per_rule": {name: {"instances": st.instances, "distinct": len(st.nontrivial), "notes": st.notes[:40]} for name, st in ctx.rules.items()},
        "known_findings_present": [r.key for r, _ in kf],
        "violations": [r.to_json() for r in viol][:50],
    }
    if obligations:
        cov["obligations"] = obligations
        cov["discharged"] = discharged
        cov["checker_cmd"] = meta.get("checker_cmd", f"bin/check {prop}")
        cov["trusted_base"] = meta.get("trusted_base", ["syn 2.0.119 parser", "dmast Debug->JSON converter", "python rule engine"])
    cov.update(ctx.extra)
    ev = {
        "property_id": prop,
        "tier": tier,
        "seed": seed,
        "level": level,
        "coverage": cov,
        "assumptions": meta.get("assumptions", []) + ctx.assumptions,
        "wall_s": round(time.time() - t0, 2),
        "violations": len(viol),
    }
    os.makedirs(EVID, exist_ok=True)
    with open(os.path.join(EVID, f"{prop}.json"), "w") as f:
        json.dump(ev, f, indent=1)
    print(f"== {prop}: {evaluations} instances, {len(kf)} known findings, {len(viol)} violations, {ev['wall_s']}s")
    return 1 if viol else 0


def _safe(s):
    return "".join(c if c.isalnum() or c in "-_." else "_" for c in s)[:180]
