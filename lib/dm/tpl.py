"""Template IR: every `quote!` / `parse_quote!` site of the generator, as a token tree with
interpolations (`#x`) and repetitions (`#( .. ) sep *`) made explicit.

IR node = dict with "t" in:
  id   {"t":"id","s":name}
  p    {"t":"p","c":char,"joint":bool}
  lit  {"t":"lit","repr":..., "value": decoded-or-None, "kind":...}
  grp  {"t":"grp","d": "(", "[", "{", "" , "body":[..]}
  var  {"t":"var","s":name}                       -- #name
  rep  {"t":"rep","body":[..],"sep":char-or-None}  -- #( .. ) sep *
"""
from . import ast as A

QUOTE_MACROS = ("quote", "parse_quote")


def to_ir(ts):
    out = []
    i = 0
    n = len(ts)
    while i < n:
        t = ts[i]
        k = A.kind(t)
        if k == "Punct" and A.punct_char(t) == "#" and i + 1 < n:
            nx = ts[i + 1]
            if A.kind(nx) == "Ident":
                out.append({"t": "var", "s": nx["sym"], "span": nx["span"]})
                i += 2
                continue
            if A.kind(nx) == "Group" and nx["delimiter"] == "Parenthesis":
                # repetition?  #( .. ) * | #( .. ) sep *
                j = i + 2
                sep = None
                if j < n and A.kind(ts[j]) == "Punct" and A.punct_char(ts[j]) == "*":
                    out.append({"t": "rep", "body": to_ir(nx["stream"]), "sep": None, "span": nx["span"]})
                    i = j + 1
                    continue
                if (
                    j + 1 < n
                    and A.kind(ts[j]) == "Punct"
                    and A.kind(ts[j + 1]) == "Punct"
                    and A.punct_char(ts[j + 1]) == "*"
                ):
                    sep = A.punct_char(ts[j])
                    out.append({"t": "rep", "body": to_ir(nx["stream"]), "sep": sep, "span": nx["span"]})
                    i = j + 2
                    continue
        if k == "Ident":
            out.append({"t": "id", "s": t["sym"], "span": t["span"]})
        elif k == "Punct":
            out.append({"t": "p", "c": A.punct_char(t), "joint": t["spacing"] == "Joint", "span": t["span"]})
        elif k == "Literal":
            l = t["lit"]
            out.append({"t": "lit", "repr": l.get("repr"), "value": l.get("value"), "kind": l.get("kind"), "span": t["span"]})
        elif k == "Group":
            out.append({"t": "grp", "d": A.OPEN[t["delimiter"]], "body": to_ir(t["stream"]), "span": t["span"]})
        i += 1
    return out


def ir_text(ir):
    out = []
    joint = False
    for x in ir:
        t = x["t"]
        if t == "id":
            s = x["s"]
        elif t == "p":
            s = x["c"]
        elif t == "lit":
            s = x["repr"]
        elif t == "var":
            s = "#" + x["s"]
        elif t == "grp":
            cl = {"(": ")", "[": "]", "{": "}", "": ""}[x["d"]]
            s = x["d"] + ir_text(x["body"]) + cl
        elif t == "rep":
            s = "#(" + ir_text(x["body"]) + ")" + (x["sep"] or "") + "*"
        if out and not joint:
            out.append(" ")
        out.append(s)
        joint = t == "p" and x["joint"]
    return "".join(out)


def ir_walk(ir, depth=0, parents=()):
    """Yield (seq, index, node, parents) for every node, pre-order."""
    for i, x in enumerate(ir):
        yield ir, i, x, parents
        if x["t"] in ("grp", "rep"):
            yield from ir_walk(x["body"], depth + 1, parents + (x,))


def ir_vars(ir):
    return [x["s"] for _, _, x, _ in ir_walk(ir) if x["t"] == "var"]


class Template:
    def __init__(self, fn, macro_name, node, ir, ordinal, nested=False):
        self.fn = fn
        self.macro = macro_name
        self.node = node
        self.ir = ir
        self.ordinal = ordinal
        self.nested = nested

    @property
    def file(self):
        return self.fn.file

    @property
    def line(self):
        sp = A.span_of(self.node["path"])
        return self.fn.file.line(sp[0]) if sp else 0

    def where(self):
        return f"{self.fn.file.rel}:{self.line} ({self.fn.qual}, template #{self.ordinal})"

    def key(self):
        return f"{self.fn.file.rel}::{self.fn.qual}"

    def text(self):
        return ir_text(self.ir)


def _nested_quotes(ts):
    """quote!-like macro invocations appearing inside the token arguments of another macro."""
    out = []
    i = 0
    while i < len(ts):
        t = ts[i]
        if (
            A.kind(t) == "Ident"
            and t["sym"] in QUOTE_MACROS + ("format_ident",)
            and i + 2 < len(ts)
            and A.kind(ts[i + 1]) == "Punct"
            and A.punct_char(ts[i + 1]) == "!"
            and A.kind(ts[i + 2]) == "Group"
        ):
            out.append((t, ts[i + 2]))
            out.extend(_nested_quotes(ts[i + 2]["stream"]))
            i += 3
            continue
        if A.kind(t) == "Group":
            out.extend(_nested_quotes(t["stream"]))
        i += 1
    return out


def templates_of(fn):
    """All quote!/parse_quote! templates in a function, in source order (nested ones included)."""
    res = []
    sites = []
    for m, ps in A.macros(fn.block):
        nm = A.path_last(m["path"])
        sp = A.span_of(m["path"])
        if nm in QUOTE_MACROS:
            sites.append((sp[0], nm, m, m["tokens"], False))
            for idt, grp in _nested_quotes(m["tokens"]):
                if idt["sym"] in QUOTE_MACROS:
                    sites.append((idt["span"][0], idt["sym"], {"path": {"_": "Path", "segments": [{"ident": idt}]}, "tokens": grp["stream"]}, grp["stream"], True))
        else:
            for idt, grp in _nested_quotes(m["tokens"]):
                if idt["sym"] in QUOTE_MACROS:
                    sites.append((idt["span"][0], idt["sym"], {"path": {"_": "Path", "segments": [{"ident": idt}]}, "tokens": grp["stream"]}, grp["stream"], True))
    sites.sort(key=lambda s: s[0])
    seen = set()
    for n, (off, nm, node, toks, nested) in enumerate(sites):
        if off in seen:
            continue
        seen.add(off)
        res.append(Template(fn, nm, node, to_ir(toks), len(res), nested))
    return res


def all_templates(files, rel_prefix="impl/src"):
    out = []
    for fn in A.all_functions(files):
        if not fn.file.rel.startswith(rel_prefix):
            continue
        out.extend(templates_of(fn))
    return out


def format_idents_of(fn):
    """format_ident! sites: (node-or-None, pattern string, [arg token lists], line)."""
    res = []
    for m, ps in A.macros(fn.block):
        nm = A.path_last(m["path"])
        cands = []
        if nm == "format_ident":
            cands.append((m["path"]["segments"][-1]["ident"], m["tokens"]))
        for idt, grp in _nested_quotes(m["tokens"]):
            if idt["sym"] == "format_ident":
                cands.append((idt, grp["stream"]))
        for idt, toks in cands:
            # split on top-level commas
            args = [[]]
            for t in toks:
                if A.kind(t) == "Punct" and A.punct_char(t) == ",":
                    args.append([])
                else:
                    args[-1].append(t)
            args = [a for a in args if a]
            pat = None
            if args and len(args[0]) == 1 and A.kind(args[0][0]) == "Literal":
                pat = args[0][0]["lit"].get("value")
            res.append({"pattern": pat, "args": args[1:], "line": fn.file.line(idt["span"][0]), "span": idt["span"], "fn": fn})
    return res
