"""Template IR: every `quote!` / `parse_quote!` site of the generator, as a token tree with
interpolations (`#x`) and repetitions (`#( .. ) sep *`) made explicit.

IR node = dict with "t" in:
  id   {"t":"id","s":name}
  p    {"t":"p","c":char,"joint":bool}
  lit  {"t":"lit","repr":..., "value": decoded-or-None, "kind":...}
  grp  {"t":"grp","d": "(", "[", "{", "" , "body":[..]}
  var  {"t":"var","s":name}                       -- #name
  rep  {"t":"rep","body":[..],"sep":char-or-None}  -- #( .. ) sep *
"""
from . import ast as A

QUOTE_MACROS = ("quote", "parse_quote")


def to_ir(ts):
    out = []
    i = 0
    n = len(ts)
    while i < n:
        t = ts[i]
        k = A.kind(t)
        if k == "Punct" and A.punct_char(t) == "#" and i + 1 < n:
            nx = ts[i + 1]
            if A.kind(nx) == "Ident":
                out.append({"t": "var", "s": nx["sym"], "span": nx["span"]})
                i += 2
                continue
            if A.kind(nx) == "Group" and nx["delimiter"] == "Parenthesis":
                # repetition?  #( .. ) * | #( .. ) sep *
                j = i + 2
                sep = None
                if j < n and A.kind(ts[j]) == "Punct" and A.punct_char(ts[j]) == "*":
                    out.append({"t": "rep", "body": to_ir(nx["stream"]), "sep": None, "span": nx["span"]})
                    i = j + 1
                    continue
                if (
                    j + 1 < n
                    and A.kind(ts[j]) == "Punct"
                    and A.kind(ts[j + 1]) == "Punct"
                    and A.punct_char(ts[j + 1]) == "*"
                ):
                    sep = A.punct_char(ts[j])
                    out.append({"t": "rep", "body": to_ir(nx["stream"]), "sep": sep, "span": nx["span"]})
                    i = j + 2
                    continue
        if k == "Ident":
            out.append({"t": "id", "s": t["sym"], "span": t["span"]})
        elif k == "Punct":
            out.append({"t": "p", "c": A.punct_char(t), "joint": t["spacing"] == "Joint", "span": t["span"]})
        elif k == "Literal":
            l = t["lit"]
            out.append({"t": "lit", "repr": l.get("repr"), "value": l.get("value"), "kind": l.get("kind"), "span": t["span"]})
        elif k == "Group":
            out.append({"t": "grp", "d": A.OPEN[t["delimiter"]], "body": to_ir(t["stream"]), "span": t["span"]})
        i += 1
    return out


def ir_text(ir):
    out = []
    joint = False
    for x in ir:
        t = x["t"]
        if t == "id":
            s = x["s"]
        elif t == "p":
            s = x["c"]
        elif t == "lit":
            s = x["repr"]
        elif t == "var":
            s = "#" + x["s"]
        elif t == "grp":
            cl = {"(": ")", "[": "]", "{": "}", "": ""}[x["d"]]
            s = x["d"] + ir_text(x["body"]) + cl
        elif t == "rep":
            s = "#(" + ir_text(x["body"]) + ")" + (x["sep"] or "") + "*"
        if out and not joint:
            out.append(" ")
        out.append(s)
        joint = t == "p" and x["joint"]
    return "".join(out)


def ir_walk(ir, depth=0, parents=()):
    """Yield (seq, index, node, parents) for every node, pre-order."""
    for i, x in enumerate(ir):
        yield ir, i, x, parents
        if x["t"] in ("grp", "rep"):
            yield from ir_walk(x["body"], depth + 1, parents + (x,))


def ir_vars(ir):
    return [x["s"] for _, _, x, _ in ir_walk(ir) if x["t"] == "var"]


class Template:
    def __init__(self, fn, macro_name, node, ir, ordinal, nested=False):
        self.fn = fn
        self.macro = macro_name
        self.node = node
        self.ir = ir
        self.ordinal = ordinal
        self.nested = nested

    @property
    def file(self):
        return self.fn.file

    @property
    def line(self):
        sp = A.span_of(self.node["path"])
        return self.fn.file.line(sp[0]) if sp else 0

    def where(self):
        return f"{self.fn.file.rel}:{self.line} ({self.fn.qual}, template #{self.ordinal})"

    def key(self):
        return f"{self.fn.file.rel}::{self.fn.qual}"

    def text(self):
        return ir_text(self.ir)


def _nested_quotes(ts):
    """quote!-like macro invocations appearing inside the token arguments of another macro."""
    out = []
    i = 0
    while i < len(ts):
        t = ts[i]
        if (
            A.kind(t) == "Ident"
            and t["sym"] in QUOTE_MACROS + ("format_ident",)
            and i + 2 < len(ts)
            and A.kind(ts[i + 1]) == "Punct"
            and A.punct_char(ts[i + 1]) == "!"
            and A.kind(ts[i + 2]) == "Group"
        ):
            out.append((t, ts[i + 2]))
            out.extend(_nested_quotes(ts[i + 2]["stream"]))
            i += 3
            continue
        if A.kind(t) == "Group":
            out.extend(_nested_quotes(t["stream"]))
        i += 1
    return out


def _quote_tokens(e, fn, depth=0):
    """token list of the quote! an expression evaluates to: `quote! {..}`, `v.clone()` / `&v` / `v` of such a binding"""
    from . import types as TY

    while A.kind(e) in ("Expr::Reference", "Expr::Paren", "Expr::Group"):
        e = e["expr"]
    k = A.kind(e)
    if k == "Expr::Macro" and A.path_last(e["mac"]["path"]) == "quote":
        return e["mac"]["tokens"]
    if k == "Expr::MethodCall" and e["method"]["sym"] in ("clone", "to_token_stream") and not e["args"]:
        return _quote_tokens(e["receiver"], fn, depth)
    if k == "Expr::Path" and depth < 3:
        nm = A.path_str(e)
        sp = A.span_of(e)
        if nm and "::" not in nm and sp:
            b = TY.resolve(fn, nm, sp[0])
            if b and b["kind"] == "let" and A.kind(b["pat"]) in ("Pat::Ident", "Pat::Type") and b.get("init") is not None:
                return _quote_tokens(b["init"], fn, depth + 1)
    return None


def _flat_pat_names(p):
    """names of a closure parameter pattern in source order: `((a, b), c)` -> [a, b, c]"""
    k = A.kind(p)
    if k in ("Pat::Paren", "Pat::Reference", "Pat::Type"):
        return _flat_pat_names(p["pat"])
    if k == "Pat::Tuple":
        out = []
        for e in p["elems"]:
            out += _flat_pat_names(e)
        return out
    if k == "Pat::Ident":
        return [p["ident"]["sym"]]
    return [None]


def _iter_sources(e):
    """`a.iter().zip(b.iter()).zip(c)` -> [a, b, c] (None when something else is iterated)"""
    e = A.peel(e)
    if A.kind(e) == "Expr::MethodCall":
        m = e["method"]["sym"]
        if m in ("iter", "into_iter", "cloned", "copied", "by_ref") and not e["args"]:
            return _iter_sources(e["receiver"])
        if m == "zip" and len(e["args"]) == 1:
            l, r = _iter_sources(e["receiver"]), _iter_sources(e["args"][0])
            return l + r if l is not None and r is not None else None
        return None
    nm = A.path_str(e) if A.kind(e) == "Expr::Path" else None
    return [nm] if nm and "::" not in nm else None


JOINED_MODE = ["inline"]  # how a pre-joined Punctuated is read: the element template inline, or `#(#v),*` of the variable itself


def _joined_rep(b, var_node, fn, mode="inline"):
    """`let v: Punctuated<_, Comma> = xs.iter().map(|x| quote! { #x: #x }).collect();` interpolated as `#v` is the
    repetition `#( #xs: #xs ),*`: returned as a `rep` node (None when the binding is not such a join)"""
    init = b["init"]
    ann = A.expr_text(fn.file, b["pat"]["ty"]) if A.kind(b["pat"]) == "Pat::Type" else ""
    e = A.peel(init)
    if A.kind(e) != "Expr::MethodCall" or e["method"]["sym"] != "collect":
        return None
    tf = A.expr_text(fn.file, e["turbofish"]) if e.get("turbofish") else ""
    ty = ann + tf
    if "Punctuated" not in ty or not ("Comma" in ty or "Token![,]" in ty.replace(" ", "")):
        return None
    r = A.peel(e["receiver"])
    body = None
    if mode == "self":
        # the joined list read as the repetition of its own elements, whatever produces them
        return {"t": "rep", "body": [{"t": "var", "s": var_node["s"], "span": var_node["span"]}], "sep": ",", "span": var_node["span"]}
    if A.kind(r) == "Expr::MethodCall" and r["method"]["sym"] == "map" and len(r["args"]) == 1 and A.kind(r["args"][0]) == "Expr::Closure":
        cl = r["args"][0]
        srcs = _iter_sources(r["receiver"])
        if srcs is None or len(cl["inputs"]) != 1:
            return None
        names = _flat_pat_names(cl["inputs"][0])
        if len(names) != len(srcs) or None in names:
            return None
        cb = cl["body"]
        if A.kind(cb) == "Expr::Block" and len(cb["block"]["stmts"]) == 1 and A.kind(cb["block"]["stmts"][0]) == "Stmt::Expr":
            cb = cb["block"]["stmts"][0]["0"]
        if A.kind(cb) != "Expr::Macro" or A.path_last(cb["mac"]["path"]) != "quote":
            return None
        ren = dict(zip(names, srcs))

        def rename(ir):
            out = []
            for x in ir:
                if x["t"] == "var" and x["s"] in ren:
                    y = dict(x)
                    y["s"] = ren[x["s"]]
                    out.append(y)
                elif x["t"] in ("grp", "rep"):
                    y = dict(x)
                    y["body"] = rename(x["body"])
                    out.append(y)
                else:
                    out.append(x)
            return out

        body = rename(to_ir(cb["mac"]["tokens"]))
    else:
        srcs = _iter_sources(r)
        if srcs is None or len(srcs) != 1:
            return None
        body = [{"t": "var", "s": srcs[0], "span": var_node["span"]}]
    return {"t": "rep", "body": body, "sep": ",", "span": var_node["span"]}


def _helper_template(fn, call, depth):
    """composed IR of the quote! a same-file helper returns, for a call `self.h(args)` / `h(args)`; None if not that shape"""
    e = call
    while A.kind(e) in ("Expr::Reference", "Expr::Paren", "Expr::Group"):
        e = e["expr"]
    k = A.kind(e)
    if k == "Expr::MethodCall" and A.kind(A.peel(e["receiver"])) == "Expr::Path" and A.path_str(A.peel(e["receiver"])) == "self":
        name, args = e["method"]["sym"], e["args"]
    elif k == "Expr::Call" and A.kind(e["func"]) == "Expr::Path" and "::" not in (A.path_str(e["func"]) or "::"):
        name, args = A.path_str(e["func"]), e["args"]
    else:
        return None
    hs = [g for g in A.functions(fn.file) if g.name == name and g.block is not None and g is not fn]
    if len(hs) != 1 or depth > 2:
        return None
    h = hs[0]
    st = h.block["stmts"]
    if not st:
        return None
    last = st[-1]
    mac = last["mac"] if A.kind(last) == "Stmt::Macro" else (last["0"].get("mac") if A.kind(last) == "Stmt::Expr" and A.kind(last["0"]) == "Expr::Macro" else None)
    if mac is None or A.path_last(mac["path"]) != "quote" or any(A.kind(x) not in ("Stmt::Local",) for x in st[:-1]):
        return None
    prm = [A.pat_idents(p_["0"]["pat"]) for p_ in h.node["sig"]["inputs"] if A.kind(p_) == "FnArg::Typed"]
    if len(prm) != len(args):
        return None
    env = {}
    for ns, a_ in zip(prm, args):
        a_ = A.peel(a_)
        while A.kind(a_) in ("Expr::Reference", "Expr::Paren", "Expr::Group"):
            a_ = a_["expr"]
        if len(ns) == 1 and A.kind(a_) == "Expr::Path" and "::" not in (A.path_str(a_) or "::"):
            env[ns[0]] = A.path_str(a_)
    return _subst_ir(compose(h, to_ir(mac["tokens"]), depth + 1), env)


def compose(fn, ir, depth=0, in_rep=False):
    """Inline hoisted sub-templates: an interpolation `#v` whose binding is `let v = quote! { .. };` (possibly through
    `.clone()` / another such alias) is replaced by that template's tokens, recursively. The spliced nodes keep their own
    source spans, so type and binding look-ups on them still work."""
    from . import types as TY

    out = []
    for x in ir:
        t = x["t"]
        if t == "var" and in_rep and depth < 4:
            # inside `#( .. )*` only a binding that is itself one `quote! { .. }` is inlined: a TokenStream is not iterable,
            # quote! splices the same tokens in every round (`#(#c => Ok(#enum_ty::#v),)*`)
            b = TY.resolve(fn, x["s"], x["span"][0])
            toks = None
            if b and b["kind"] == "let" and A.kind(b["pat"]) in ("Pat::Ident", "Pat::Type") and b.get("init") is not None:
                toks = _quote_tokens(b["init"], fn)
            if toks is not None and not any(y["t"] == "rep" for y in to_ir(toks)):
                out.extend(compose(fn, to_ir(toks), depth + 1, in_rep))
                continue
            out.append(x)
        elif t == "var" and not in_rep and depth < 4:
            b = TY.resolve(fn, x["s"], x["span"][0])
            toks = None
            if b and b["kind"] == "let" and A.kind(b["pat"]) in ("Pat::Ident", "Pat::Type") and b.get("init") is not None:
                toks = _quote_tokens(b["init"], fn)
            if toks is not None:
                out.extend(compose(fn, to_ir(toks), depth + 1, in_rep))
                continue
            # `let v = self.helper(a, b);` / `helper(a, b)` with the helper's body ending in one `quote! {..}`: the helper's
            # template, its parameters renamed to the argument variables
            sub = _helper_template(fn, b["init"], depth) if b and b["kind"] == "let" and b.get("init") is not None else None
            if sub is not None:
                out.extend(sub)
                continue
            rep = _joined_rep(b, x, fn, JOINED_MODE[0]) if b and b["kind"] == "let" and b.get("init") is not None else None
            if rep is not None:
                out.append(rep)
                continue
            out.append(x)
        elif t == "grp":
            y = dict(x)
            y["body"] = compose(fn, x["body"], depth, in_rep)
            out.append(y)
        elif t == "rep":
            y = dict(x)
            y["body"] = compose(fn, x["body"], depth, True)
            out.append(y)
        else:
            out.append(x)
    return out


DELIMS = {"Paren": "(", "Brace": "{", "Bracket": "["}


def _builder_ops(fn, var, stmts, start, depth=0):
    """IR appended to the token stream variable `var` by the statements after index `start` of a block, or None when
    something unknown touches it. Models `x.to_tokens(&mut var)`, `var.extend(quote!{..})`, `var.append_all(xs)`,
    `var.append_separated(xs, token::Comma::default())`, `token::Paren::default().surround(&mut var, |inner| ..)`."""
    out = []
    for st in stmts[start:]:
        if A.kind(st) != "Stmt::Expr":
            if any(A.kind(x) == "Expr::Path" and A.path_str(x) == var for x, _ in A.walk(st)) and A.kind(st) == "Stmt::Local":
                # read-only uses in later `let`s end the build
                break
            continue
        e = st["0"]
        txt = A.render(e)
        if not any(A.kind(x) == "Expr::Path" and A.path_str(x) == var for x, _ in A.walk(e)):
            continue
        if A.kind(e) == "Expr::MethodCall":
            m = e["method"]["sym"]
            recv = A.render(e["receiver"])
            if m == "to_tokens" and len(e["args"]) == 1 and A.render(e["args"][0]).replace(" ", "") in (f"&mut{var}", var):
                r = e["receiver"]
                toks = _quote_tokens(r, fn)
                if toks is not None:
                    out.extend(compose(fn, to_ir(toks)))
                elif A.kind(r) == "Expr::Path" and "::" not in A.path_str(r):
                    sp = A.span_of(r)
                    out.append({"t": "var", "s": A.path_str(r), "span": list(sp) if sp else [0, 0]})
                else:
                    return None
                continue
            if recv == var and m == "extend" and len(e["args"]) == 1:
                a = e["args"][0]
                if A.kind(a) == "Expr::Array" and len(a["elems"]) == 1:
                    a = a["elems"][0]
                toks = _quote_tokens(a, fn)
                if toks is None:
                    if A.kind(a) == "Expr::Path" and "::" not in A.path_str(a):
                        # `ts.extend(other_stream)`: the other stream spliced as a whole
                        sp = A.span_of(a)
                        out.append({"t": "var", "s": A.path_str(a), "span": list(sp) if sp else [0, 0]})
                        continue
                    if A.kind(a) in ("Expr::MethodCall", "Expr::Call", "Expr::Field"):
                        # `ts.extend(self.lifetime())`: the value of that expression spliced as a whole
                        sp = A.span_of(a)
                        out.append({"t": "var", "s": A.render(a), "span": list(sp) if sp else [0, 0]})
                        continue
                    return None
                out.extend(compose(fn, to_ir(toks)))
                continue
            if recv == var and m in ("append_all", "append_separated") and e["args"]:
                a = e["args"][0]
                while A.kind(a) in ("Expr::Reference", "Expr::Paren"):
                    a = a["expr"]
                if A.kind(a) != "Expr::Path":
                    return None
                sp = A.span_of(a)
                sep = None
                if m == "append_separated":
                    sepx = A.render(e["args"][1]) if len(e["args"]) > 1 else ""
                    sep = "," if "Comma" in sepx else ";" if "Semi" in sepx else None
                    if sep is None:
                        return None
                out.append({"t": "rep", "body": [{"t": "var", "s": A.path_str(a), "span": list(sp) if sp else [0, 0]}], "sep": sep, "span": list(sp) if sp else [0, 0]})
                continue
            if m == "surround" and len(e["args"]) == 2 and A.render(e["args"][0]).replace(" ", "") == f"&mut{var}" and A.kind(e["args"][1]) == "Expr::Closure" and depth < 3:
                d = next((DELIMS[k] for k in DELIMS if k in recv), None)
                cl = e["args"][1]
                names = [n for p in cl["inputs"] for n in A.pat_idents(p)]
                if d is None or len(names) != 1:
                    return None
                body = cl["body"]
                bst = body["block"]["stmts"] if A.kind(body) == "Expr::Block" else [{"_": "Stmt::Expr", "0": body, "1": None}]
                inner = _builder_ops(fn, names[0], bst, 0, depth + 1)
                if inner is None:
                    return None
                sp = A.span_of(e)
                out.append({"t": "grp", "d": d, "body": inner, "span": list(sp) if sp else [0, 0]})
                continue
        # a use that is not a recognised append: a plain read (tuple / return value / by-value argument) ends the build
        if A.kind(e) in ("Expr::Tuple", "Expr::Path", "Expr::Call", "Expr::Return", "Expr::Macro"):
            break
        if A.kind(e) == "Expr::MethodCall" and A.render(e["receiver"]) != var and not any(A.render(a).replace(" ", "") == f"&mut{var}" for a in e["args"]):
            break
        return None
    return out


def built_templates(fn):
    """virtual templates: token streams assembled programmatically (`let mut ts = TokenStream::new(); x.to_tokens(&mut ts);
    token::Paren::default().surround(&mut ts, |inner| inner.append_separated(&vars, Comma))`) read as the template
    they are equivalent to"""
    res = []
    for blk, _ in A.find(fn.block, "Block"):
        for i, st in enumerate(blk["stmts"]):
            if A.kind(st) != "Stmt::Local" or not st.get("init"):
                continue
            pat = st["pat"]
            if A.kind(pat) == "Pat::Type":
                pat = pat["pat"]
            if A.kind(pat) != "Pat::Ident" or not pat.get("mutability"):
                continue
            init = st["init"]["expr"]
            ir0 = None
            r = A.render(init)
            if r in ("TokenStream::new()", "proc_macro2::TokenStream::new()"):
                ir0 = []
            else:
                toks = _quote_tokens(init, fn)
                if toks is not None:
                    ir0 = compose(fn, to_ir(toks))
                elif A.kind(init) == "Expr::MethodCall" and init["method"]["sym"] in ("to_token_stream", "into_token_stream") and A.kind(init["receiver"]) == "Expr::Path":
                    sp = A.span_of(init["receiver"])
                    ir0 = [{"t": "var", "s": A.path_str(init["receiver"]), "span": list(sp) if sp else [0, 0]}]
            if ir0 is None:
                continue
            ops = _builder_ops(fn, pat["ident"]["sym"], blk["stmts"], i + 1)
            if ops:
                node = {"path": {"_": "Path", "segments": [{"ident": pat["ident"]}]}, "tokens": []}
                res.append(Template(fn, "built", node, ir0 + ops, 1000 + len(res), False))
    return res


def templates_of(fn, composed=False):
    """All quote!/parse_quote! templates in a function, in source order (nested ones included). With composed=True
    hoisted sub-templates (`let x = quote!{..}; quote!{.. #x ..}`) are inlined into the templates using them."""
    if composed:
        res = templates_of(fn)
        for t in res:
            t.ir = compose(fn, t.ir)
        return res + built_templates(fn)
    res = []
    sites = []
    for m, ps in A.macros(fn.block):
        nm = A.path_last(m["path"])
        sp = A.span_of(m["path"])
        if nm in QUOTE_MACROS:
            sites.append((sp[0], nm, m, m["tokens"], False))
            for idt, grp in _nested_quotes(m["tokens"]):
                if idt["sym"] in QUOTE_MACROS:
                    sites.append((idt["span"][0], idt["sym"], {"path": {"_": "Path", "segments": [{"ident": idt}]}, "tokens": grp["stream"]}, grp["stream"], True))
        else:
            for idt, grp in _nested_quotes(m["tokens"]):
                if idt["sym"] in QUOTE_MACROS:
                    sites.append((idt["span"][0], idt["sym"], {"path": {"_": "Path", "segments": [{"ident": idt}]}, "tokens": grp["stream"]}, grp["stream"], True))
    sites.sort(key=lambda s: s[0])
    seen = set()
    for n, (off, nm, node, toks, nested) in enumerate(sites):
        if off in seen:
            continue
        seen.add(off)
        res.append(Template(fn, nm, node, to_ir(toks), len(res), nested))
    return res


def all_templates(files, rel_prefix="impl/src", composed=False):
    out = []
    for fn in A.all_functions(files):
        if not fn.file.rel.startswith(rel_prefix):
            continue
        out.extend(templates_of(fn, composed=composed))
    return out


def format_idents_of(fn):
    """format_ident! sites: (node-or-None, pattern string, [arg token lists], line)."""
    res = []
    for m, ps in A.macros(fn.block):
        nm = A.path_last(m["path"])
        cands = []
        if nm == "format_ident":
            cands.append((m["path"]["segments"][-1]["ident"], m["tokens"]))
        for idt, grp in _nested_quotes(m["tokens"]):
            if idt["sym"] == "format_ident":
                cands.append((idt, grp["stream"]))
        for idt, toks in cands:
            # split on top-level commas
            args = [[]]
            for t in toks:
                if A.kind(t) == "Punct" and A.punct_char(t) == ",":
                    args.append([])
                else:
                    args[-1].append(t)
            args = [a for a in args if a]
            pat = None
            if args and len(args[0]) == 1 and A.kind(args[0][0]) == "Literal":
                pat = args[0][0]["lit"].get("value")
            res.append({"pattern": pat, "args": args[1:], "line": fn.file.line(idt["span"][0]), "span": idt["span"], "fn": fn})
    return res


def _subst_ir(ir, env):
    """`#p` replaced by the tokens (a list of IR nodes) or the other variable name bound to `p`"""
    out = []
    for x in ir:
        if x["t"] == "var" and x["s"] in env:
            v = env[x["s"]]
            if isinstance(v, str):
                out.append(dict(x, s=v))
            else:
                out.extend(v)
        elif x["t"] in ("grp", "rep"):
            out.append(dict(x, body=_subst_ir(x["body"], env)))
        else:
            out.append(x)
    return out


def closure_instances(fn):
    """[(call node, Template)]: a local closure whose body is one `quote!` (`let method = |doc, name, by| quote! {..}`)
    is a template with parameters; every call `method(a, b, quote!{ & })` is one instance of it - the parameters
    replaced by the argument variables / the argument's literal tokens."""
    out = []
    if fn.block is None:
        return out
    cls = {}
    for st, _ in A.find(fn.block, "Stmt::Local"):
        pat = st["pat"]
        if A.kind(pat) == "Pat::Type":
            pat = pat["pat"]
        if A.kind(pat) != "Pat::Ident" or not st.get("init"):
            continue
        cl = A.peel(st["init"]["expr"])
        if A.kind(cl) != "Expr::Closure":
            continue
        body = cl["body"]
        if A.kind(body) == "Expr::Block" and len(body["block"]["stmts"]) == 1:
            b0 = body["block"]["stmts"][0]
            body = b0.get("0") if A.kind(b0) == "Stmt::Expr" else (b0 if A.kind(b0) == "Stmt::Macro" else body)
        mac = body.get("mac") if isinstance(body, dict) and A.kind(body) in ("Expr::Macro", "Stmt::Macro") else None
        if mac is None or A.path_last(mac["path"]) not in QUOTE_MACROS:
            continue
        params = []
        for p_ in cl["inputs"]:
            ids = A.pat_idents(p_)
            params.append(ids[0] if len(ids) == 1 else None)
        cls[pat["ident"]["sym"]] = (params, mac)
    if not cls:
        return out
    for c, _ in A.find(fn.block, "Expr::Call"):
        nm = A.path_str(c["func"]) if A.kind(c["func"]) == "Expr::Path" else None
        if nm not in cls:
            continue
        params, mac = cls[nm]
        if len(params) != len(c["args"]):
            continue
        env = {}
        for pn, a_ in zip(params, c["args"]):
            if pn is None:
                continue
            a_ = A.peel(a_)
            while A.kind(a_) in ("Expr::Reference", "Expr::Paren", "Expr::Group"):
                a_ = a_["expr"]
            if A.kind(a_) == "Expr::Macro" and A.path_last(a_["mac"]["path"]) in QUOTE_MACROS:
                env[pn] = to_ir(a_["mac"]["tokens"])
            elif A.kind(a_) == "Expr::Path" and "::" not in (A.path_str(a_) or "::"):
                env[pn] = A.path_str(a_)
        t = Template(fn, A.path_last(mac["path"]), mac, _subst_ir(to_ir(mac["tokens"]), env), 1000 + len(out), False)
        out.append((c, t))
    return out


def templates_both(fn):
    """the templates of a function in every reading: as written, with hoisted sub-templates inlined, and the token
    streams built programmatically - a rule that looks for a template finds it however it is assembled"""
    plain = templates_of(fn)
    comp = templates_of(fn, composed=True)
    JOINED_MODE[0] = "self"
    try:
        comp2 = templates_of(fn, composed=True)
    finally:
        JOINED_MODE[0] = "inline"
    seen = {ir_text(t.ir) for t in plain}
    out = list(plain)
    for t in comp + comp2 + [t_ for _, t_ in closure_instances(fn)]:
        tx_ = ir_text(t.ir)
        if tx_ not in seen:
            seen.add(tx_)
            out.append(t)
    return out
