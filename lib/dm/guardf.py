"""Conditions as propositional formulas over tests of the source, and their equivalence.

The condition under which a construct (a diagnostic, a template) is reached is read off the syntax tree as a formula

    T | F | ("atom", text) | ("is", place, ctor) | ("not", f) | ("and", [f..]) | ("or", [f..])

* `("is", place, ctor)`: the value at `place` (an expression, aliases and pattern bindings resolved to the place they
  name: `ds.fields` under `Data::Struct(ref ds)` of `input.data` is `input.data.0.fields`) matches constructor /
  literal `ctor`. `if let`, `match` arms (with the complement of the earlier arms), `matches!`, `==` against a variant
  or literal, `is_some()` / `is_none()` / `is_ok()` / `is_err()`, slice patterns and `len() == n` all become `is` tests.
* `("atom", text)`: any other boolean expression, rendered canonically.

Two formulas are compared by a truth table over their atoms, where the constructors tested at one place exclude each
other (and `Some`/`None`, `Ok`/`Err`, `true`/`false` are exhaustive). So nested `match`es and one `match` on a nested
pattern, `if let` chains, early returns, De Morgan rewrites, `a == V` and `matches!(a, V)` are the same condition.
Nothing is executed; atoms stay textual (local names become `$`).
"""
import itertools
import re

from . import ast as A

T = ("T",)
F = ("F",)


def f_is(place, ctor):
    if ctor == "true":
        return ("atom", place)
    if ctor == "false":
        return ("not", ("atom", place))
    return ("is", place, ctor)


def f_not(f):
    if f == T:
        return F
    if f == F:
        return T
    if f[0] == "not":
        return f[1]
    return ("not", f)


def f_and(fs):
    out = []
    for f in fs:
        if f == T:
            continue
        if f == F:
            return F
        if f[0] == "and":
            out.extend(f[1])
        else:
            out.append(f)
    if not out:
        return T
    return out[0] if len(out) == 1 else ("and", out)


def f_or(fs):
    out = []
    for f in fs:
        if f == F:
            continue
        if f == T:
            return T
        if f[0] == "or":
            out.extend(f[1])
        else:
            out.append(f)
    if not out:
        return F
    return out[0] if len(out) == 1 else ("or", out)


# ---------------------------------------------------------------- text helpers


def _render(e):
    return A.render(A.norm_ast(e))


_WORD = re.compile(r"(?<![A-Za-z0-9_.#:\"'])\b[a-z_][a-z0-9_]*\b(?![A-Za-z0-9_(!:\"'])")


def subst_text(text, env, depth=0):
    """replace local names by what they stand for (env: name -> text)"""
    if depth > 4 or not env:
        return text
    if "__nodes__" in env or "__busy__" in env:
        env = {k: v for k, v in env.items() if isinstance(v, str)}

    def sub(m):
        w = m.group(0)
        if w in env:
            if text[m.start() - 1 : m.start()] == "|" and text[m.end() : m.end() + 1] == "|":
                return w
            r = env[w]
            if r == w or len(r) > 400:
                return w
            inner = subst_text(r, {k: v for k, v in env.items() if k != w}, depth + 1)
            if re.fullmatch(r"[\w.:$#&\[\]]+(\([^()]*\))?(\?)?", inner) or inner.endswith(")") or inner.endswith("?"):
                return inner
            return "(" + inner + ")"
        return w

    return _WORD.sub(sub, text)


def ctor_name(path_text):
    """`syn::Data::Enum` -> `Data::Enum`; `Some` -> `Some`; literals unchanged"""
    t = path_text.strip()
    if not t or t[0] in "\"'0123456789-":
        return t
    segs = [s for s in re.sub(r"<[^<>]*>", "", t).split("::") if s]
    return "::".join(segs[-2:]) if len(segs) >= 2 else t


def place_of(e, env):
    """canonical text of the place an expression denotes (references / parentheses / `.as_ref()` / `.clone()` peeled)"""
    while True:
        k = A.kind(e)
        if k in ("Expr::Reference", "Expr::Paren", "Expr::Group"):
            e = e["expr"]
        elif k == "Expr::Unary" and A.kind(e["op"]) == "UnOp::Deref":
            e = e["expr"]
        elif k == "Expr::MethodCall" and not e["args"] and e["method"]["sym"] in ("as_ref", "as_mut", "as_deref", "clone", "by_ref"):
            e = e["receiver"]
        else:
            break
    if A.kind(e) == "Expr::Tuple":
        return ("tuple", [place_of(x, env) for x in e["elems"]], list(e["elems"]), env)
    return subst_text(_render(e), env)


def _sub_place(place, key):
    if isinstance(place, tuple) and place[0] == "tuple":
        try:
            sub = place[1][int(key)]
            if isinstance(sub, str) and len(place) > 3:
                return ("expr", sub, place[2][int(key)], place[3])
            return sub
        except (ValueError, IndexError):
            return _ptext(place) + "." + str(key)
    return f"{_ptext(place)}.{key}"


def _ptext(place):
    if isinstance(place, tuple):
        if place[0] == "expr":
            return place[1]
        return "(" + ",".join(_ptext(p) for p in place[1]) + ")"
    return place


# ---------------------------------------------------------------- patterns


def pat_formula(place, pat, binds):
    """formula for `place` matching `pat`; names the pattern binds are added to `binds` (name -> place text)"""
    k = A.kind(pat)
    if k in ("Pat::Wild", "Pat::Rest"):
        return T
    if k == "Pat::Ident":
        nm = pat["ident"]["sym"]
        sub = pat.get("subpat")
        if nm[:1].isupper() and not sub:
            # an upper-case identifier pattern is a constant / unit variant in scope
            return ("is", _ptext(place), ctor_name(nm))
        binds[nm] = _ptext(place)
        if sub:
            sp = sub[1] if isinstance(sub, list) else sub.get("1", sub) if isinstance(sub, dict) and "1" in sub else sub
            return pat_formula(place, sp, binds)
        return T
    if k in ("Pat::Reference", "Pat::Paren", "Pat::Type"):
        return pat_formula(place, pat["pat"], binds)
    if k == "Pat::Lit":
        r = A.render_pat(pat)
        if r in ("true", "false") and isinstance(place, tuple) and place[0] == "expr":
            # `match (a > 1, flag) { (true, _) => ..`: a boolean element matched against a literal is the condition itself
            f = bool_formula(place[2], place[3], {})
            return f if r == "true" else f_not(f)
        return f_is(_ptext(place), r)
    if k == "Pat::Path":
        return ("is", _ptext(place), ctor_name(A.render_pat(pat)))
    if k == "Pat::TupleStruct":
        c = ctor_name(A.path_str(pat["path"]) if "path" in pat else A.render_pat(pat).split("(")[0])
        parts = [("is", _ptext(place), c)]
        i = 0
        for e in pat["elems"]:
            if A.kind(e) == "Pat::Rest":
                break
            parts.append(pat_formula(_sub_place(_ptext(place), i), e, binds))
            i += 1
        return f_and(parts)
    if k == "Pat::Struct":
        pth = A.path_str(pat["path"]) if "path" in pat else ""
        segs = [s for s in pth.split("::") if s]
        # a single-segment struct pattern (`DataStruct { fields, .. }`) is a plain struct: it always matches
        parts = [("is", _ptext(place), ctor_name(pth))] if len(segs) >= 2 else []
        base = _ptext(place)
        for fp in pat["fields"]:
            mem = fp["member"]
            key = mem["0"]["sym"] if A.kind(mem) == "Member::Named" else str(mem["0"].get("index", 0))
            parts.append(pat_formula(f"{base}.{key}", fp["pat"], binds))
        return f_and(parts)
    if k == "Pat::Tuple":
        parts = []
        i = 0
        for e in pat["elems"]:
            if A.kind(e) == "Pat::Rest":
                break
            parts.append(pat_formula(_sub_place(place, i), e, binds))
            i += 1
        return f_and(parts)
    if k == "Pat::Or":
        return f_or([pat_formula(place, c, dict(binds)) for c in pat["cases"]])
    if k == "Pat::Slice":
        elems = pat["elems"]
        rest = any(A.kind(e) == "Pat::Rest" for e in elems)
        base = _ptext(place)
        parts = []
        if not rest:
            parts.append(("is", f"{base}.len()", str(len(elems))))
        else:
            parts.append(("atom", f"{base}.len()>={len(elems) - 1}"))
        i = 0
        for e in elems:
            if A.kind(e) == "Pat::Rest":
                break
            parts.append(pat_formula(f"{base}[{i}]", e, binds))
            i += 1
        return f_and(parts)
    return ("is", _ptext(place), A.render_pat(pat))


# ---------------------------------------------------------------- token-level patterns (inside `matches!`)


class _Toks:
    def __init__(self, toks):
        self.t = toks
        self.i = 0

    def peek(self, k=0):
        return self.t[self.i + k] if self.i + k < len(self.t) else None

    def punct(self, c, k=0):
        x = self.peek(k)
        return x is not None and A.kind(x) == "Punct" and A.punct_char(x) == c

    def ident(self, k=0):
        x = self.peek(k)
        return x["sym"] if x is not None and A.kind(x) == "Ident" else None


def _split_top_commas(toks):
    parts, cur = [], []
    for t in toks:
        if A.kind(t) == "Punct" and A.punct_char(t) == ",":
            parts.append(cur)
            cur = []
        else:
            cur.append(t)
    parts.append(cur)
    return parts


def _tok_text(toks):
    return A.tokens_compact(toks)


def tok_pat_formula(place, toks, binds):
    """pattern given as raw tokens: alternatives of paths / literals / `Ctor(..)` / `Ctor{..}` / tuples / `_` / bindings"""
    # split alternatives at top-level `|`
    alts, cur = [], []
    for t in toks:
        if A.kind(t) == "Punct" and A.punct_char(t) == "|":
            alts.append(cur)
            cur = []
        else:
            cur.append(t)
    alts.append(cur)
    alts = [a for a in alts if a]
    if len(alts) > 1:
        return f_or([tok_pat_formula(place, a, dict(binds)) for a in alts])
    ts = alts[0] if alts else []
    # strip `&`, `ref`, `mut`
    while ts and ((A.kind(ts[0]) == "Punct" and A.punct_char(ts[0]) == "&") or (A.kind(ts[0]) == "Ident" and ts[0]["sym"] in ("ref", "mut"))):
        ts = ts[1:]
    if not ts:
        return T
    if len(ts) == 1 and A.kind(ts[0]) == "Ident":
        nm = ts[0]["sym"]
        if nm == "_":
            return T
        if nm[:1].islower():
            binds[nm] = _ptext(place)
            return T
        return ("is", _ptext(place), ctor_name(nm))
    if len(ts) == 1 and A.kind(ts[0]) == "Group" and ts[0].get("delimiter") == "Parenthesis":
        parts = _split_top_commas(ts[0]["stream"])
        fs = []
        for i, p in enumerate([p for p in parts if p]):
            if len(p) == 2 and all(A.kind(x) == "Punct" and A.punct_char(x) == "." for x in p):
                break
            fs.append(tok_pat_formula(_sub_place(place, i), p, binds))
        return f_and(fs)
    # path [group]
    last = ts[-1]
    if A.kind(last) == "Group" and all(A.kind(x) in ("Ident", "Punct") for x in ts[:-1]):
        pth = _tok_text(ts[:-1])
        c = ctor_name(pth)
        base = _ptext(place)
        if last.get("delimiter") == "Parenthesis":
            fs = [("is", base, c)]
            for i, p in enumerate([p for p in _split_top_commas(last["stream"]) if p]):
                if all(A.kind(x) == "Punct" and A.punct_char(x) == "." for x in p):
                    break
                fs.append(tok_pat_formula(f"{base}.{i}", p, binds))
            return f_and(fs)
        if last.get("delimiter") == "Brace":
            segs = [s for s in pth.split("::") if s]
            fs = [("is", base, c)] if len(segs) >= 2 else []
            for p in [p for p in _split_top_commas(last["stream"]) if p]:
                if all(A.kind(x) == "Punct" and A.punct_char(x) == "." for x in p):
                    continue
                if A.kind(p[0]) == "Ident" and len(p) >= 3 and A.kind(p[1]) == "Punct" and A.punct_char(p[1]) == ":":
                    fs.append(tok_pat_formula(f"{base}.{p[0]['sym']}", p[2:], binds))
                elif A.kind(p[0]) == "Ident" and len(p) == 1:
                    binds[p[0]["sym"]] = f"{base}.{p[0]['sym']}"
            return f_and(fs)
    if all(A.kind(x) in ("Ident", "Punct") for x in ts) and any(A.kind(x) == "Punct" and A.punct_char(x) == ":" for x in ts):
        return ("is", _ptext(place), ctor_name(_tok_text(ts)))
    return ("is", _ptext(place), _tok_text(ts))


# ---------------------------------------------------------------- boolean expressions


OPTION_TESTS = {"is_some": "Some", "is_none": "None", "is_ok": "Ok", "is_err": "Err"}


def _is_ctor_expr(e):
    e = A.peel(e)
    k = A.kind(e)
    if k == "Expr::Lit":
        return True
    if k == "Expr::Path":
        p = A.path_str(e) or ""
        last = p.split("::")[-1]
        return bool(last) and (last[0].isupper() or last in ("None",))
    if k == "Expr::Unary" and A.kind(e["op"]) == "UnOp::Neg":
        return _is_ctor_expr(e["expr"])
    return False


def bool_formula(e, env, binds=None):
    """formula of a boolean expression (`env`: name -> text for aliases and pattern bindings)"""
    binds = binds if binds is not None else {}
    k = A.kind(e)
    if k in ("Expr::Paren", "Expr::Group"):
        return bool_formula(e["expr"], env, binds)
    if k == "Expr::Block" and len(e["block"]["stmts"]) == 1 and A.kind(e["block"]["stmts"][0]) == "Stmt::Expr":
        return bool_formula(e["block"]["stmts"][0]["0"], env, binds)
    if k == "Expr::Lit" and A.kind(e["lit"]) == "Lit::Bool":
        return T if A.render(e) == "true" else F
    if k == "Expr::Path":
        nm = A.path_str(e)
        nodes = env.get("__nodes__") or {}
        if nm in nodes and nm not in env.get("__busy__", ()):
            # a name bound to a condition (`let all = xs.iter().all(..);`): read the condition itself
            env2 = dict(env)
            env2["__busy__"] = tuple(env.get("__busy__", ())) + (nm,)
            return bool_formula(nodes[nm], env2, {})
        return ("atom", subst_text(_render(e), env))
    if k == "Expr::Unary" and A.kind(e["op"]) == "UnOp::Not":
        return f_not(bool_formula(e["expr"], env, binds))
    if k == "Expr::Binary":
        op = A.kind(e["op"])
        if op == "BinOp::And":
            l = bool_formula(e["left"], env, binds)
            env2 = dict(env, **binds)
            return f_and([l, bool_formula(e["right"], env2, binds)])
        if op == "BinOp::Or":
            return f_or([bool_formula(e["left"], env, binds), bool_formula(e["right"], env, binds)])
        if op in ("BinOp::Eq", "BinOp::Ne"):
            l, r = e["left"], e["right"]
            f = None
            if _is_ctor_expr(r) and not _is_ctor_expr(l):
                f = ("is", _ptext(place_of(l, env)), ctor_name(_render(A.peel(r))))
            elif _is_ctor_expr(l) and not _is_ctor_expr(r):
                f = ("is", _ptext(place_of(r, env)), ctor_name(_render(A.peel(l))))
            if f is None:
                a, b = sorted([subst_text(_render(A.peel(l)), env), subst_text(_render(A.peel(r)), env)])
                f = ("atom", f"{a}=={b}")
            return f if op == "BinOp::Eq" else f_not(f)
        if op in ("BinOp::Lt", "BinOp::Gt", "BinOp::Le", "BinOp::Ge"):
            l, r = subst_text(_render(A.peel(e["left"])), env), subst_text(_render(A.peel(e["right"])), env)
            # a<b | a<=b as the two base forms; > and >= are their mirror images
            if op == "BinOp::Gt":
                return ("atom", f"{r}<{l}")
            if op == "BinOp::Ge":
                return ("atom", f"{r}<={l}")
            return ("atom", f"{l}{'<' if op == 'BinOp::Lt' else '<='}{r}")
    if k == "Expr::Let":
        return pat_formula(place_of(e["expr"], env), e["pat"], binds)
    if k == "Expr::MethodCall":
        m = e["method"]["sym"]
        if m in OPTION_TESTS and not e["args"]:
            return ("is", _ptext(place_of(e["receiver"], env)), OPTION_TESTS[m])
        if m in ("all", "any") and len(e["args"]) == 1 and A.kind(e["args"][0]) == "Expr::Closure":
            cl = e["args"][0]
            inner = bool_formula(cl["body"], env, {})
            recv = subst_text(_render(e["receiver"]), env)
            if m == "any":
                # any(p) == !all(!p)
                return f_not(("atom", f"{recv}.all(|$|{canon_text(f_not(inner))})"))
            return ("atom", f"{recv}.all(|$|{canon_text(inner)})")
        if m in ("is_some_and", "is_ok_and") and len(e["args"]) == 1 and A.kind(e["args"][0]) == "Expr::Closure":
            cl = e["args"][0]
            pl = _ptext(place_of(e["receiver"], env))
            ids = A.pat_idents(cl["inputs"][0]) if cl["inputs"] else []
            env2 = dict(env)
            if len(ids) == 1:
                env2[ids[0]] = f"{pl}.0"
            return f_and([("is", pl, "Some" if m == "is_some_and" else "Ok"), bool_formula(cl["body"], env2, {})])
    if k == "Expr::Macro" and A.path_last(e["mac"]["path"]) == "matches":
        parts = _split_top_commas(e["mac"]["tokens"])
        parts = [p for p in parts if p]
        if len(parts) >= 2:
            scr = subst_text(_tok_text(parts[0]).lstrip("&"), env)
            pat = parts[1]
            guard = None
            for i, t in enumerate(pat):
                if A.kind(t) == "Ident" and t["sym"] == "if":
                    guard = pat[i + 1 :]
                    pat = pat[:i]
                    break
            b2 = {}
            f = tok_pat_formula(scr, pat, b2)
            if guard is not None:
                f = f_and([f, ("atom", subst_text(_tok_text(guard), dict(env, **b2)))])
            return f
    return ("atom", subst_text(_render(e), env))


# ---------------------------------------------------------------- canonical text


def canon_text(f):
    """deterministic rendering (operands sorted; local names `$`)"""
    k = f[0]
    if k == "T":
        return "true"
    if k == "F":
        return "false"
    if k == "atom":
        return A.alpha(f[1], numbered=False)
    if k == "is":
        return f"{A.alpha(f[1], numbered=False)} ~ {f[2]}"
    if k == "not":
        return f"!({canon_text(f[1])})"
    parts = sorted(canon_text(x) for x in f[1])
    return "(" + (" && " if k == "and" else " || ").join(parts) + ")"


def alpha_formula(f):
    k = f[0]
    if k in ("T", "F"):
        return f
    if k == "atom":
        return ("atom", A.alpha(f[1], numbered=False))
    if k == "is":
        return ("is", A.alpha(f[1], numbered=False), f[2])
    if k == "not":
        return ("not", alpha_formula(f[1]))
    return (k, [alpha_formula(x) for x in f[1]])


def map_text(f, fn):
    k = f[0]
    if k in ("T", "F"):
        return f
    if k == "atom":
        return ("atom", fn(f[1]))
    if k == "is":
        return ("is", fn(f[1]), f[2])
    if k == "not":
        return ("not", map_text(f[1], fn))
    return (k, [map_text(x, fn) for x in f[1]])


def to_json(f):
    k = f[0]
    if k in ("T", "F"):
        return [k]
    if k in ("atom",):
        return [k, f[1]]
    if k == "is":
        return [k, f[1], f[2]]
    if k == "not":
        return [k, to_json(f[1])]
    return [k, [to_json(x) for x in f[1]]]


def from_json(j):
    k = j[0]
    if k in ("T", "F"):
        return (k,)
    if k == "atom":
        return ("atom", j[1])
    if k == "is":
        return ("is", j[1], j[2])
    if k == "not":
        return ("not", from_json(j[1]))
    return (k, [from_json(x) for x in j[1]])


# ---------------------------------------------------------------- equivalence

# closed sets of constructors (std's and the ones of syn's exhaustive enums the derives dispatch on)
EXHAUSTIVE = [{"Some", "None"}, {"Ok", "Err"}, {"true", "false"}, {"Fields::Named", "Fields::Unnamed", "Fields::Unit"}, {"Data::Struct", "Data::Enum", "Data::Union"}]


def _collect(f, atoms, places):
    k = f[0]
    if k == "atom":
        atoms.add(f[1])
    elif k == "is":
        places.setdefault(f[1], set()).add(f[2])
    elif k == "not":
        _collect(f[1], atoms, places)
    elif k in ("and", "or"):
        for x in f[1]:
            _collect(x, atoms, places)


def _eval(f, av, pv):
    k = f[0]
    if k == "T":
        return True
    if k == "F":
        return False
    if k == "atom":
        return av[f[1]]
    if k == "is":
        return pv[f[1]] == f[2]
    if k == "not":
        return not _eval(f[1], av, pv)
    if k == "and":
        return all(_eval(x, av, pv) for x in f[1])
    return any(_eval(x, av, pv) for x in f[1])


def equivalent(f, g, limit=400000):
    """(equal?, counterexample or None); falls back to canonical text when the table would be too large"""
    f, g = alpha_formula(f), alpha_formula(g)
    atoms, places = set(), {}
    _collect(f, atoms, places)
    _collect(g, atoms, places)
    atoms = sorted(atoms)
    pl = sorted(places)
    choices = []
    n = 2 ** len(atoms)
    for p in pl:
        cs = sorted(places[p])
        opts = list(cs)
        if not any(set(cs) == ex for ex in EXHAUSTIVE):
            opts.append(None)  # some other constructor
        choices.append(opts)
        n *= len(opts)
    if n > limit:
        return canon_text(f) == canon_text(g), None
    for bits in itertools.product((False, True), repeat=len(atoms)):
        av = dict(zip(atoms, bits))
        for sel in itertools.product(*choices):
            pv = dict(zip(pl, sel))
            if _eval(f, av, pv) != _eval(g, av, pv):
                return False, {"atoms": av, "places": pv}
    return True, None


# ---------------------------------------------------------------- conditions leading to a node


def _within(node, part):
    if part is None:
        return False
    a, b = A.span_of(part) or (None, None)
    s = A.span_of(node)
    return a is not None and s is not None and a <= s[0] and s[1] <= b


def _guard_expr(arm):
    g = arm.get("guard")
    gx = g[1] if isinstance(g, list) and len(g) > 1 else g
    return gx if isinstance(gx, dict) else None


def _leaves(block):
    st = block.get("stmts") if isinstance(block, dict) else None
    if not st:
        return None
    last = st[-1]
    e = last.get("0") if A.kind(last) == "Stmt::Expr" else None
    if e is not None and A.kind(e) in ("Expr::Return", "Expr::Continue", "Expr::Break"):
        return A.render_stmt(last)
    if A.kind(last) == "Stmt::Macro" and A.path_last(last["mac"]["path"]) in ("panic", "unreachable", "unimplemented"):
        return "panic!"
    if e is not None and A.kind(e) == "Expr::Macro" and A.path_last(e["mac"]["path"]) in ("panic", "unreachable", "unimplemented"):
        return "panic!"
    return None


def _file_consts(f):
    out = {}
    for x, _ in A.walk(f.ast):
        if A.kind(x) in ("Item::Const", "ImplItem::Const", "Item::Static") and x.get("expr") is not None:
            out[x["ident"]["sym"]] = x["expr"]
    return out


def _lookup_fails(recv, fn, env):
    """`TABLE.iter().find(|(k, ..)| *k == x)[.map(..)]` is `None` iff `x` is none of the table's keys"""
    e = recv
    find = None
    while A.kind(e) == "Expr::MethodCall":
        if e["method"]["sym"] in ("find", "position", "find_map") and len(e["args"]) == 1 and A.kind(e["args"][0]) == "Expr::Closure":
            find = e
        e = e["receiver"]
    if find is None or find["method"]["sym"] == "find_map":
        return None
    base = A.peel(e)
    name = (A.path_str(base) or "").split("::")[-1] if A.kind(base) == "Expr::Path" else None
    table = _file_consts(fn.file).get(name) if name else (base if A.kind(base) == "Expr::Array" else None)
    table = A.peel(table) if table is not None else None
    if table is None or A.kind(table) != "Expr::Array":
        return None
    cl = find["args"][0]
    if len(cl["inputs"]) != 1:
        return None
    prm = cl["inputs"][0]
    while A.kind(prm) in ("Pat::Reference", "Pat::Paren", "Pat::Type"):
        prm = prm["pat"]
    body = A.peel(cl["body"])
    if A.kind(body) != "Expr::Binary" or A.kind(body["op"]) != "BinOp::Eq":
        return None
    # which tuple position is compared, and with what
    def strip(x):
        x = A.peel(x)
        while A.kind(x) == "Expr::Unary" and A.kind(x["op"]) == "UnOp::Deref":
            x = A.peel(x["expr"])
        return x

    l, r = strip(body["left"]), strip(body["right"])
    names = {}
    if A.kind(prm) == "Pat::Tuple":
        for i_, pe in enumerate(prm["elems"]):
            ids = A.pat_idents(pe)
            if len(ids) == 1:
                names[ids[0]] = i_
    elif A.kind(prm) == "Pat::Ident":
        names[prm["ident"]["sym"]] = None
    key_side, other = (l, r) if A.path_str(l) in names else ((r, l) if A.path_str(r) in names else (None, None))
    if key_side is None:
        return None
    pos = names[A.path_str(key_side)]
    keys = []
    for row in table["elems"]:
        row = A.peel(row)
        cell = row["elems"][pos] if pos is not None and A.kind(row) == "Expr::Tuple" and pos < len(row["elems"]) else row
        if not _is_ctor_expr(cell):
            return None
        keys.append(ctor_name(_render(A.peel(cell))))
    pl = _ptext(place_of(other, env))
    return f_not(f_or([("is", pl, k_) for k_ in keys]))


def opt_some_formula(e, env, depth=0):
    """(formula of '`e` holds a value', place of that value) for Option/Result adaptor chains, so that
    `r.ok().and_then(|x| match x { P => Some(..), _ => None })` reads like `r ~ Ok(P)`; None when `e` is not such a chain"""
    e = A.peel(e)
    if depth > 5 or A.kind(e) != "Expr::MethodCall":
        return None
    m, recv, args = e["method"]["sym"], e["receiver"], e["args"]
    inner = opt_some_formula(recv, env, depth + 1)
    if m == "ok" and not args:
        if inner is not None:
            return inner
        pl = _ptext(place_of(recv, env))
        return ("is", pl, "Ok"), f"{pl}.0"
    if m in ("map", "inspect", "cloned", "copied", "as_ref", "as_deref") and inner is not None:
        return inner
    if m in ("and_then", "filter_map") and len(args) == 1 and A.kind(args[0]) == "Expr::Closure" and len(args[0]["inputs"]) == 1:
        base = inner
        if base is None:
            pl = _ptext(place_of(recv, env))
            base = (("is", pl, "Some"), f"{pl}.0")
        cl = args[0]
        body = cl["body"]
        while A.kind(body) == "Expr::Block" and len(body["block"]["stmts"]) == 1 and A.kind(body["block"]["stmts"][0]) == "Stmt::Expr":
            body = body["block"]["stmts"][0]["0"]
        ids = A.pat_idents(cl["inputs"][0])
        if A.kind(body) == "Expr::Match" and len(ids) == 1 and A.render(A.peel(body["expr"])) == ids[0]:
            somes = [a for a in body["arms"] if A.render(A.unblock(a["body"])).startswith("Some(")]
            nones = [a for a in body["arms"] if A.render(A.unblock(a["body"])) == "None"]
            if len(somes) == 1 and len(somes) + len(nones) == len(body["arms"]) and somes[0].get("guard") is None:
                return f_and([base[0], pat_formula(base[1], somes[0]["pat"], {})]), f"{base[1]}.0"
        return None
    return None


def guard_formula(fn, site, parents, lets_text, lets_nodes=None):
    """the condition under which `site` is reached inside `fn`, as a formula. `lets_text`: name -> text of the
    function's single-assignment aliases. Early *neutral* exits (`if c { return Ok(..) }`, `continue`) of the enclosing
    blocks contribute their negation; early failures are refusals of their own."""
    env = dict(lets_text)
    if lets_nodes:
        env["__nodes__"] = dict(lets_nodes)
    conj = []
    for i, p in enumerate(parents):
        k = A.kind(p)
        if k == "Block":
            nxt = parents[i + 1] if i + 1 < len(parents) else site
            for st in p["stmts"]:
                if st is nxt or (A.kind(st) == "Stmt::Expr" and st.get("0") is nxt) or _within(site, st):
                    break
                e = st.get("0") if A.kind(st) == "Stmt::Expr" else None
                if e is not None and A.kind(e) == "Expr::If" and not e.get("else_branch"):
                    tail = _leaves(e["then_branch"])
                    if tail is None or tail.startswith("return Err(") or "panic!" in tail:
                        continue
                    conj.append(f_not(bool_formula(e["cond"], env, {})))
                elif A.kind(st) == "Stmt::Local" and st.get("init") and st["init"].get("diverge") is not None:
                    # let P = E else { <leaves> };
                    b = {}
                    f = pat_formula(place_of(st["init"]["expr"], env), st["pat"], b)
                    d = st["init"]["diverge"]
                    dblk = d["block"] if A.kind(d) == "Expr::Block" else d
                    tail = _leaves(dblk) if isinstance(dblk, dict) else None
                    env.update(b)
                    # what follows a `let P = E else { <leaves> }` runs under `E ~ P`, like the arm of a `match E { P => .. }`
                    # (also when the else block is itself a refusal: the pattern *binds* what the later code tests)
                    conj.append(f)
        elif k == "Stmt::Local" and p.get("init") and p["init"].get("diverge") is not None and _within(site, p["init"]["diverge"]):
            # the site lies in the `else` block of `let P = E else { .. }`: reached iff E does not match P
            conj.append(f_not(pat_formula(place_of(p["init"]["expr"], env), p["pat"], {})))
        elif k == "Expr::If":
            if _within(site, p["cond"]):
                continue
            pos = _within(site, p["then_branch"])
            b = {}
            f = bool_formula(p["cond"], env, b)
            if pos:
                env.update(b)
                conj.append(f)
            else:
                conj.append(f_not(f))
        elif k == "Arm":
            mt = parents[i - 1] if i and A.kind(parents[i - 1]) == "Expr::Match" else None
            if mt is None:
                for q in reversed(parents[:i]):
                    if A.kind(q) == "Expr::Match":
                        mt = q
                        break
            if mt is None:
                continue
            place = place_of(mt["expr"], env)
            gx = _guard_expr(p)
            in_guard = gx is not None and _within(site, gx)
            earlier = []
            for a in mt["arms"]:
                if a is p:
                    break
                b = {}
                fa = pat_formula(place, a["pat"], b)
                ga = _guard_expr(a)
                if ga is not None:
                    fa = f_and([fa, bool_formula(ga, dict(env, **b), {})])
                earlier.append(fa)
            b = {}
            f = pat_formula(place, p["pat"], b)
            env.update(b)
            parts = [f]
            if gx is not None and not in_guard:
                parts.append(bool_formula(gx, env, {}))
            parts.append(f_not(f_or(earlier)))
            conj.append(f_and(parts))
        elif k == "Expr::While":
            if A.kind(p["cond"]) == "Expr::Let":
                b = {}
                conj.append(pat_formula(place_of(p["cond"]["expr"], env), p["cond"]["pat"], b))
                env.update(b)
            else:
                conj.append(bool_formula(p["cond"], env, {}))
        elif k == "Expr::Closure":
            # `TABLE.iter().find(|(k, _)| *k == x)...unwrap_or_else(|| <site>)`: reached iff `x` is none of the keys
            par = parents[i - 1] if i else None
            if A.kind(par) == "Expr::MethodCall" and par["method"]["sym"] in ("unwrap_or_else", "ok_or_else", "or_else") and any(a is p for a in par["args"]):
                f = _lookup_fails(par["receiver"], fn, env)
                if f is not None:
                    conj.append(f)
            elif A.kind(par) == "Expr::MethodCall" and par["method"]["sym"] in ("map_or", "map_or_else", "map", "and_then", "is_some_and", "inspect") and par["args"] and par["args"][-1] is p and len(p["inputs"]) == 1:
                # `r.map_or(Ok(()), |dup| <site>)` / `r.map(|v| <site>)`: reached iff `r` holds a value, like `if let Some(dup) = r`
                b = {}
                pat = {"_": "Pat::TupleStruct", "attrs": [], "qself": None, "path": {"_": "Path", "leading_colon": None, "segments": [{"ident": {"_": "Ident", "sym": "Some", "span": [0, 0]}, "arguments": "PathArguments::None"}]}, "paren_token": "Paren", "elems": [p["inputs"][0]]}
                try:
                    osf = opt_some_formula(par["receiver"], env)
                    if osf is not None:
                        conj.append(osf[0])
                    else:
                        conj.append(pat_formula(place_of(par["receiver"], env), pat, b))
                        env.update(b)
                except Exception:
                    pass
    return f_and(conj)
