"""Engine G: extract a PEG from the combinator-style format-literal parser of impl/src/fmt/parsing.rs
and interpret it. The model is derived from the *source* on every run; nothing of the crate executes.

Extraction fails closed (AnchorLost) on any combinator use it does not understand.
"""
from . import ast as A

MAX_USIZE = (1 << 64) - 1


class N:
    def __init__(self, k, **kw):
        self.k = k
        self.__dict__.update(kw)

    def __repr__(self):
        d = {k: v for k, v in self.__dict__.items() if k != "k"}
        return f"{self.k}({d})"


REQUIRED_FNS = ["format_string", "maybe_format", "format", "argument", "format_spec", "align", "sign", "precision", "type_", "count", "parameter", "identifier", "integer", "text"]
COMBINATORS = {"try_seq", "alt", "map", "map_or_else", "and_then", "lookahead", "optional_result", "take_while0", "take_while1", "take_until1", "str", "char", "check_char", "one_of", "any_char", "take_any_char"}
LEAF_FNS = {"any_char": "any", "take_any_char": "anyv"}


class Extractor:
    def __init__(self, files, rel="impl/src/fmt/parsing.rs"):
        if rel not in files:
            raise A.AnchorLost(rel, "file missing")
        self.f = files[rel]
        self.rel = rel
        self.fns = {fn.name: fn for fn in A.functions(self.f) if "::" not in fn.qual}
        self.rules = {}
        # every free function that is not a combinator is a grammar function (helpers may be added freely)
        self.grammar_fns = [n for n in self.fns if n not in COMBINATORS]
        self.struct_fields = {}
        for it, mods, cfgs in A.iter_items(self.f.ast["items"]):
            if A.kind(it) == "Item::Struct":
                flds = it["fields"]
                if A.kind(flds) == "Fields::Named":
                    self.struct_fields[it["ident"]["sym"]] = [x["ident"]["sym"] for x in flds["0"]["named"]] if "0" in flds else [x["ident"]["sym"] for x in flds["named"]]

    def lost(self, what, why):
        raise A.AnchorLost(f"{self.rel}::{what}", why)

    def extract_all(self):
        for name in REQUIRED_FNS:
            if name not in self.fns:
                self.lost(name, "grammar function not found")
        for name in self.grammar_fns:
            self.rules[name] = self.fn_body(self.fns[name])
        return self.rules

    # ---- function bodies
    def input_arg(self, fn, a):
        """`input` | `input.trim_start()` | `input.trim_end()` | `input.trim()` -> (skip leading ws?, drop trailing ws?) or None"""
        if A.path_str(a) == "input":
            return (False, False)
        if A.kind(a) == "Expr::MethodCall" and not a["args"] and A.path_str(a["receiver"]) == "input":
            m = a["method"]["sym"]
            if m == "trim_start":
                return (True, False)
            if m == "trim_end":
                return (False, True)
            if m == "trim":
                return (True, True)
        return None

    def wrap(self, p, how):
        if how == (False, False):
            return p
        ws = N("star", p=N("cls", pred=("ws",)), collect=False)
        return N("wrap", pre=[ws] if how[0] else [], p=p, trim_end=how[1])

    def fn_body(self, fn):
        stmts = fn.block["stmts"]
        if fn.name == "format_string":
            return self.format_string(fn)
        if len(stmts) == 1 and A.kind(stmts[0]) == "Stmt::Expr":
            e = stmts[0]["0"]
            # COMB(..)(input)
            if A.kind(e) == "Expr::Call" and len(e["args"]) == 1 and self.input_arg(fn, e["args"][0]) is not None:
                return self.wrap(self.parser(fn, e["func"]), self.input_arg(fn, e["args"][0]))
            self.lost(fn.name, "tail expression is not `<parser>(input)`")
        # let-sequence
        steps = []
        result = None
        for st in stmts:
            k = A.kind(st)
            if k == "Stmt::Local":
                names = A.pat_idents(st["pat"])
                init = st["init"]["expr"]
                req = False
                if A.kind(init) == "Expr::Try":
                    req = True
                    init = init["expr"]
                if names == ["input"] and not req and self.input_arg(fn, init) not in (None, (False, False)):
                    # `let input = input.trim_start();`
                    steps.append((None, self.wrap(N("seq", items=[]), self.input_arg(fn, init)), False))
                    continue
                if not (A.kind(init) == "Expr::Call" and len(init["args"]) == 1 and self.input_arg(fn, init["args"][0]) is not None):
                    self.lost(fn.name, "let initialiser is not `<parser>(input)`")
                p = self.wrap(self.parser(fn, init["func"]), self.input_arg(fn, init["args"][0]))
                var = [n for n in names if n != "input"]
                if "input" not in names:
                    self.lost(fn.name, "a parsing step does not rebind `input`")
                steps.append((var[0] if var else None, p, req))
            elif k == "Stmt::Expr":
                e = st["0"]
                # Some((input, Struct { .. }))
                if A.kind(e) == "Expr::Call" and A.path_str(e["func"]) == "Some":
                    tup = e["args"][0]
                    if A.kind(tup) == "Expr::Tuple" and len(tup["elems"]) == 2 and A.kind(tup["elems"][1]) == "Expr::Struct":
                        sl = tup["elems"][1]
                        result = (A.path_last(sl["path"]), {fv["member"]["0"]["sym"]: A.path_str(fv["expr"]) for fv in sl["fields"]})
                        continue
                # steps followed by a final `<parser>(input)`
                if A.kind(e) == "Expr::Call" and len(e["args"]) == 1 and self.input_arg(fn, e["args"][0]) is not None and st is stmts[-1]:
                    steps.append((None, self.wrap(self.parser(fn, e["func"]), self.input_arg(fn, e["args"][0])), True))
                    return N("seq", items=[p for _, p, _ in steps])
                self.lost(fn.name, "unexpected tail expression")
            else:
                self.lost(fn.name, f"unexpected statement {k}")
        if result is None:
            self.lost(fn.name, "no result struct")
        return N("fnseq", steps=steps, struct=result[0], fields=result[1])

    def format_string(self, fn):
        """text? (maybe_format | text)* EOF  -- recognised by shape"""
        src = A.expr_text(fn.file, fn.block)
        calls = [A.path_str(c["func"]) for c, _ in A.calls(fn.block)]
        mcs = [m["method"]["sym"] for m, _ in A.method_calls(fn.block)]
        # first statement: optional_result(text)(input)
        st0 = fn.block["stmts"][0]
        if A.kind(st0) != "Stmt::Local":
            self.lost("format_string", "first statement")
        p0 = self.parser(fn, st0["init"]["expr"]["func"])
        # the scan loop: alt([maybe_format, map(text, ..)])
        alts = None
        for c, ps in A.calls(fn.block, lambda p: p == "alt"):
            alts = self.parser(fn, c)
        if alts is None or "scan" not in mcs or "is_empty" not in mcs or "then_some" not in mcs:
            self.lost("format_string", "repeat/scan loop or final `input.is_empty()` test not found")
        # the loop body must propagate failure (`?`) and advance `**input = curr`
        has_try = any(True for _ in A.find(fn.block, "Expr::Try"))
        assign = any(A.kind(x) == "Expr::Assign" for x, _ in A.walk(fn.block))
        if not has_try or not assign:
            self.lost("format_string", "scan closure does not stop on failure / does not advance the input")
        return N("seq", items=[p0, N("star", p=alts, collect=True), N("eof")], name="format_string")

    # ---- parser expressions
    def parser(self, fn, e):
        k = A.kind(e)
        if k in ("Expr::Reference", "Expr::Paren", "Expr::Group"):
            return self.parser(fn, e["expr"])
        if k == "Expr::Path":
            nm = A.path_str(e)
            if nm in self.grammar_fns:
                return N("ref", name=nm)
            if nm in LEAF_FNS:
                return N(LEAF_FNS[nm])
            self.lost(fn.name, f"unknown parser name `{nm}`")
        if k == "Expr::Call":
            f = A.path_str(e["func"])
            args = e["args"]
            if f == "char":
                return N("lit", s=self.char_lit(fn, args[0]))
            if f == "str":
                return N("lit", s=self.str_lit(fn, args[0]))
            if f == "one_of":
                return N("cls", pred=("oneof", self.str_lit(fn, args[0])))
            if f == "check_char":
                return N("cls", pred=self.pred(fn, args[0]))
            if f == "alt":
                return N("alt", items=[self.parser(fn, x) for x in self.slice_items(fn, args[0])])
            if f == "try_seq":
                return N("seq", items=[self.parser(fn, x) for x in self.slice_items(fn, args[0])])
            if f == "optional_result":
                return N("opt", p=self.parser(fn, args[0]))
            if f == "lookahead":
                return N("and", p=self.parser(fn, args[0]))
            if f == "take_while0":
                return N("star", p=self.parser(fn, args[0]), collect=False)
            if f == "take_while1":
                return N("plus", p=self.parser(fn, args[0]))
            if f == "take_until1":
                return N("plus", p=N("seq", items=[N("not", p=self.parser(fn, args[1])), self.parser(fn, args[0])]))
            if f == "map":
                return self.map_(fn, args[0], args[1])
            if f == "and_then":
                return self.and_then(fn, args[0], args[1])
            if f == "map_or_else":
                return self.map_or_else(fn, args)
            self.lost(fn.name, f"unknown combinator `{f}`")
        self.lost(fn.name, f"unsupported parser expression {k}")

    def slice_items(self, fn, e):
        e = A.peel(e)
        if A.kind(e) != "Expr::Array":
            self.lost(fn.name, "combinator argument is not an array literal")
        return e["elems"]

    def char_lit(self, fn, e):
        if A.kind(e) == "Expr::Lit" and A.kind(e["lit"]) == "Lit::Char":
            return e["lit"]["token"]["value"]
        self.lost(fn.name, "char(..) argument is not a literal")

    def str_lit(self, fn, e):
        if A.kind(e) == "Expr::Lit" and A.kind(e["lit"]) == "Lit::Str":
            return e["lit"]["token"]["value"]
        self.lost(fn.name, "str(..) argument is not a literal")

    def pred(self, fn, e):
        if A.kind(e) == "Expr::Path":
            nm = A.path_str(e)
            if nm.endswith("is_xid_start"):
                return ("xid_start",)
            if nm.endswith("is_xid_continue"):
                return ("xid_continue",)
            if nm.endswith("is_ascii_whitespace"):
                return ("ascii_ws",)
            if nm.endswith("is_whitespace"):
                return ("ws",)
            if nm.endswith("is_ascii_digit"):
                return ("digit",)
            self.lost(fn.name, f"unknown character predicate `{nm}`")
        if A.kind(e) == "Expr::Closure":
            body = e["body"]
            txt = A.render(body)
            c = A.pat_idents(e["inputs"][0])[0]
            if txt == f"{c}.is_ascii_digit()":
                return ("digit",)
            if txt == f"{c}.is_whitespace()":
                return ("ws",)
            if txt == f"{c}.is_ascii_whitespace()":
                return ("ascii_ws",)
            if txt == f"{c}.is_alphabetic()":
                return ("alpha",)
            if txt == f"{c}.is_alphanumeric()":
                return ("alnum",)
            if txt == f"{c}.is_ascii_alphabetic()":
                return ("ascii_alpha",)
            if txt == f"{c}.is_ascii_alphanumeric()":
                return ("ascii_alnum",)
            # !matches!(c, 'x' | 'y')
            if A.kind(body) == "Expr::Unary" and A.kind(body["op"]) == "UnOp::Not" and A.kind(body["expr"]) == "Expr::Macro" and A.path_last(body["expr"]["mac"]["path"]) == "matches":
                chars = [t["lit"]["value"] for t in body["expr"]["mac"]["tokens"] if A.kind(t) == "Literal" and t["lit"].get("kind") == "char"]
                return ("notin", "".join(chars))
            if A.kind(body) == "Expr::Macro" and A.path_last(body["mac"]["path"]) == "matches":
                chars = [t["lit"]["value"] for t in body["mac"]["tokens"] if A.kind(t) == "Literal" and t["lit"].get("kind") == "char"]
                return ("oneof", "".join(chars))
            self.lost(fn.name, f"unknown character predicate closure `{txt}`")
        self.lost(fn.name, "unknown character predicate")

    def closure_value(self, fn, cl):
        """the value a `map` closure builds: ('label', 'A::B') | ('pass',) | ('none',) | ('tuple', [..]) | ('capture',)"""
        body = cl["body"]
        if A.kind(body) == "Expr::Tuple" and len(body["elems"]) == 2:
            v = body["elems"][1]
        else:
            v = body
        return self.value_expr(fn, v)

    def value_expr(self, fn, v):
        k = A.kind(v)
        if k == "Expr::Path":
            nm = A.path_str(v)
            if nm == "None":
                return ("none",)
            if "::" in nm or nm[0].isupper():
                return ("label", nm)
            return ("pass",)
        if k == "Expr::Call":
            f = A.path_str(v["func"])
            if f == "Some":
                return self.value_expr(fn, v["args"][0])
            if f and ("::" in f or f[0].isupper()):
                return ("label", f)
        if k == "Expr::Tuple":
            return ("tuple", [self.value_expr(fn, x) for x in v["elems"]])
        if k == "Expr::Reference" and A.kind(v["expr"]) == "Expr::Index":
            return ("capture",)
        self.lost(fn.name, f"map closure builds an unsupported value ({k})")

    def map_(self, fn, p, f):
        inner = self.parser(fn, p)
        f = A.peel(f) if A.kind(f) in ("Expr::Paren",) else f
        if A.kind(f) == "Expr::Closure":
            val = self.closure_value(fn, f)
            return N("map", p=inner, val=val)
        # map(P, <parser>) : the continuation is itself a parser applied to the rest
        return N("seq", items=[inner, self.parser(fn, f)], cont=True)

    def and_then(self, fn, p, f):
        inner = self.parser(fn, p)
        if A.kind(f) == "Expr::Closure":
            body = f["body"]
            # |(i, x)| PARSER(i)   (possibly wrapped in a block)
            if A.kind(body) == "Expr::Block" and len(body["block"]["stmts"]) == 1 and A.kind(body["block"]["stmts"][0]) == "Stmt::Expr":
                body = body["block"]["stmts"][0]["0"]
            if A.kind(body) == "Expr::Call" and len(body["args"]) == 1 and A.kind(body["args"][0]) == "Expr::Path":
                cont = self.parser(fn, body["func"])
                binds = A.pat_idents(f["inputs"][0])
                return N("bind", p=inner, cont=cont, var=binds[-1] if len(binds) > 1 else None)
            txt = A.render(body)
            if ".parse().ok()" in txt:
                return N("usize", p=inner)
            self.lost(fn.name, f"and_then closure not understood: {txt[:60]}")
        return N("seq", items=[inner, self.parser(fn, f)], cont=True)

    def map_or_else(self, fn, args):
        if len(args) != 3:
            self.lost(fn.name, "map_or_else arity")
        p = self.parser(fn, args[0])
        default = args[1]
        if A.kind(default) != "Expr::Closure":
            self.lost(fn.name, "map_or_else default is not a closure")
        dv = self.closure_value(fn, default) if A.kind(default["body"]) != "Expr::Call" else self.value_expr(fn, default["body"]["args"][0]["elems"][1]) if A.path_str(default["body"]["func"]) == "Some" else None
        f = args[2]
        if A.kind(f) == "Expr::Closure":
            fv = self.closure_value(fn, f)
            return N("opt", p=p, some=fv)
        # f is a parser: committed continuation  P Q  |  default
        return N("commit", p=p, q=self.parser(fn, f), default=dv)


# ---------------------------------------------------------------- interpreter


def xid_start(c):
    return c != "_" and c.isidentifier()


def xid_continue(c):
    return ("a" + c).isidentifier()


RUST_WS = set("\t\n\x0b\x0c\r \x85\xa0\u1680\u2028\u2029\u202f\u205f\u3000") | {chr(x) for x in range(0x2000, 0x200B)}


def rust_is_whitespace(c):
    """char::is_whitespace (Unicode White_Space)"""
    return c in RUST_WS


def test_pred(pred, c):
    k = pred[0]
    if k == "xid_start":
        return xid_start(c)
    if k == "xid_continue":
        return xid_continue(c)
    if k == "digit":
        return c in "0123456789"
    if k == "ws":
        return rust_is_whitespace(c)
    if k == "ascii_ws":
        return c in " \t\n\x0c\r"
    if k == "alpha":
        return c.isalpha()
    if k == "alnum":
        return c.isalnum()
    if k == "ascii_alpha":
        return c.isascii() and c.isalpha()
    if k == "ascii_alnum":
        return c.isascii() and c.isalnum()
    if k == "oneof":
        return c in pred[1]
    if k == "notin":
        return c not in pred[1]
    raise ValueError(pred)


class Interp:
    def __init__(self, rules):
        self.rules = rules

    def run(self, name, s):
        r = self.ev(self.rules[name], s, 0, {})
        return r

    def apply_val(self, val, inner, text):
        k = val[0]
        if k == "label":
            return (val[1], inner)
        if k == "none":
            return None
        if k == "pass":
            return inner
        if k == "capture":
            return text
        if k == "tuple":
            return tuple(self.apply_val(v, inner, text) for v in val[1])
        return inner

    def ev(self, n, s, i, env):
        """returns (new_pos, value) or None"""
        k = n.k
        if k == "lit":
            return (i + len(n.s), None) if s.startswith(n.s, i) else None
        if k == "cls":
            return (i + 1, s[i]) if i < len(s) and test_pred(n.pred, s[i]) else None
        if k in ("any", "anyv"):
            return (i + 1, s[i]) if i < len(s) else None
        if k == "eof":
            return (i, None) if i == len(s) else None
        if k == "wrap":
            # `<parser>(input.trim..())`: leading whitespace skipped first; with trim_end the rest loses its trailing
            # whitespace, i.e. a rest consisting of whitespace only becomes empty
            j = i
            for pre in n.pre:
                r = self.ev(pre, s, j, env)
                if r is None:
                    return None
                j = r[0]
            r = self.ev(n.p, s, j, env)
            if r is None:
                return None
            j, v = r
            if n.trim_end and all(rust_is_whitespace(c) for c in s[j:]):
                j = len(s)
            return (j, v)
        if k == "ref":
            return self.ev(self.rules[n.name], s, i, {})
        if k == "seq":
            vals = []
            j = i
            for it in n.items:
                r = self.ev(it, s, j, env)
                if r is None:
                    return None
                j, v = r
                vals.append(v)
            return (j, vals)
        if k == "alt":
            for it in n.items:
                r = self.ev(it, s, i, env)
                if r is not None:
                    return r
            return None
        if k == "opt":
            r = self.ev(n.p, s, i, env)
            if r is None:
                return (i, None)
            return r
        if k == "commit":
            r = self.ev(n.p, s, i, env)
            if r is None:
                return (i, None)
            return self.ev(n.q, s, r[0], env)
        if k == "and":
            r = self.ev(n.p, s, i, env)
            return (i, None) if r is not None else None
        if k == "not":
            r = self.ev(n.p, s, i, env)
            return (i, None) if r is None else None
        if k == "star":
            j = i
            vals = []
            while True:
                r = self.ev(n.p, s, j, env)
                if r is None or r[0] == j:
                    break
                j = r[0]
                vals.append(r[1])
            return (j, vals if getattr(n, "collect", False) else s[i:j])
        if k == "plus":
            r = self.ev(n.p, s, i, env)
            if r is None:
                return None
            j = r[0]
            while True:
                r = self.ev(n.p, s, j, env)
                if r is None or r[0] == j:
                    break
                j = r[0]
            return (j, s[i:j])
        if k == "map":
            r = self.ev(n.p, s, i, env)
            if r is None:
                return None
            return (r[0], self.apply_val(n.val, r[1], s[i : r[0]]))
        if k == "bind":
            r = self.ev(n.p, s, i, env)
            if r is None:
                return None
            r2 = self.ev(n.cont, s, r[0], env)
            if r2 is None:
                return None
            v2 = r2[1]
            # the continuation's closure carries the bound value along (`|(i, x)| map(.., |i| (i, x))(i)`)
            if v2 is None:
                return (r2[0], r[1])
            return (r2[0], ("bound", r[1], v2))
        if k == "usize":
            r = self.ev(n.p, s, i, env)
            if r is None:
                return None
            v = int(s[i : r[0]])
            return (r[0], v) if v <= MAX_USIZE else None
        if k == "fnseq":
            j = i
            loc = {}
            for var, p, req in n.steps:
                r = self.ev(p, s, j, env)
                if r is None:
                    return None
                j = r[0]
                if var:
                    loc[var] = r[1]
            return (j, (n.struct, {f: loc.get(v) for f, v in n.fields.items()}))
        raise ValueError(k)

    def _subst(self, v, bound):
        # ('pass' values inside tuples refer to the last binding)
        return v
