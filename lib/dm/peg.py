"""Engine G: extract a PEG from the combinator-style format-literal parser of impl/src/fmt/parsing.rs
and interpret it. The model is derived from the *source* on every run; nothing of the crate executes.

Extraction fails closed (AnchorLost) on any combinator use it does not understand.
"""
import re

from . import ast as A

MAX_USIZE = (1 << 64) - 1


class N:
    def __init__(self, k, **kw):
        self.k = k
        self.__dict__.update(kw)

    def __repr__(self):
        d = {k: v for k, v in self.__dict__.items() if k != "k"}
        return f"{self.k}({d})"


REQUIRED_FNS = ["format_string", "maybe_format", "format", "argument", "format_spec", "align", "sign", "precision", "type_", "count", "parameter", "identifier", "integer", "text"]
COMBINATORS = {"try_seq", "alt", "map", "map_or_else", "and_then", "lookahead", "optional_result", "take_while0", "take_while1", "take_until1", "str", "char", "check_char", "one_of", "any_char", "take_any_char"}
LEAF_FNS = {"any_char": "any", "take_any_char": "anyv"}


class Extractor:
    def __init__(self, files, rel="impl/src/fmt/parsing.rs"):
        if rel not in files:
            raise A.AnchorLost(rel, "file missing")
        self.f = files[rel]
        self.rel = rel
        self.fns = {fn.name: fn for fn in A.functions(self.f) if "::" not in fn.qual}
        self.rules = {}
        # every free function that is not a combinator is a grammar function (helpers may be added freely)
        # (a parser returns `Option<..>`; other free functions - slice helpers and the like - are read where they are called)
        def _is_parser(fn):
            off = fn.node["sig"]["ident"]["span"][0]
            header = self.f.src[off : off + 600].split("{")[0]
            return re.search(r"\)\s*->\s*Option<", header) is not None

        self.grammar_fns = [n for n in self.fns if n not in COMBINATORS and _is_parser(self.fns[n])]
        self.struct_fields = {}
        for it, mods, cfgs in A.iter_items(self.f.ast["items"]):
            if A.kind(it) == "Item::Struct":
                flds = it["fields"]
                if A.kind(flds) == "Fields::Named":
                    self.struct_fields[it["ident"]["sym"]] = [x["ident"]["sym"] for x in flds["0"]["named"]] if "0" in flds else [x["ident"]["sym"] for x in flds["named"]]

    def lost(self, what, why):
        raise A.AnchorLost(f"{self.rel}::{what}", why)

    def extract_all(self):
        for name in REQUIRED_FNS:
            if name not in self.fns:
                self.lost(name, "grammar function not found")
        for name in self.grammar_fns:
            self.rules[name] = self.fn_body(self.fns[name])
        return self.rules

    # ---- function bodies
    def input_arg(self, fn, a, cur="input"):
        """`input` | `input.trim_start()` | `input.trim_end()` | `input.trim()` -> (skip leading ws?, drop trailing ws?) or None"""
        if A.path_str(a) == cur:
            return (False, False)
        if A.kind(a) == "Expr::MethodCall" and not a["args"] and A.path_str(a["receiver"]) == cur:
            m = a["method"]["sym"]
            if m == "trim_start":
                return (True, False)
            if m == "trim_end":
                return (False, True)
            if m == "trim":
                return (True, True)
        return None

    def wrap(self, p, how):
        if how == (False, False):
            return p
        ws = N("star", p=N("cls", pred=("ws",)), collect=False)
        return N("wrap", pre=[ws] if how[0] else [], p=p, trim_end=how[1])

    def fn_body(self, fn):
        if fn.name == "format_string":
            return self.format_string(fn)
        self.local = {}
        self.subst = {}
        self.consts = {}
        for it, mods, cfgs in A.iter_items(self.f.ast["items"]):
            if A.kind(it) in ("Item::Const", "Item::Static"):
                self.consts[it["ident"]["sym"]] = it["expr"]
        cur = "input"
        for a in fn.sig["inputs"]:
            try:
                cur = A.pat_idents(a["0"]["pat"])[0]
            except Exception:
                pass
        self.inp0 = cur
        return self.block_parser(fn, fn.block["stmts"], cur, {cur: 0})

    def applied(self, fn, e, pos):
        """`<parser>(<cursor>)` -> (parser node, cursor var) or None; the cursor may be `cur.trim_start()` etc."""
        if A.kind(e) != "Expr::Call" or len(e["args"]) != 1:
            return None
        a = e["args"][0]
        base = a["receiver"] if A.kind(a) == "Expr::MethodCall" and not a["args"] and a["method"]["sym"] in ("trim", "trim_start", "trim_end") else a
        v = A.path_str(base)
        if v is None or v not in pos:
            return None
        how = self.input_arg(fn, a, v)
        if how is None:
            return None
        return self.wrap(self.parser(fn, e["func"]), how), v

    def is_parser_value(self, fn, e):
        """a combinator call that builds a parser without applying it: `map(..)`, `alt(..)`, `check_char(..)` .."""
        e = A.peel(e)
        return A.kind(e) == "Expr::Call" and A.path_str(e["func"]) in COMBINATORS

    def block_parser(self, fn, stmts, cur, pos):
        """a statement list that threads a cursor through parsing steps and ends in the function's result.
        `pos` maps each variable holding a rest-of-input to the number of steps taken when it was bound; a step must
        start from the latest one (`cur`)."""
        steps = []
        lens = {}  # local = A.len() - B.len()
        pos = dict(pos)
        for st in stmts:
            k = A.kind(st)
            last = st is stmts[-1]
            if k == "Stmt::Local":
                if st.get("init") is None or st["init"].get("diverge") is not None:
                    self.lost(fn.name, "let without initialiser / let-else in a grammar function")
                names = A.pat_idents(st["pat"])
                init = st["init"]["expr"]
                req = False
                if A.kind(init) == "Expr::Try":
                    req = True
                    init = init["expr"]
                # a named sub-parser
                if not req and len(names) == 1 and self.is_parser_value(fn, init):
                    self.local[names[0]] = self.parser(fn, init)
                    continue
                # `let input = input.trim_start();`
                if not req and len(names) == 1 and self.input_arg(fn, init, cur) not in (None, (False, False)):
                    steps.append((None, self.wrap(N("seq", items=[]), self.input_arg(fn, init, cur)), False))
                    pos[names[0]] = len(steps)
                    cur = names[0]
                    continue
                # `let n = start.len() - rest.len();`
                ln = self.len_diff(init)
                if not req and len(names) == 1 and ln is not None:
                    lens[names[0]] = ln
                    continue
                ap = self.applied(fn, init, pos)
                if ap is None:
                    self.lost(fn.name, "let initialiser is not `<parser>(input)`")
                p, frm = ap
                if frm != cur:
                    self.lost(fn.name, f"a parsing step starts from `{frm}`, not from the latest rest `{cur}`")
                pat = st["pat"]
                if A.kind(pat) == "Pat::Type":
                    pat = pat["pat"]
                if A.kind(pat) == "Pat::Tuple" and len(pat["elems"]) == 2:
                    c = A.pat_idents(pat["elems"][0])
                    v = A.pat_idents(pat["elems"][1])
                    if len(c) != 1:
                        self.lost(fn.name, "a parsing step does not bind the rest of the input")
                    steps.append((v[0] if v else None, p, req))
                    cur = c[0]
                elif len(names) == 1:
                    steps.append((None, p, req))
                    cur = names[0]
                else:
                    self.lost(fn.name, "a parsing step does not bind the rest of the input")
                pos[cur] = len(steps)
            elif k == "Stmt::Item":
                it = st.get("0", st)
                if A.kind(it) in ("Item::Const", "Item::Static"):
                    self.consts[it["ident"]["sym"]] = it["expr"]
                    continue
                self.lost(fn.name, "item inside a grammar function")
            elif k == "Stmt::Expr":
                if not last:
                    self.lost(fn.name, "expression statement before the tail")
                return self.tail(fn, st["0"], steps, cur, pos, lens)
            else:
                self.lost(fn.name, f"unexpected statement {k}")
        self.lost(fn.name, "no result expression")

    def len_diff(self, e):
        e = A.peel(e)
        if A.kind(e) == "Expr::Binary" and A.kind(e["op"]) == "BinOp::Sub":
            sides = []
            for x in (e["left"], e["right"]):
                x = A.peel(x)
                if A.kind(x) == "Expr::MethodCall" and x["method"]["sym"] == "len" and not x["args"] and A.path_str(x["receiver"]):
                    sides.append(A.path_str(x["receiver"]))
            if len(sides) == 2:
                return tuple(sides)
        return None

    def tail(self, fn, e, steps, cur, pos, lens):
        e = A.peel(e)
        k = A.kind(e)
        if k == "Expr::Block" and e.get("label") is None:
            return self.seq_of(steps, self.block_parser(fn, e["block"]["stmts"], cur, pos))
        # Some((rest, VALUE))
        if k == "Expr::Call" and A.path_str(e["func"]) == "Some" and A.kind(e["args"][0]) == "Expr::Tuple" and len(e["args"][0]["elems"]) == 2:
            rest, val = e["args"][0]["elems"]
            if A.path_str(rest) != cur:
                self.lost(fn.name, f"the result does not return the latest rest `{cur}`")
            while A.kind(val) in ("Expr::Paren", "Expr::Group"):
                val = val["expr"]
            if A.kind(val) == "Expr::Struct":
                fields = {}
                for fv in val["fields"]:
                    fields[fv["member"]["0"]["sym"]] = A.path_str(fv["expr"])
                return N("fnseq", steps=steps, struct=A.path_last(val["path"]), fields=fields)
            if A.kind(val) == "Expr::Reference" and A.kind(val["expr"]) == "Expr::Index":
                ix = val["expr"]
                rng = A.peel(ix["index"])
                base = A.path_str(ix["expr"])
                if A.kind(rng) == "Expr::Range" and rng.get("start") is None and rng.get("end") is not None:
                    end = A.peel(rng["end"])
                    ld = lens.get(A.path_str(end)) if A.path_str(end) else self.len_diff(end)
                    if ld is not None and ld[0] == base and pos.get(base) == 0 and ld[1] == cur:
                        return N("fnseq", steps=steps, struct=None, fields={}, ret=("capture",))
                self.lost(fn.name, "captured slice is not `&input[..input.len() - rest.len()]`")
            return N("fnseq", steps=steps, struct=None, fields={}, ret=self.ret_value(fn, val, [v for v, _, _ in steps if v]))
        # <parser>(rest)
        ap = self.applied(fn, e, pos)
        if ap is not None:
            p, frm = ap
            if frm != cur:
                self.lost(fn.name, f"the final parser starts from `{frm}`, not from the latest rest `{cur}`")
            return self.seq_of(steps, p)
        # TABLE.iter().find_map(|(a, b)| <parser using a, b>(rest)) [.or_else(|| <parser>(rest))]: an ordered choice with
        # one alternative per row of a constant table
        alts = self.table_alts(fn, e, cur, pos)
        if alts is not None:
            return self.seq_of(steps, N("alt", items=alts))
        # match <parser>(rest) { Some(x) => .., None => Some((rest, DEFAULT)) }   (also if-let/else)
        e2 = A.norm_ast(e) if k == "Expr::If" else e
        if A.kind(e2) == "Expr::Match":
            ap = self.applied(fn, e2["expr"], pos)
            if ap is not None and ap[1] == cur and len(e2["arms"]) == 2:
                some = [a for a in e2["arms"] if A.render_pat(a["pat"]).startswith("Some")]
                none = [a for a in e2["arms"] if A.render_pat(a["pat"]) in ("None", "_")]
                if len(some) == 1 and len(none) == 1 and some[0].get("guard") is None and none[0].get("guard") is None:
                    names = A.pat_idents(some[0]["pat"])
                    if not names:
                        self.lost(fn.name, "the Some arm does not bind the rest")
                    sub_cur = names[0]
                    pos2 = dict(pos)
                    pos2[sub_cur] = len(steps) + 1
                    body = some[0]["body"]
                    body_stmts = body["block"]["stmts"] if A.kind(body) == "Expr::Block" else [{"_": "Stmt::Expr", "0": body}]
                    q = self.block_parser(fn, body_stmts, sub_cur, pos2)
                    if len(names) > 1:
                        self.lost(fn.name, "committed continuation uses the value of the condition parser")
                    d = A.peel(none[0]["body"])
                    if A.kind(d) == "Expr::Block" and len(d["block"]["stmts"]) == 1 and A.kind(d["block"]["stmts"][0]) == "Stmt::Expr":
                        d = A.peel(d["block"]["stmts"][0]["0"])
                    if not (A.kind(d) == "Expr::Call" and A.path_str(d["func"]) == "Some" and A.kind(d["args"][0]) == "Expr::Tuple" and A.path_str(d["args"][0]["elems"][0]) == cur):
                        self.lost(fn.name, "the None arm does not return the untouched input")
                    dv = self.value_expr(fn, d["args"][0]["elems"][1])
                    return self.seq_of(steps, N("commit", p=ap[0], q=q, default=dv))
        self.lost(fn.name, "unexpected tail expression")

    def table_alts(self, fn, e, cur, pos):
        e = A.peel(e)
        if A.kind(e) != "Expr::MethodCall":
            return None
        m = e["method"]["sym"]
        if m in ("or_else", "or") and len(e["args"]) == 1:
            first = self.table_alts(fn, e["receiver"], cur, pos)
            if first is None:
                ap = self.applied(fn, A.peel(e["receiver"]), pos)
                if ap is None or ap[1] != cur:
                    return None
                first = [ap[0]]
            a = e["args"][0]
            if A.kind(a) == "Expr::Closure":
                if a["inputs"]:
                    return None
                a = a["body"]
                if A.kind(a) == "Expr::Block" and len(a["block"]["stmts"]) == 1 and A.kind(a["block"]["stmts"][0]) == "Stmt::Expr":
                    a = a["block"]["stmts"][0]["0"]
            ap = self.applied(fn, A.peel(a), pos)
            if ap is None or ap[1] != cur:
                return None
            return first + [ap[0]]
        if m == "find_map" and len(e["args"]) == 1 and A.kind(e["args"][0]) == "Expr::Closure":
            recv = A.peel(e["receiver"])
            # TABLE.iter() / TABLE.into_iter() / TABLE
            if A.kind(recv) == "Expr::MethodCall" and recv["method"]["sym"] in ("iter", "into_iter", "copied", "cloned"):
                while A.kind(recv) == "Expr::MethodCall" and recv["method"]["sym"] in ("iter", "into_iter", "copied", "cloned"):
                    recv = A.peel(recv["receiver"])
            name = A.path_str(recv)
            table = self.consts.get(name) if name else (recv if A.kind(recv) == "Expr::Array" else None)
            table = A.peel(table) if table is not None else None
            if table is None or A.kind(table) != "Expr::Array":
                return None
            cl = e["args"][0]
            params = cl["inputs"][0] if len(cl["inputs"]) == 1 else None
            if params is None:
                return None
            while A.kind(params) in ("Pat::Reference", "Pat::Paren", "Pat::Type"):
                params = params["pat"]
            body = cl["body"]
            if A.kind(body) == "Expr::Block" and len(body["block"]["stmts"]) == 1 and A.kind(body["block"]["stmts"][0]) == "Stmt::Expr":
                body = body["block"]["stmts"][0]["0"]
            out = []
            for row in table["elems"]:
                row = A.peel(row)
                binds = {}
                if A.kind(params) == "Pat::Tuple" and A.kind(row) == "Expr::Tuple" and len(params["elems"]) == len(row["elems"]):
                    for pp, rv in zip(params["elems"], row["elems"]):
                        ids = A.pat_idents(pp)
                        if len(ids) == 1:
                            binds[ids[0]] = rv
                elif A.kind(params) == "Pat::Ident":
                    binds[params["ident"]["sym"]] = row
                else:
                    return None
                saved = self.subst
                self.subst = dict(saved, **binds)
                try:
                    ap = self.applied(fn, A.peel(body), pos)
                finally:
                    self.subst = saved
                if ap is None or ap[1] != cur:
                    return None
                out.append(ap[0])
            return out
        return None

    def resolve(self, e):
        """a name bound to a table cell: the expression it stands for (anything else is returned unchanged)"""
        x = e
        for _ in range(4):
            y = x
            while A.kind(y) in ("Expr::Paren", "Expr::Group", "Expr::Reference") or (A.kind(y) == "Expr::Unary" and A.kind(y["op"]) == "UnOp::Deref"):
                y = y["expr"]
            nm = A.path_str(y) if A.kind(y) == "Expr::Path" else None
            if nm and nm in getattr(self, "subst", {}):
                x = self.subst[nm]
                continue
            break
        return x

    def seq_of(self, steps, final):
        if not steps:
            return final
        if any(v for v, _, _ in steps):
            # values of earlier steps are not part of the result of a plain sequence
            pass
        return N("seq", items=[p for _, p, _ in steps] + [final], last_value=True)

    def ret_value(self, fn, v, vars_):
        k = A.kind(v)
        if k == "Expr::Path":
            nm = A.path_str(v)
            if nm == "None":
                return ("none",)
            if nm in vars_:
                return ("var", nm)
            if "::" in nm or nm[0].isupper():
                return ("label", nm)
        if k == "Expr::Call" and A.path_str(v["func"]) == "Some":
            return self.ret_value(fn, v["args"][0], vars_)
        if k == "Expr::Tuple":
            return ("tuple", [self.ret_value(fn, x, vars_) for x in v["elems"]])
        self.lost(fn.name, f"result value not understood ({k})")

    def format_string(self, fn):
        """text? (maybe_format | text)* EOF: a first step, a loop that applies one parser until it fails and advances
        the cursor on every success, and a final emptiness test"""
        self.local = {}
        stmts = fn.block["stmts"]
        st0 = stmts[0] if stmts else None
        if A.kind(st0) != "Stmt::Local" or st0.get("init") is None:
            self.lost("format_string", "first statement")
        init0 = st0["init"]["expr"]
        if A.kind(init0) != "Expr::Call" or len(init0["args"]) != 1:
            self.lost("format_string", "first statement is not `<parser>(input)`")
        p0 = self.parser(fn, init0["func"])
        cur = A.pat_idents(st0["pat"])[0]
        rest = {"_": "Block", "stmts": stmts[1:]}
        for st in stmts[1:]:
            if A.kind(st) == "Stmt::Local" and st.get("init") is not None and len(A.pat_idents(st["pat"])) == 1 and self.is_parser_value(fn, st["init"]["expr"]):
                self.local[A.pat_idents(st["pat"])[0]] = self.parser(fn, st["init"]["expr"])
        # the applied loop parser: `<parser>(cursor)`
        applied = []
        for c, ps in A.find(rest, "Expr::Call"):
            if len(c["args"]) == 1 and (self.is_parser_value(fn, c["func"]) or A.path_str(c["func"]) in self.local):
                applied.append((c, ps))
        if len(applied) != 1:
            self.lost("format_string", f"expected one applied parser in the loop, found {len(applied)}")
        call, ps = applied[0]
        alts = self.parser(fn, call["func"])
        mcs = [m["method"]["sym"] for m, _ in A.method_calls(rest)]
        assigns = [x for x, _ in A.walk(rest) if A.kind(x) == "Expr::Assign"]
        form = None
        parent = ps[-1] if ps else None
        if "scan" in mcs:
            # iter::repeat(()).scan(&mut input, |input, _| { let (curr, f) = P(input)?; **input = curr; Some(f) })
            if A.kind(parent) == "Expr::Try" and assigns:
                form = "scan"
        elif any(A.kind(x) == "Expr::Call" and (A.path_str(x["func"]) or "").split("::")[-1] == "from_fn" for x in ps):
            # iter::from_fn(|| { let (curr, f) = P(input)?; input = curr; Some(f) })
            if A.kind(parent) == "Expr::Try" and A.path_str(call["args"][0]) == cur:
                cl = [x for x in ps if A.kind(x) == "Expr::Closure"]
                nxts = []
                for st in (cl[-1]["body"]["block"]["stmts"] if cl and A.kind(cl[-1]["body"]) == "Expr::Block" else []):
                    if A.kind(st) == "Stmt::Local" and st.get("init") is not None and any(x is call for x, _ in A.walk(st["init"]["expr"])):
                        nxts = A.pat_idents(st["pat"])
                if nxts and any(A.path_str(a["left"]) == cur and A.path_str(a["right"]) == nxts[0] for a in assigns):
                    form = "from_fn"
        elif any(A.kind(x) == "Expr::While" for x in ps):
            w = [x for x in ps if A.kind(x) == "Expr::While"][-1]
            cond = w["cond"]
            if A.kind(cond) == "Expr::Let" and cond["expr"] is call and A.render_pat(cond["pat"]).startswith("Some"):
                nxt = A.pat_idents(cond["pat"])[0]
                ok = any(A.path_str(a["left"]) == cur and A.path_str(a["right"]) == nxt for a in assigns)
                exits = [x for x, _ in A.walk(w["body"]) if A.kind(x) in ("Expr::Break", "Expr::Continue", "Expr::Return", "Expr::Try")]
                if ok and not exits and A.path_str(call["args"][0]) == cur:
                    form = "while-let"
        elif any(A.kind(x) == "Expr::Loop" for x in ps):
            lp = [x for x in ps if A.kind(x) == "Expr::Loop"][-1]
            breaks = [(x, xp) for x, xp in A.walk(lp["body"]) if A.kind(x) in ("Expr::Break", "Expr::Continue", "Expr::Return", "Expr::Try")]
            nxt = None
            if len(breaks) == 1 and A.kind(breaks[0][0]) == "Expr::Break":
                bps = breaks[0][1]
                # let Some((curr, f)) = P(input) else { break };
                if A.kind(parent) in ("LocalInit", None) or True:
                    for st in lp["body"]["stmts"]:
                        if A.kind(st) == "Stmt::Local" and st.get("init") is not None and st["init"]["expr"] is call and st["init"].get("diverge") is not None and A.render_pat(st["pat"]).startswith("Some"):
                            if any(x is breaks[0][0] for x, _ in A.walk(st["init"]["diverge"])):
                                nxt = A.pat_idents(st["pat"])[0]
                        if A.kind(st) == "Stmt::Expr" and A.kind(st["0"]) == "Expr::Match" and st["0"]["expr"] is call:
                            for arm in st["0"]["arms"]:
                                if A.render_pat(arm["pat"]) in ("None", "_") and any(x is breaks[0][0] for x, _ in A.walk(arm["body"])):
                                    some = [a for a in st["0"]["arms"] if A.render_pat(a["pat"]).startswith("Some")]
                                    if len(some) == 1 and len(st["0"]["arms"]) == 2:
                                        nxt = A.pat_idents(some[0]["pat"])[0]
            if nxt and any(A.path_str(a["left"]) == cur and A.path_str(a["right"]) == nxt for a in assigns) and A.path_str(call["args"][0]) == cur:
                form = "loop"
        if form is None:
            self.lost("format_string", "loop that repeats the parser until it fails and advances the input not recognised")
        # final `input.is_empty()` decides success
        empt = [m for m, _ in A.method_calls(rest, "is_empty") if A.path_str(m["receiver"]) == cur]
        last = stmts[-1]
        ok_final = False
        if empt and A.kind(last) == "Stmt::Expr":
            e = A.peel(last["0"])
            if A.kind(e) == "Expr::MethodCall" and e["method"]["sym"] in ("then_some", "then") and e["receiver"] is empt[-1]:
                ok_final = True
            if A.kind(e) == "Expr::If" and A.peel(e["cond"]) is empt[-1] and e.get("else_branch") is not None:
                tb = A.render(e["then_branch"]) if "then_branch" in e else ""
                eb = A.render(e["else_branch"])
                ok_final = "Some" in tb and "None" in eb and "Some" not in eb
        if not ok_final:
            self.lost("format_string", "the final `input.is_empty()` test does not decide the result")
        return N("seq", items=[p0, N("star", p=alts, collect=True), N("eof")], name="format_string", form=form)

    # ---- parser expressions
    def parser(self, fn, e):
        k = A.kind(e)
        if k in ("Expr::Reference", "Expr::Paren", "Expr::Group"):
            return self.parser(fn, e["expr"])
        if k == "Expr::Path":
            nm = A.path_str(e)
            if nm in getattr(self, "local", {}):
                return self.local[nm]
            if nm in self.grammar_fns:
                return N("ref", name=nm)
            if nm in LEAF_FNS:
                return N(LEAF_FNS[nm])
            self.lost(fn.name, f"unknown parser name `{nm}`")
        if k == "Expr::Call":
            f = A.path_str(e["func"])
            args = e["args"]
            if f == "char":
                return N("lit", s=self.char_lit(fn, args[0]))
            if f == "str":
                return N("lit", s=self.str_lit(fn, args[0]))
            if f == "one_of":
                return N("cls", pred=("oneof", self.str_lit(fn, args[0])))
            if f == "check_char":
                return N("cls", pred=self.pred(fn, args[0]))
            if f == "alt":
                return N("alt", items=[self.parser(fn, x) for x in self.slice_items(fn, args[0])])
            if f == "try_seq":
                return N("seq", items=[self.parser(fn, x) for x in self.slice_items(fn, args[0])])
            if f == "optional_result":
                return N("opt", p=self.parser(fn, args[0]))
            if f == "lookahead":
                return N("and", p=self.parser(fn, args[0]))
            if f == "take_while0":
                return N("star", p=self.parser(fn, args[0]), collect=False)
            if f == "take_while1":
                return N("plus", p=self.parser(fn, args[0]))
            if f == "take_until1":
                return N("plus", p=N("seq", items=[N("not", p=self.parser(fn, args[1])), self.parser(fn, args[0])]))
            if f == "map":
                return self.map_(fn, args[0], args[1])
            if f == "and_then":
                return self.and_then(fn, args[0], args[1])
            if f == "map_or_else":
                return self.map_or_else(fn, args)
            self.lost(fn.name, f"unknown combinator `{f}`")
        self.lost(fn.name, f"unsupported parser expression {k}")

    def slice_items(self, fn, e):
        e = A.peel(e)
        if A.kind(e) != "Expr::Array":
            self.lost(fn.name, "combinator argument is not an array literal")
        return e["elems"]

    def char_lit(self, fn, e):
        e = self.resolve(e)
        if A.kind(e) == "Expr::Lit" and A.kind(e["lit"]) == "Lit::Char":
            return e["lit"]["token"]["value"]
        self.lost(fn.name, "char(..) argument is not a literal")

    def str_lit(self, fn, e):
        e = self.resolve(e)
        if A.kind(e) == "Expr::Lit" and A.kind(e["lit"]) == "Lit::Str":
            return e["lit"]["token"]["value"]
        self.lost(fn.name, "str(..) argument is not a literal")

    def pred(self, fn, e):
        if A.kind(e) == "Expr::Path":
            nm = A.path_str(e)
            if nm.endswith("is_xid_start"):
                return ("xid_start",)
            if nm.endswith("is_xid_continue"):
                return ("xid_continue",)
            if nm.endswith("is_ascii_whitespace"):
                return ("ascii_ws",)
            if nm.endswith("is_whitespace"):
                return ("ws",)
            if nm.endswith("is_ascii_digit"):
                return ("digit",)
            self.lost(fn.name, f"unknown character predicate `{nm}`")
        if A.kind(e) == "Expr::Closure":
            body = e["body"]
            txt = A.render(body)
            c = A.pat_idents(e["inputs"][0])[0]
            if txt == f"{c}.is_ascii_digit()":
                return ("digit",)
            if txt == f"{c}.is_whitespace()":
                return ("ws",)
            if txt == f"{c}.is_ascii_whitespace()":
                return ("ascii_ws",)
            if txt == f"{c}.is_alphabetic()":
                return ("alpha",)
            if txt == f"{c}.is_alphanumeric()":
                return ("alnum",)
            if txt == f"{c}.is_ascii_alphabetic()":
                return ("ascii_alpha",)
            if txt == f"{c}.is_ascii_alphanumeric()":
                return ("ascii_alnum",)
            # c != 'x' [&& c != 'y']   /   c == 'x' [|| c == 'y']
            def cmp_chars(b_, op_, join_):
                b_ = A.peel(b_)
                if A.kind(b_) == "Expr::Binary" and A.kind(b_["op"]) == join_:
                    l_, r_ = cmp_chars(b_["left"], op_, join_), cmp_chars(b_["right"], op_, join_)
                    return l_ + r_ if l_ is not None and r_ is not None else None
                if A.kind(b_) == "Expr::Binary" and A.kind(b_["op"]) == op_:
                    for x_, y_ in ((b_["left"], b_["right"]), (b_["right"], b_["left"])):
                        x_, y_ = A.peel(x_), A.peel(y_)
                        while A.kind(x_) == "Expr::Unary" and A.kind(x_["op"]) == "UnOp::Deref":
                            x_ = A.peel(x_["expr"])
                        if A.path_str(x_) == c and A.kind(y_) == "Expr::Lit" and A.kind(y_["lit"]) == "Lit::Char":
                            return [y_["lit"]["token"]["value"]]
                return None

            ne = cmp_chars(body, "BinOp::Ne", "BinOp::And")
            if ne:
                return ("notin", "".join(ne))
            eq = cmp_chars(body, "BinOp::Eq", "BinOp::Or")
            if eq:
                return ("digit",) if set(eq) == set("0123456789") else ("oneof", "".join(eq))
            # !matches!(c, 'x' | 'y')
            if A.kind(body) == "Expr::Unary" and A.kind(body["op"]) == "UnOp::Not" and A.kind(body["expr"]) == "Expr::Macro" and A.path_last(body["expr"]["mac"]["path"]) == "matches":
                chars = self.matches_chars(fn, body["expr"]["mac"]["tokens"])
                return ("notin", chars)
            if A.kind(body) == "Expr::Macro" and A.path_last(body["mac"]["path"]) == "matches":
                chars = self.matches_chars(fn, body["mac"]["tokens"])
                return ("digit",) if set(chars) == set("0123456789") else ("oneof", chars)
            self.lost(fn.name, f"unknown character predicate closure `{txt}`")
        self.lost(fn.name, "unknown character predicate")

    def matches_chars(self, fn, toks):
        """the characters `matches!(c, 'a' | 'x'..='z')` accepts (char literals and inclusive ranges of them)"""
        # skip the scrutinee up to the first top-level comma
        i = 0
        while i < len(toks) and not (A.kind(toks[i]) == "Punct" and A.punct_char(toks[i]) == ","):
            i += 1
        pat = toks[i + 1 :]
        out = []
        j = 0
        while j < len(pat):
            t = pat[j]
            if A.kind(t) == "Literal" and isinstance(t.get("lit"), dict) and t["lit"].get("kind") == "char":
                lo = t["lit"]["value"]
                # 'a' ..= 'z'
                if j + 4 < len(pat) + 1 and [A.punct_char(x) if A.kind(x) == "Punct" else None for x in pat[j + 1 : j + 4]] == [".", ".", "="] and j + 4 < len(pat) and A.kind(pat[j + 4]) == "Literal":
                    hi = pat[j + 4]["lit"]["value"]
                    if ord(hi) - ord(lo) > 512:
                        self.lost(fn.name, "character range too wide")
                    out += [chr(c) for c in range(ord(lo), ord(hi) + 1)]
                    j += 5
                    continue
                out.append(lo)
                j += 1
            elif A.kind(t) == "Punct" and A.punct_char(t) in ("|", ","):
                j += 1
            else:
                self.lost(fn.name, "character pattern in matches! not understood")
        return "".join(out)

    def closure_value(self, fn, cl):
        """the value a `map` closure builds: ('label', 'A::B') | ('pass',) | ('none',) | ('tuple', [..]) | ('capture',)"""
        body = cl["body"]
        if A.kind(body) == "Expr::Tuple" and len(body["elems"]) == 2:
            v = body["elems"][1]
        else:
            v = body
        return self.value_expr(fn, v)

    def value_expr(self, fn, v):
        v = self.resolve(v)
        while A.kind(v) == "Expr::Unary" and A.kind(v["op"]) == "UnOp::Deref":
            v = self.resolve(v["expr"])
        k = A.kind(v)
        if k == "Expr::Path":
            nm = A.path_str(v)
            if nm == "None":
                return ("none",)
            if "::" in nm or nm[0].isupper():
                return ("label", nm)
            return ("pass",)
        if k == "Expr::Call":
            f = A.path_str(v["func"])
            if f == "Some":
                return self.value_expr(fn, v["args"][0])
            if f and ("::" in f or f[0].isupper()):
                return ("label", f)
            # a same-file helper whose whole body is the consumed-prefix slice `&a[..(a.len() - b.len())]`
            h = self.fns.get(f) if f else None
            if h is not None and h.block is not None and len(h.block["stmts"]) == 1:
                st = h.block["stmts"][0]
                e = st.get("0") if A.kind(st) == "Stmt::Expr" else None
                if e is not None and A.kind(e) == "Expr::Reference" and A.kind(e["expr"]) == "Expr::Index":
                    return ("capture",)
        if k == "Expr::Tuple":
            return ("tuple", [self.value_expr(fn, x) for x in v["elems"]])
        if k == "Expr::Reference" and A.kind(v["expr"]) == "Expr::Index":
            return ("capture",)
        self.lost(fn.name, f"map closure builds an unsupported value ({k})")

    def map_(self, fn, p, f):
        inner = self.parser(fn, p)
        f = A.peel(f) if A.kind(f) in ("Expr::Paren",) else f
        if A.kind(f) == "Expr::Closure":
            val = self.closure_value(fn, f)
            return N("map", p=inner, val=val)
        # map(P, <parser>) : the continuation is itself a parser applied to the rest
        return N("seq", items=[inner, self.parser(fn, f)], cont=True)

    def and_then(self, fn, p, f):
        inner = self.parser(fn, p)
        if A.kind(f) == "Expr::Closure":
            body = f["body"]
            # |(i, x)| PARSER(i)   (possibly wrapped in a block)
            if A.kind(body) == "Expr::Block" and len(body["block"]["stmts"]) == 1 and A.kind(body["block"]["stmts"][0]) == "Stmt::Expr":
                body = body["block"]["stmts"][0]["0"]
            if A.kind(body) == "Expr::Call" and len(body["args"]) == 1 and A.kind(body["args"][0]) == "Expr::Path":
                cont = self.parser(fn, body["func"])
                binds = A.pat_idents(f["inputs"][0])
                return N("bind", p=inner, cont=cont, var=binds[-1] if len(binds) > 1 else None)
            txt = A.render(body)
            if ".parse().ok()" in txt:
                return N("usize", p=inner)
            self.lost(fn.name, f"and_then closure not understood: {txt[:60]}")
        return N("seq", items=[inner, self.parser(fn, f)], cont=True)

    def map_or_else(self, fn, args):
        if len(args) != 3:
            self.lost(fn.name, "map_or_else arity")
        p = self.parser(fn, args[0])
        default = args[1]
        if A.kind(default) != "Expr::Closure":
            self.lost(fn.name, "map_or_else default is not a closure")
        dv = self.closure_value(fn, default) if A.kind(default["body"]) != "Expr::Call" else self.value_expr(fn, default["body"]["args"][0]["elems"][1]) if A.path_str(default["body"]["func"]) == "Some" else None
        f = args[2]
        if A.kind(f) == "Expr::Closure":
            fv = self.closure_value(fn, f)
            return N("opt", p=p, some=fv)
        # f is a parser: committed continuation  P Q  |  default
        return N("commit", p=p, q=self.parser(fn, f), default=dv)


# ---------------------------------------------------------------- interpreter


def xid_start(c):
    return c != "_" and c.isidentifier()


def xid_continue(c):
    return ("a" + c).isidentifier()


RUST_WS = set("\t\n\x0b\x0c\r \x85\xa0\u1680\u2028\u2029\u202f\u205f\u3000") | {chr(x) for x in range(0x2000, 0x200B)}


def rust_is_whitespace(c):
    """char::is_whitespace (Unicode White_Space)"""
    return c in RUST_WS


def test_pred(pred, c):
    k = pred[0]
    if k == "xid_start":
        return xid_start(c)
    if k == "xid_continue":
        return xid_continue(c)
    if k == "digit":
        return c in "0123456789"
    if k == "ws":
        return rust_is_whitespace(c)
    if k == "ascii_ws":
        return c in " \t\n\x0c\r"
    if k == "alpha":
        return c.isalpha()
    if k == "alnum":
        return c.isalnum()
    if k == "ascii_alpha":
        return c.isascii() and c.isalpha()
    if k == "ascii_alnum":
        return c.isascii() and c.isalnum()
    if k == "oneof":
        return c in pred[1]
    if k == "notin":
        return c not in pred[1]
    raise ValueError(pred)


class Interp:
    def __init__(self, rules):
        self.rules = rules

    def run(self, name, s):
        r = self.ev(self.rules[name], s, 0, {})
        return r

    def apply_val(self, val, inner, text):
        k = val[0]
        if k == "label":
            return (val[1], inner)
        if k == "none":
            return None
        if k == "pass":
            return inner
        if k == "capture":
            return text
        if k == "tuple":
            return tuple(self.apply_val(v, inner, text) for v in val[1])
        return inner

    def ev(self, n, s, i, env):
        """returns (new_pos, value) or None"""
        k = n.k
        if k == "lit":
            return (i + len(n.s), None) if s.startswith(n.s, i) else None
        if k == "cls":
            return (i + 1, s[i]) if i < len(s) and test_pred(n.pred, s[i]) else None
        if k in ("any", "anyv"):
            return (i + 1, s[i]) if i < len(s) else None
        if k == "eof":
            return (i, None) if i == len(s) else None
        if k == "wrap":
            # `<parser>(input.trim..())`: leading whitespace skipped first; with trim_end the rest loses its trailing
            # whitespace, i.e. a rest consisting of whitespace only becomes empty
            j = i
            for pre in n.pre:
                r = self.ev(pre, s, j, env)
                if r is None:
                    return None
                j = r[0]
            r = self.ev(n.p, s, j, env)
            if r is None:
                return None
            j, v = r
            if n.trim_end and all(rust_is_whitespace(c) for c in s[j:]):
                j = len(s)
            return (j, v)
        if k == "ref":
            return self.ev(self.rules[n.name], s, i, {})
        if k == "seq":
            vals = []
            j = i
            for it in n.items:
                r = self.ev(it, s, j, env)
                if r is None:
                    return None
                j, v = r
                vals.append(v)
            if getattr(n, "last_value", False):
                return (j, vals[-1])
            return (j, vals)
        if k == "alt":
            for it in n.items:
                r = self.ev(it, s, i, env)
                if r is not None:
                    return r
            return None
        if k == "opt":
            r = self.ev(n.p, s, i, env)
            if r is None:
                return (i, None)
            return r
        if k == "commit":
            r = self.ev(n.p, s, i, env)
            if r is None:
                return (i, None)
            return self.ev(n.q, s, r[0], env)
        if k == "and":
            r = self.ev(n.p, s, i, env)
            return (i, None) if r is not None else None
        if k == "not":
            r = self.ev(n.p, s, i, env)
            return (i, None) if r is None else None
        if k == "star":
            j = i
            vals = []
            while True:
                r = self.ev(n.p, s, j, env)
                if r is None or r[0] == j:
                    break
                j = r[0]
                vals.append(r[1])
            return (j, vals if getattr(n, "collect", False) else s[i:j])
        if k == "plus":
            r = self.ev(n.p, s, i, env)
            if r is None:
                return None
            j = r[0]
            while True:
                r = self.ev(n.p, s, j, env)
                if r is None or r[0] == j:
                    break
                j = r[0]
            return (j, s[i:j])
        if k == "map":
            r = self.ev(n.p, s, i, env)
            if r is None:
                return None
            return (r[0], self.apply_val(n.val, r[1], s[i : r[0]]))
        if k == "bind":
            r = self.ev(n.p, s, i, env)
            if r is None:
                return None
            r2 = self.ev(n.cont, s, r[0], env)
            if r2 is None:
                return None
            v2 = r2[1]
            # the continuation's closure carries the bound value along (`|(i, x)| map(.., |i| (i, x))(i)`)
            if v2 is None:
                return (r2[0], r[1])
            return (r2[0], ("bound", r[1], v2))
        if k == "usize":
            r = self.ev(n.p, s, i, env)
            if r is None:
                return None
            v = int(s[i : r[0]])
            return (r[0], v) if v <= MAX_USIZE else None
        if k == "fnseq":
            j = i
            loc = {}
            for var, p, req in n.steps:
                r = self.ev(p, s, j, env)
                if r is None:
                    return None
                j = r[0]
                if var:
                    loc[var] = r[1]
            if n.struct is None:
                return (j, self.ret_val(n.ret, loc, s[i:j]))
            return (j, (n.struct, {f: loc.get(v) for f, v in n.fields.items()}))
        raise ValueError(k)

    def ret_val(self, ret, loc, text):
        k = ret[0]
        if k == "capture":
            return text
        if k == "var":
            return loc.get(ret[1])
        if k == "none":
            return None
        if k == "label":
            return (ret[1], None)
        if k == "tuple":
            return tuple(self.ret_val(x, loc, text) for x in ret[1])
        raise ValueError(ret)

    def _subst(self, v, bound):
        # ('pass' values inside tuples refer to the last binding)
        return v
