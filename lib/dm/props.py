"""Property -> rules mapping."""
from .rules import hdr, hyg

PROPS = {}


def prop(pid, quick, thorough=(), level="other", meta=None):
    PROPS[pid] = {"quick": list(quick), "thorough": list(thorough), "level": level, "meta": meta or {}}


prop(
    "C15",
    [hyg.rule_tpl_hyg, hyg.rule_tpl_meth, hyg.rule_tpl_export],
    meta={
        "explanation": "Every quote!/parse_quote! template of impl/src is the universal expansion for all inputs reaching it; "
        "name resolution of a template token depends only on the token sequence, so scanning the 247 templates decides hygiene for every derive input.",
        "assumptions": [
            "tokens spliced from the user's item (#ident, #ty, attribute expressions) are the user's own and may name anything",
            "Rust name resolution: a path root preceded by `::`/`.`/`'` is not looked up in the caller's scope; `derive_more` is the extern-prelude crate name",
        ],
    },
)


prop(
    "C01",
    [hdr.rule_tpl_hdr, hdr.rule_tpl_lint, hdr.rule_tpl_selfassoc],
    meta={
        "explanation": "Structural necessary conditions of 'every supported input expands to code that compiles warning-free', decided on the templates "
        "(universal expansions) with interpolations typed by rustc (MIR var_debug_info join).",
        "assumptions": [
            "NOT decided: that every well-typed input type-checks after expansion (trait solving over arbitrary field types); only header/generics/lint necessary conditions",
            "deprecated-lint behaviour inside derive expansions (fires for paths to deprecated variants, not for field access) as observed on the installed toolchains",
        ],
    },
)
