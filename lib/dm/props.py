"""Property -> rules mapping."""
from .rules import attrs, cfg, conv, dbg, det, errsel, fmtdec, fmtparse, hdr, hyg, idx, ops, panics, rawid, shape, split

PROPS = {}


def prop(pid, quick, thorough=(), level="other", meta=None):
    PROPS[pid] = {"quick": list(quick), "thorough": list(thorough), "level": level, "meta": meta or {}}


prop(
    "C15",
    [hyg.rule_tpl_hyg, hyg.rule_tpl_meth, hyg.rule_tpl_export],
    meta={
        "explanation": "Every quote!/parse_quote! template of impl/src is the universal expansion for all inputs reaching it; "
        "name resolution of a template token depends only on the token sequence, so scanning the 247 templates decides hygiene for every derive input.",
        "assumptions": [
            "tokens spliced from the user's item (#ident, #ty, attribute expressions) are the user's own and may name anything",
            "Rust name resolution: a path root preceded by `::`/`.`/`'` is not looked up in the caller's scope; `derive_more` is the extern-prelude crate name",
        ],
    },
)


prop(
    "C01",
    [hdr.rule_tpl_hdr, hdr.rule_tpl_lint, hdr.rule_tpl_selfassoc],
    meta={
        "explanation": "Structural necessary conditions of 'every supported input expands to code that compiles warning-free', decided on the templates "
        "(universal expansions) with interpolations typed by rustc (MIR var_debug_info join).",
        "assumptions": [
            "NOT decided: that every well-typed input type-checks after expansion (trait solving over arbitrary field types); only header/generics/lint necessary conditions",
            "deprecated-lint behaviour inside derive expansions (fires for paths to deprecated variants, not for field access) as observed on the installed toolchains",
        ],
    },
)


prop(
    "C19",
    [det.rule_det_hasher, det.rule_det_ambient, det.rule_det_state],
    meta={
        "explanation": "Determinism decided on the type-checked program: rustc's own MIR of derive_more-impl (all features) is searched for every hashed-collection "
        "instantiation, every resolved call and every static; nothing is executed.",
        "assumptions": [
            "syn, quote, proc-macro2, convert_case, unicode-xid are pure (their MIR is not analysed)",
            "DefaultHasher::default() is a fixed function within one toolchain",
            "cfg(test) code is excluded (cargo check of the lib target)",
        ],
    },
)


prop(
    "C20",
    [cfg.rule_cfg_manifest, cfg.rule_cfg_export, cfg.rule_cfg_matrix],
    level="proof",
    meta={
        "explanation": "cfg algebra over all feature assignments (obligation = gate of the code that emits/uses a name implies the gate of its definition, discharged by "
        "exhaustive evaluation over the features mentioned) plus rustc's own type-check of every single-feature configuration with and without std.",
        "checker_cmd": "bin/check C20",
        "trusted_base": ["syn 2.0.119 parser", "cargo/rustc type-check of each configuration", "python cfg evaluator (exhaustive truth tables)"],
        "assumptions": [
            "NOT decided: that the derive's test program *passes* at run time in each configuration, only that it type-checks (thorough tier: --tests)",
            "flags other than features (docsrs, ci, nightly) are free variables",
        ],
    },
)


prop("C06", [dbg.rule_builder_shape, dbg.rule_debug_tuple_sibling, rawid.rule_raw_id], meta={"explanation": "wip"})


prop(
    "C03",
    [fmtparse.rule_peg_combinators, fmtparse.rule_peg_tables, fmtparse.rule_fmt_counter, fmtparse.rule_peg_equiv],
    level="model_checking",
    meta={
        "explanation": "A PEG is extracted from the combinator source of impl/src/fmt/parsing.rs on every run (fail-closed on any construct it does not understand) and compared, "
        "by table rules and by bounded exhaustive equivalence, with std::fmt's documented grammar (read from the toolchain's alloc/src/fmt.rs) as rustc_parse_format disambiguates it. "
        "The model is derived from source; no code of the crate runs.",
        "assumptions": [
            "extraction fidelity: the combinators keep the std Option/Iterator semantics checked by G-COMB",
            "reference reading of std's grammar (fill/align by one-character look-ahead, `0$`, `.*`) follows rustc_parse_format; validated against rustc by format_args! witnesses",
            "a literal std rejects still reaches format_args! unchanged (TPL-VERB, C02) unless the transparent path is taken (C05)",
        ],
    },
)


prop("C05", [fmtdec.rule_dec_cover, fmtdec.rule_transparent_call, fmtdec.rule_transparent_siblings], meta={"explanation": "wip"})
prop("C02", [fmtdec.rule_tpl_verb, fmtdec.rule_binder_align, fmtdec.rule_pointer_deref, fmtdec.rule_rename_all], meta={"explanation": "wip"})

prop("C04", [fmtdec.rule_guard_use, fmtdec.rule_traversal, fmtdec.rule_lookup_agreement], meta={"explanation": "wip"})
prop("C07", [fmtdec.rule_shared_reject, fmtdec.rule_shared_decision, fmtdec.rule_lookup_agreement], meta={"explanation": "wip"})

prop("C09", [idx.rule_idx_space, errsel.rule_view_defs, errsel.rule_error_selection], meta={"explanation": "wip"})

prop("C10", [ops.rule_tpl_role, ops.rule_unary, ops.rule_method_names], meta={"explanation": "wip"})

prop("C08", [conv.rule_merge_symmetry, conv.rule_from_table, conv.rule_field_order], meta={"explanation": "wip"})

prop("C11", [shape.rule_accessors, errsel.rule_view_defs, idx.rule_idx_space, rawid.rule_raw_id], meta={"explanation": "wip"})
prop("C12", [shape.rule_tpl_prec, shape.rule_discriminants, hdr.rule_tpl_hdr, rawid.rule_raw_id], meta={"explanation": "wip"})
prop("C13", [shape.rule_from_str, rawid.rule_raw_id], meta={"explanation": "wip"})
prop("C14", [shape.rule_delegation, errsel.rule_view_defs, idx.rule_idx_space], meta={"explanation": "wip"})

prop("C16", [split.rule_split_table, split.rule_alias_test, fmtdec.rule_tpl_verb], meta={"explanation": "wip"})

prop("C17", [attrs.rule_legacy_attr_parser, attrs.rule_typed_attrs, attrs.rule_attr_positions, conv.rule_merge_symmetry], meta={"explanation": "wip"})

prop("C18", [panics.rule_panic_ledger, panics.rule_closed_sets, panics.rule_termination, fmtparse.rule_peg_combinators, fmtparse.rule_peg_tables, fmtdec.rule_traversal, split.rule_scanner_progress, idx.rule_idx_space, rawid.rule_raw_id], meta={"explanation": "wip"})
