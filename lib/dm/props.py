"""Property -> rules mapping (what bin/check <id> runs) with the explanation / assumptions written into the evidence."""
from .rules import attrs, cfg, conv, dbg, det, errsel, facade, fmtdec, fmtoracle, fmtparse, gendet, generic, hdr, hyg, idx, ops, optrules, panics, rawid, reject, shape, split, state, tables

PROPS = {}

COMMON = [
    "static analysis only: the sources of /repo are parsed (syn) and type-checked (rustc MIR) on this run; no derive is expanded or executed by the check",
    "a template (quote!/parse_quote! site) is the universal expansion of every input that reaches it; rules over templates and over the decision code around them hold for all inputs",
]
NOT_DECIDED_VALUES = "NOT decided (left to dynamic techniques): the bytes / values produced at run time for particular inputs; only the structural necessary conditions named by the rules"


def prop(pid, quick, thorough=(), level="other", explanation="", assumptions=(), **meta):
    m = {"explanation": explanation, "assumptions": COMMON + list(assumptions)}
    m.update(meta)
    PROPS[pid] = {"quick": list(quick), "thorough": list(thorough), "level": level, "meta": m}


prop(
    "C01",
    [hdr.rule_generics_source, hyg.rule_generic_capture, fmtparse.rule_fmt_counter, conv.rule_from_table, hdr.rule_bounds_appended, idx.rule_idx_space, shape.rule_discriminants, hdr.rule_tpl_hdr, hdr.rule_tpl_lint, hdr.rule_tpl_selfassoc, rawid.rule_raw_id, shape.rule_tpl_prec, fmtdec.rule_traversal, fmtdec.rule_guard_use, fmtdec.rule_shared_decision, gendet.rule_generics_search, gendet.rule_type_param_used, reject.rule_reject_ledger, idx.rule_enumerate_positions, errsel.rule_error_selection, fmtdec.rule_expansion_pair, hdr.rule_generics_preserve, generic.rule_zip_alignment, panics.rule_extern_preconditions],
    explanation="Structural necessary conditions of 'every supported input expands to code that compiles warning-free': the 27 generated impl headers and every TypeGenerics splice "
    "(interpolations typed by rustc through the MIR binding join, identifier provenance by def-use), lint attributes on impls that name user variants, no Self::<Assoc> in enum-capable expanders, raw identifiers, "
    "spliced user expressions.",
    assumptions=[
        "NOT decided: that every well-typed input type-checks after expansion (trait solving over arbitrary field types)",
        "deprecated-lint behaviour inside derive expansions (fires for paths to deprecated variants, not for field access; unreachable_code never fires for uninhabited fields) as observed with witnesses on both installed toolchains",
    ],
)

prop(
    "C02",
    [fmtparse.rule_single_placeholder, state.rule_shared_cursor, fmtdec.rule_literal_verbatim, tables.rule_fmt_trait_tables, fmtdec.rule_tpl_verb, fmtdec.rule_binder_align, fmtdec.rule_pointer_deref, fmtdec.rule_rename_all, state.rule_iteration_state, optrules.rule_option_flow, rawid.rule_raw_id, fmtparse.rule_peg_tables, fmtparse.rule_peg_equiv, fmtdec.rule_attr_separator, generic.rule_truncating_adaptors, generic.rule_zip_alignment, split.rule_expr_ident_eq, generic.rule_order_adaptors, fmtdec.rule_literal_parsed],
    explanation="With an attribute the expansion *is* a write!/format_args! call, so 'prints what format! prints' reduces to: the attribute's tokens reach the macro verbatim and in order, fields are bound under "
    "the names the literal may use (`ident` / `_i`, same field), Pointer placeholders get the field itself, and the implicit body (unit name with rename_all, single-field delegation) is built as documented.",
    assumptions=["Rust's own semantics of format_args! (trusted)", NOT_DECIDED_VALUES],
)

prop(
    "C03",
    [fmtdec.rule_lookup_agreement, fmtparse.rule_numeric_leaf, fmtparse.rule_peg_combinators, fmtparse.rule_peg_tables, fmtparse.rule_fmt_counter, fmtparse.rule_peg_equiv, fmtdec.rule_transparent_call, fmtdec.rule_dec_cover],
    thorough=[fmtoracle.rule_reference_oracle],
    level="model_checking",
    explanation="A PEG is extracted from the combinator source of impl/src/fmt/parsing.rs on every run (fail-closed on any construct it does not understand) and compared, by table rules and by bounded "
    "exhaustive equivalence, with std::fmt's documented grammar (read from the toolchain's alloc/src/fmt.rs) as rustc_parse_format disambiguates it; the implicit-argument counter of the consumer is checked "
    "structurally. The model is derived from source; no code of the crate runs. Thorough tier: the reference reader itself is validated against rustc's verdict on `format_args!` literals (G-ORACLE).",
    assumptions=[
        "extraction fidelity: the combinators keep the std Option/Iterator semantics checked by G-COMB",
        "the reference reading of std's grammar (fill/align by one-character look-ahead, `0$`, `.*`, identifier = XID) follows rustc_parse_format; python's str.isidentifier approximates XID_Start/XID_Continue",
        "a literal std rejects still reaches format_args! unchanged (TPL-VERB, C02) unless the transparent path is taken (rule_transparent_call)",
    ],
)

prop(
    "C04",
    [conv.rule_merge_symmetry, conv.rule_merge_no_shortcut, hdr.rule_user_bounds_flow, split.rule_alias_test, split.rule_ident_argument, hdr.rule_bounds_appended, attrs.rule_typed_attrs, tables.rule_fmt_trait_tables, fmtdec.rule_guard_use, fmtdec.rule_traversal, fmtdec.rule_lookup_agreement, fmtdec.rule_shared_decision, fmtparse.rule_fmt_counter, fmtparse.rule_peg_tables, fmtdec.rule_expansion_pair, generic.rule_truncating_adaptors, generic.rule_zip_alignment, generic.rule_order_adaptors],
    explanation="Bounds are emitted by six templates `#ty: core::fmt::#Trait`; each must be guarded by contains_generics on the same binding; contains_generics must traverse every variant / type-bearing field of "
    "syn::Type, PathArguments and GenericArgument (read from the syn sources the crate builds against); the placeholder->field lookup agrees with its sibling and with the binder names; body and bounds take the same decisions.",
    assumptions=["NOT decided: that bounded_types is a complete algorithm for arbitrary literals beyond these necessary conditions", NOT_DECIDED_VALUES],
)

prop(
    "C05",
    [fmtdec.rule_literal_parsed, fmtdec.rule_shared_decision, fmtdec.rule_shared_attr_unfiltered, fmtdec.rule_dec_cover, fmtdec.rule_transparent_call, fmtdec.rule_transparent_siblings, split.rule_split_table, fmtparse.rule_peg_combinators, fmtparse.rule_single_placeholder, split.rule_alias_test, generic.rule_truncating_adaptors, generic.rule_zip_alignment, state.rule_iteration_state, split.rule_expr_ident_eq, generic.rule_order_adaptors],
    explanation="FmtAttribute::transparent_call is the decision function for flag pass-through: every FormatSpec field must veto transparency, exactly one placeholder, the positional index must denote the single argument, "
    "and each site emitting an attribute body must ask it first and fall back to write! unconditionally. Argument counting depends on the argument scanner (C16 findings are repeated here).",
    assumptions=["format_args!/write! ignore the outer formatter's flags (Rust semantics)", NOT_DECIDED_VALUES],
)

prop(
    "C06",
    [fmtdec.rule_literal_verbatim, hdr.rule_bounds_appended, hdr.rule_tpl_hdr, fmtdec.rule_traversal, dbg.rule_builder_shape, dbg.rule_debug_tuple_sibling, rawid.rule_raw_id, fmtdec.rule_binder_align, state.rule_iteration_state, idx.rule_enumerate_positions, fmtdec.rule_pointer_deref, generic.rule_order_adaptors, generic.rule_truncating_adaptors, generic.rule_zip_alignment, fmtdec.rule_literal_parsed],
    explanation="Without attributes generate_body must drive std's own builders like #[derive(Debug)] does (shape rules), names are rendered un-raw (RAW-ID over rustc-resolved Ident->text conversions), and the crate's copy of "
    "core::fmt::DebugTuple must have the same effect skeleton as the toolchain's core/src/fmt/builders.rs (sibling comparison, method by method).",
    assumptions=["std's #[derive(Debug)] expands to debug_struct/debug_tuple/write_str calls with un-raw names (rustc's builtin derive)", NOT_DECIDED_VALUES],
)

prop(
    "C07",
    [fmtdec.rule_literal_parsed, fmtdec.rule_shared_attr_unfiltered, reject.rule_reject_ledger, fmtparse.rule_peg_tables, fmtparse.rule_single_placeholder, tables.rule_fmt_trait_tables, fmtdec.rule_shared_reject, fmtdec.rule_shared_decision, fmtdec.rule_lookup_agreement, state.rule_iteration_state, optrules.rule_option_flow, fmtparse.rule_fmt_counter, fmtdec.rule_expansion_pair, generic.rule_truncating_adaptors, generic.rule_zip_alignment, generic.rule_order_adaptors],
    explanation="Compile-time clauses: the `_variant` rejection precedes arm generation and tests modifiers OR non-Display; Debug rejects an enum-level format; `_variant` detection resolves names like bounded_types does; "
    "body and bounds share the wrap/default decision of shared_attr_info; the wrapping template binds `_variant` with the fields in scope; rename_all applies before the wrap split.",
    assumptions=["NOT decided: the full three-way decision (shared attribute x own attribute x field count) as a truth table, and every printed text", NOT_DECIDED_VALUES],
)

prop(
    "C08",
    [shape.rule_ref_types, hdr.rule_tpl_hdr, hyg.rule_tpl_ufcs, conv.rule_merge_symmetry, conv.rule_from_table, conv.rule_field_order, conv.rule_validate_arity, conv.rule_into_impl_set, idx.rule_enumerate_positions, generic.rule_arg_order, generic.rule_field_correspondence, generic.rule_order_adaptors, generic.rule_truncating_adaptors, generic.rule_zip_alignment, state.rule_accumulators, reject.rule_reject_ledger, state.rule_monotone_flags],
    explanation="Field order and the impl set are decided in a few places: expand_fields/(i, field) pairing and the per-field templates (exactly one From::from), the `match (attrs, skip_variant)` table with a complete first pass for "
    "has_explicit_from, Into's (index, field, skip) triples and reference-kind table, Constructor's single field list, and the field-by-field symmetry of attribute merging.",
    assumptions=[NOT_DECIDED_VALUES, "coherence of the generated impls with user impls is rustc's business"],
)

prop(
    "C09",
    [optrules.rule_enabled_default, gendet.rule_type_param_used, idx.rule_idx_space, errsel.rule_view_defs, errsel.rule_error_selection, generic.rule_arg_order, generic.rule_field_correspondence, optrules.rule_meta_defaults, state.rule_loop_exit, generic.rule_truncating_adaptors, generic.rule_zip_alignment, attrs.rule_legacy_attr_parser],
    explanation="Index-space typing: collections over all fields vs. enabled fields are derived from utils::State; the positions stored in ParsedFields come from an enumerate over enabled fields; every subscript and every "
    "`matcher` argument must use an index of the collection's own space. Plus the documented selection table of parse_field_impl / defaults / ignored variants.",
    assumptions=[NOT_DECIDED_VALUES],
)

prop(
    "C10",
    [generic.rule_position_search, facade.rule_error_display, cfg.rule_cfg_export, attrs.rule_legacy_attr_parser, hyg.rule_tpl_ufcs, ops.rule_tpl_role, ops.rule_unary, ops.rule_method_names, generic.rule_arg_order, generic.rule_field_correspondence, generic.rule_order_adaptors, generic.rule_truncating_adaptors, generic.rule_zip_alignment, optrules.rule_meta_defaults, state.rule_raw_flags, hdr.rule_generics_preserve],
    explanation="Operand roles are visible in the operator templates: receiver rooted in the left operand, argument in the right, same field/variant on both sides, `(self, rhs)` scrutinee, unit/mismatch arms; unary wrapping governed by one flag; "
    "method names derived from trait names are constant-evaluated and compared with core's trait declarations; Sum/Product fold from the field-wise empty value.",
    assumptions=[NOT_DECIDED_VALUES],
)

prop(
    "C11",
    [hdr.rule_generics_source, attrs.rule_level_flags, optrules.rule_enabled_default, shape.rule_ref_types, hdr.rule_generics_preserve, facade.rule_error_display, shape.rule_accessors, errsel.rule_view_defs, idx.rule_idx_space, rawid.rule_raw_id, generic.rule_arg_order, generic.rule_field_correspondence, generic.rule_order_adaptors, generic.rule_truncating_adaptors, generic.rule_zip_alignment, optrules.rule_meta_defaults, state.rule_raw_flags, state.rule_loop_exit],
    explanation="Accessor methods, patterns, binders and error values are built per variant from one source; the failure re-match covers all variants; TryInto patterns go through matcher(field_indexes, binders) (IDX-SPACE, VIEW-DEF); "
    "method names are built from un-raw variant names.",
    assumptions=["snake_case conversion is delegated to convert_case (not analysed)", NOT_DECIDED_VALUES],
)

prop(
    "C12",
    [facade.rule_error_display, shape.rule_tpl_prec, shape.rule_discriminants, hdr.rule_tpl_hdr, rawid.rule_raw_id, cfg.rule_cfg_defuse, cfg.rule_syn_features],
    explanation="The discriminant reconstruction is a counter discipline in one closure plus one template: reset/advance/use order, parenthesised explicit expression, typed constants named injectively, match through the constants only; "
    "repr detection table and merge; the impl header carries the enum's generics.",
    assumptions=["the compiler assigns implicit discriminants as previous + 1 (language semantics)", NOT_DECIDED_VALUES],
)

prop(
    "C13",
    [facade.rule_error_display, shape.rule_from_str, rawid.rule_raw_id, hdr.rule_tpl_hdr, cfg.rule_cfg_defuse, cfg.rule_syn_features],
    explanation="Enum FromStr: same case mapping on keys (expansion time) and scrutinee (run time), guard structure of case-colliding groups, fall-through error, field-less variants only; newtype delegation and error type.",
    assumptions=["str::to_lowercase is deterministic and identical at expansion and run time", NOT_DECIDED_VALUES],
)

prop(
    "C14",
    [attrs.rule_legacy_attr_parser, optrules.rule_enabled_default, shape.rule_ref_types, hdr.rule_generics_preserve, hyg.rule_tpl_ufcs, shape.rule_delegation, errsel.rule_view_defs, idx.rule_idx_space, idx.rule_enumerate_positions, gendet.rule_generics_search, generic.rule_arg_order, generic.rule_field_correspondence, optrules.rule_meta_defaults, state.rule_raw_flags, reject.rule_reject_ledger, generic.rule_truncating_adaptors, generic.rule_zip_alignment],
    explanation="Delegating derives use element 0 of the enabled views (VIEW-DEF keeps positional names original), direct forms `&[mut] self.member`, forwarded forms through one cast with projected associated types, "
    "RefType tables pairwise consistent, AsRef kind decision and the autoref-specialisation levels of src/as.rs vs. the call site.",
    assumptions=["autoref-based specialisation: method probing prefers the receiver with fewer auto-refs (language semantics)", NOT_DECIDED_VALUES],
)

prop(
    "C15",
    [hdr.rule_tpl_selfassoc, hyg.rule_generic_capture, hyg.rule_tpl_ufcs, hyg.rule_tpl_hyg, hyg.rule_tpl_meth, hyg.rule_tpl_assoc, hyg.rule_tpl_export, cfg.rule_cfg_export, hyg.rule_tpl_crate_path],
    explanation="Name resolution of a template token depends only on the token sequence: every path root / macro name / trait-method call of the 247 templates is classified; every derive_more:: path has a backing export "
    "under the features that compile the emitting code.",
    assumptions=[
        "tokens spliced from the user's item (#ident, #ty, attribute expressions) are the user's own and may name anything",
        "`str::to_lowercase` needing `alloc` in a no_std user crate is noted, not analysed",
    ],
)

prop(
    "C16",
    [split.rule_stateless_combinators, split.rule_split_table, split.rule_alias_test, fmtdec.rule_tpl_verb, fmtdec.rule_lookup_agreement, fmtparse.rule_fmt_counter, fmtdec.rule_attr_separator, split.rule_expr_ident_eq],
    explanation="The argument scanner is a four-alternative token matcher; its alternatives are compared with the places where Rust's expression grammar keeps a comma inside an expression (table compiled from syn), "
    "the alias test is checked against `==` and spacing, termination/failure of the helper loops, verbatim re-emission (TPL-VERB).",
    assumptions=["agreement on *all* expressions is undecidable for a hand scanner; the table is the claim", "`->` inside `::<..>` and `|=` are residual exotic hazards listed in DESIGN.md, not decided"],
)

prop(
    "C17",
    [attrs.rule_position_grammar, conv.rule_merge_no_shortcut, attrs.rule_level_flags, hdr.rule_user_bounds_flow, shape.rule_discriminants, attrs.rule_legacy_attr_parser, attrs.rule_typed_attrs, attrs.rule_attr_positions, conv.rule_merge_symmetry, optrules.rule_option_flow, reject.rule_reject_ledger, fmtdec.rule_attr_separator, optrules.rule_meta_defaults, state.rule_accumulators, state.rule_loop_exit, generic.rule_truncating_adaptors, generic.rule_zip_alignment, attrs.rule_attr_validation_reach, state.rule_monotone_flags, attrs.rule_legacy_positions],
    explanation="Attribute totality: the untyped parser's checks dominate every successful return, its name matches end in rejecting arms, slots are written once; typed attributes reject repetition unless merging is documented "
    "(merge overrides enumerated, symmetric), synonyms are accepted alike and not branched on, legacy syntax is detected on every path, positional conflicts raise their diagnostics.",
    assumptions=["NOT decided: token-equality of expansions for synonymous inputs (follows from the parsers producing the same value; not proved), diagnostics' wording"],
)

prop(
    "C18",
    [panics.rule_where_clause_args, panics.rule_parse_quote_shape, state.rule_shared_cursor, panics.rule_panic_ledger, panics.rule_extern_preconditions, panics.rule_closed_sets, panics.rule_termination, fmtparse.rule_peg_combinators, fmtparse.rule_peg_tables, fmtdec.rule_traversal, split.rule_scanner_progress, idx.rule_idx_space, rawid.rule_raw_id],
    explanation="Every panic-capable site rustc sees in the crate (all features) is matched against a ledger: diagnostic, input-guaranteed, guarded (the guard is re-recognised from the conditions holding at the site on this run) or audited with a reason; "
    "closed sets behind unimplemented!/unreachable! are re-derived from the create_derive! table and the syn sources; recursive SCCs of the resolved call graph need a termination argument; parser loops progress.",
    assumptions=["panics inside syn / quote / proc-macro2 for token streams the compiler never produces are out of scope", "stack depth as a number is not bounded, only recursion on strict sub-terms"],
)

prop(
    "C19",
    [det.rule_det_address, det.rule_det_hasher, det.rule_det_ambient, det.rule_det_state, generic.rule_order_adaptors, generic.rule_truncating_adaptors, generic.rule_zip_alignment],
    explanation="Determinism decided on the type-checked program: rustc's own MIR of derive_more-impl (all features) is searched for every hashed-collection instantiation, every resolved call and every static; nothing is executed.",
    assumptions=[
        "syn, quote, proc-macro2, convert_case, unicode-xid are pure (their MIR is not analysed)",
        "DefaultHasher::default() is a fixed function within one toolchain",
        "cfg(test) code is excluded (cargo check of the lib target)",
    ],
)

prop(
    "C20",
    [cfg.rule_cfg_manifest, cfg.rule_cfg_export, cfg.rule_cfg_matrix, cfg.rule_cfg_defuse, cfg.rule_syn_features],
    level="proof",
    explanation="cfg algebra over all feature assignments (obligation = gate of the code that emits/uses a name implies the gate of its definition, discharged by exhaustive evaluation over the features mentioned) "
    "plus rustc's own type-check of every single-feature configuration with and without std (thorough: all pairs and each derive's test program with --tests).",
    assumptions=[
        "NOT decided: that the derive's test program *passes* at run time in each configuration, only that it type-checks (thorough tier: --tests)",
        "flags other than features (docsrs, ci, nightly) are free variables",
    ],
    checker_cmd="bin/check C20",
    trusted_base=["syn 2.0.119 parser", "cargo/rustc type-check of each configuration", "python cfg evaluator (exhaustive truth tables)"],
)
