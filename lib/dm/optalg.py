"""A small abstract interpreter for `Option`-valued decision code (OPT-ALG).

Attribute inheritance and merging in the derives is written with `Option` combinators (`get_or_insert`, `replace`,
`and_then`, `or`, `map`, `unwrap_or`, `if let Some(..)`). Their meaning over the four combinations None/Some x None/Some
is a finite truth table; this module evaluates the *source* (syn tree) of such code on symbolic inputs so that rules can
state the intended table (e.g. "the variant's own value wins, the container's is the fallback") and compare all cases.
Anything it does not understand evaluates to TOP (unknown) and never silently to a definite value.
"""
from . import ast as A

TOP = ("TOP",)
NONE = ("None",)


def some(tag):
    return ("Some", tag)


class Return(Exception):
    def __init__(self, value):
        self.value = value


class Env:
    def __init__(self, places=None, parent=None):
        self.places = dict(places or {})
        self.locals = {}
        self.parent = parent
        self.returned = None  # value of an explicit `return` taken on a *definite* path
        self.may_return = []  # returns under unknown conditions

    def get(self, name):
        if name in self.locals:
            return self.locals[name]
        if name in self.places:
            return self.places[name]
        if self.parent is not None:
            return self.parent.get(name)
        return TOP

    def set(self, name, v):
        e = self
        while e is not None:
            if name in e.locals:
                e.locals[name] = v
                return
            if name in e.places:
                e.places[name] = v
                return
            e = e.parent
        self.places[name] = v

    def child(self):
        return Env(parent=self)

    def root(self):
        e = self
        while e.parent is not None:
            e = e.parent
        return e


def _place(e):
    """rendered place for a path / field chain (through `&`, `&mut`, `*`, parens), else None"""
    k = A.kind(e)
    while k in ("Expr::Reference", "Expr::Paren", "Expr::Group") or (k == "Expr::Unary" and A.kind(e.get("op")) == "UnOp::Deref"):
        e = e["expr"]
        k = A.kind(e)
    if k == "Expr::Path":
        return A.path_str(e)
    if k == "Expr::Index":
        return None
    if k == "Expr::Field":
        b = _place(e["base"])
        if b is None:
            return None
        m = e["member"]
        nm = m["0"]["sym"] if A.kind(m) == "Member::Named" else str(m["0"]["index"])
        return f"{b}.{nm}"
    return None


def _is_opt(v):
    return v == NONE or (isinstance(v, tuple) and v and v[0] == "Some")


def _call_closure(cl, args, env):
    """apply a closure (or a path to `Some`) to argument values"""
    k = A.kind(cl)
    if k == "Expr::Closure":
        c = env.child()
        for p, a in zip(cl["inputs"], args):
            names = A.pat_idents(p)
            if len(names) == 1:
                c.locals[names[0]] = a
        return ev(cl["body"], c)
    if k == "Expr::Path" and A.path_last(cl) == "Some" and args:
        return some(args[0])
    return TOP


def ev(e, env):
    k = A.kind(e)
    if k in ("Expr::Paren", "Expr::Group"):
        return ev(e["expr"], env)
    if k == "Expr::Reference":
        return ev(e["expr"], env)
    if k == "Expr::Lit":
        r = A.render(e)
        if r in ("true", "false"):
            return r == "true"
        import re as _re

        m_ = _re.fullmatch(r"(\d+)(?:usize|u\d+|i\d+|isize)?", r.replace("_", ""))
        if m_:
            return int(m_.group(1))
        return ("lit", r)
    if k == "Expr::Index":
        base = _place(e["expr"])
        i_ = ev(e["index"], env)
        if base is not None and isinstance(i_, int) and not isinstance(i_, bool):
            return env.get(f"{base}[{i_}]")
        return TOP
    if k in ("Expr::Path", "Expr::Field"):
        pl = _place(e)
        if pl == "None" or (pl or "").endswith("::None"):
            return NONE
        if pl is None and k == "Expr::Field":
            # a field chain through an index with a computable constant: `infos[source].info.source`
            chain = []
            x = e
            while A.kind(x) == "Expr::Field":
                m_ = x["member"]
                chain.append(m_["0"]["sym"] if A.kind(m_) == "Member::Named" else str(m_["0"]["index"]))
                x = x["base"]
            if A.kind(x) == "Expr::Index":
                base = _place(x["expr"])
                i_ = ev(x["index"], env)
                if base is not None and isinstance(i_, int) and not isinstance(i_, bool):
                    return env.get(f"{base}[{i_}]." + ".".join(reversed(chain)))
            return TOP
        return env.get(pl) if pl else TOP
    if k == "Expr::Unary":
        op = A.kind(e["op"])
        v = ev(e["expr"], env)
        if op == "UnOp::Not":
            return (not v) if isinstance(v, bool) else TOP
        if op == "UnOp::Deref":
            return v
        return TOP
    if k == "Expr::Binary":
        op = A.kind(e["op"])
        if op == "BinOp::And":
            l = ev(e["left"], env)
            if l is False:
                return False
            r = ev(e["right"], env)
            if l is True:
                return r if isinstance(r, bool) else TOP
            return False if r is False else TOP
        if op == "BinOp::Or":
            l = ev(e["left"], env)
            if l is True:
                return True
            r = ev(e["right"], env)
            if l is False:
                return r if isinstance(r, bool) else TOP
            return True if r is True else TOP
        l, r = ev(e["left"], env), ev(e["right"], env)
        ints = all(isinstance(x, int) and not isinstance(x, bool) for x in (l, r))
        if ints:
            if op == "BinOp::Add":
                return l + r
            if op == "BinOp::Sub":
                return l - r
            if op == "BinOp::Mul":
                return l * r
            if op == "BinOp::Rem" and r != 0:
                return l % r
            if op == "BinOp::Lt":
                return l < r
            if op == "BinOp::Gt":
                return l > r
            if op == "BinOp::Le":
                return l <= r
            if op == "BinOp::Ge":
                return l >= r
        if op in ("BinOp::Eq", "BinOp::Ne") and TOP not in (l, r) and not any(isinstance(x, tuple) and "TOP" in str(x) for x in (l, r)):
            return (l == r) if op == "BinOp::Eq" else (l != r)
        return TOP
    if k == "Expr::Call":
        fnp = e["func"]
        nm = A.path_last(fnp) if A.kind(fnp) == "Expr::Path" else None
        if nm == "Some" and len(e["args"]) == 1:
            return some(ev(e["args"][0], env))
        if nm == "Err":
            return ("Err",)
        if nm == "Ok" and len(e["args"]) == 1:
            return ("Ok", ev(e["args"][0], env))
        for a in e["args"]:
            ev(a, env)
        return TOP
    if k == "Expr::Try":
        v = ev(e["expr"], env)
        if isinstance(v, tuple) and v and v[0] == "Ok":
            return v[1]
        if v == ("Err",):
            env.root().returned = ("Err",)
            raise Return(("Err",))
        # `?` on an Option: None leaves the function with None, Some(x) is x
        if v == NONE:
            env.root().returned = NONE
            raise Return(NONE)
        if _is_opt(v) and v != TOP and isinstance(v, tuple) and len(v) == 2:
            return v[1]
        return TOP
    if k == "Expr::MethodCall":
        m = e["method"]["sym"]
        recv = e["receiver"]
        pl = _place(recv)
        v = ev(recv, env)
        args = e["args"]
        if m in ("as_ref", "as_mut", "clone", "copied", "cloned", "as_deref", "by_ref"):
            return v
        if isinstance(v, bool) and m == "then_some" and len(args) == 1:
            return some(ev(args[0], env)) if v else NONE
        if isinstance(v, bool) and m == "then" and len(args) == 1:
            return some(_call_closure(args[0], [], env)) if v else NONE
        if not _is_opt(v):
            # an opaque observation the caller seeded under its rendered text (`fields.len()`)
            key = A.render(e)
            got = env.get(key)
            if got != TOP:
                return got
            for a in args:
                if A.kind(a) != "Expr::Closure":
                    ev(a, env)
            return TOP
        if m == "is_some":
            return v != NONE
        if m == "is_none":
            return v == NONE
        if m == "or" and len(args) == 1:
            return v if v != NONE else ev(args[0], env)
        if m == "or_else" and len(args) == 1:
            return v if v != NONE else _call_closure(args[0], [], env)
        if m == "xor" and len(args) == 1:
            o = ev(args[0], env)
            if not _is_opt(o):
                return TOP
            return v if o == NONE else (o if v == NONE else NONE)
        if m == "and" and len(args) == 1:
            return NONE if v == NONE else ev(args[0], env)
        if m == "and_then" and len(args) == 1:
            return NONE if v == NONE else _call_closure(args[0], [v[1]], env)
        if m == "map" and len(args) == 1:
            return NONE if v == NONE else some(_call_closure(args[0], [v[1]], env))
        if m == "filter" and len(args) == 1:
            if v == NONE:
                return NONE
            c_ = _call_closure(args[0], [v[1]], env)
            return v if c_ is True else NONE if c_ is False else TOP
        if m == "then_some" and len(args) == 1:
            return TOP
        if m in ("unwrap_or", "unwrap_or_else", "unwrap_or_default", "unwrap", "expect"):
            if v != NONE:
                return v[1]
            if m == "unwrap_or" and args:
                return ev(args[0], env)
            if m == "unwrap_or_else" and args:
                return _call_closure(args[0], [], env)
            return TOP
        if m == "map_or" and len(args) == 2:
            return ev(args[0], env) if v == NONE else _call_closure(args[1], [v[1]], env)
        if m == "is_some_and" and len(args) == 1:
            if v == NONE:
                return False
            r = _call_closure(args[0], [v[1]], env)
            return r if isinstance(r, bool) else TOP
        if m in ("get_or_insert", "get_or_insert_with") and len(args) == 1 and pl:
            if v == NONE:
                nv = ev(args[0], env) if m == "get_or_insert" else _call_closure(args[0], [], env)
                env.set(pl, some(nv))
                return nv
            return v[1]
        if m == "insert" and len(args) == 1 and pl:
            nv = ev(args[0], env)
            env.set(pl, some(nv))
            return nv
        if m == "replace" and len(args) == 1 and pl:
            nv = ev(args[0], env)
            env.set(pl, some(nv))
            return v
        if m == "take" and pl:
            env.set(pl, NONE)
            return v
        if m == "ok_or" or m == "ok_or_else":
            return ("Ok", v[1]) if v != NONE else ("Err",)
        return TOP
    if k == "Expr::Assign":
        pl = _place(e["left"])
        v = ev(e["right"], env)
        if pl:
            env.set(pl, v)
        return ("unit",)
    if k == "Expr::Return":
        v = ev(e["expr"], env) if e.get("expr") else ("unit",)
        raise Return(v)
    if k == "Expr::Block":
        return run_block(e["block"], env.child())
    if k == "Expr::If":
        c = e["cond"]
        if A.kind(c) == "Expr::Let":
            v = ev(c["expr"], env)
            pat = c["pat"]
            if A.kind(pat) == "Pat::TupleStruct" and A.path_last(pat["path"]) == "Some" and _is_opt(v):
                if v != NONE:
                    ce = env.child()
                    names = A.pat_idents(pat)
                    if len(names) == 1:
                        ce.locals[names[0]] = v[1]
                    return run_block(e["then_branch"], ce)
                return _else(e, env)
            return _both(e, env)
        v = ev(c, env)
        if v is True:
            return run_block(e["then_branch"], env.child())
        if v is False:
            return _else(e, env)
        return _both(e, env)
    if k == "Expr::Match":
        v = ev(e["expr"], env)
        if not _is_opt(v):
            return _both_match(e, env)
        for arm in e["arms"]:
            pat = arm["pat"]
            pk = A.kind(pat)
            if arm.get("guard"):
                return _both_match(e, env)
            hit = False
            ce = env.child()
            if pk == "Pat::Wild":
                hit = True
            elif pk == "Pat::Ident" and pat["ident"]["sym"] == "None":
                hit = v == NONE
            elif pk == "Pat::Path" and A.path_last(pat["path"]) == "None":
                hit = v == NONE
            elif pk == "Pat::Ident":
                hit = True
                ce.locals[pat["ident"]["sym"]] = v
            elif pk == "Pat::TupleStruct" and A.path_last(pat["path"]) == "Some":
                hit = v != NONE
                names = A.pat_idents(pat)
                if hit and len(names) == 1:
                    ce.locals[names[0]] = v[1]
            else:
                return _both_match(e, env)
            if hit:
                b = arm["body"]
                return run_block(b["block"], ce) if A.kind(b) == "Expr::Block" else ev(b, ce)
        return TOP
    if k == "Expr::Macro":
        return TOP
    # unknown expression kinds: evaluate nothing, definite about nothing
    return TOP


def _else(e, env):
    eb = e.get("else_branch")
    if not eb:
        return ("unit",)
    x = eb[1] if isinstance(eb, list) else eb
    if isinstance(x, dict) and "0" in x and A.kind(x) is None:
        x = x["0"]
    return ev(x, env) if A.kind(x) != "Block" else run_block(x, env.child())


def _both_match(e, env):
    for pl in _writes(e):
        env.set(pl, TOP)
    for r, _ in A.find(e, "Expr::Return"):
        env.root().may_return.append(A.render(r)[:80])
    return TOP


def _writes(node):
    out = set()
    for x, _ in A.walk(node):
        k = A.kind(x)
        if k == "Expr::Assign":
            p = _place(x["left"])
            if p:
                out.add(p)
        elif k == "Expr::MethodCall" and x["method"]["sym"] in ("get_or_insert", "get_or_insert_with", "insert", "replace", "take"):
            p = _place(x["receiver"])
            if p:
                out.add(p)
    return out


def _both(e, env):
    """unknown condition: every place written in either branch becomes TOP; a `return` inside is a may-return"""
    for pl in _writes(e):
        env.set(pl, TOP)
    for r, _ in A.find(e, "Expr::Return"):
        env.root().may_return.append(A.render(r)[:80])
    return TOP


def run_block(block, env):
    last = ("unit",)
    for st in block["stmts"]:
        last = run_stmt(st, env)
    return last


def run_stmt(st, env):
    k = A.kind(st)
    if k == "Stmt::Local":
        init = st.get("init")
        v = ev(init["expr"], env) if init else TOP
        pat = st["pat"]
        if A.kind(pat) == "Pat::Type":
            pat = pat["pat"]
        if A.kind(pat) == "Pat::Ident":
            env.locals[pat["ident"]["sym"]] = v
        else:
            # destructuring `let Spanning { item: mut prev, .. } = prev;` keeps field places of the same root name
            for n in A.pat_idents(pat):
                if n not in env.locals:
                    env.locals[n] = TOP
                # a re-binding of a tracked root under its own name keeps the tracked field places
        return ("unit",)
    if k == "Stmt::Expr":
        x = st["0"] if "0" in st else st.get("expr")
        v = ev(x, env)
        return v if not st.get("1") and not st.get("semi_token") else ("unit",)
    if k == "Stmt::Macro":
        return TOP
    return ("unit",)


def run_fn_body(stmts, places, stop_at=None):
    """Run statements on an environment seeded with `places`. Returns (env, outcome) where outcome is
    ('return', value) for a definite return, ('end', last) otherwise. `stop_at(stmt)` ends the run before that stmt."""
    env = Env(places)
    last = ("unit",)
    try:
        for st in stmts:
            if stop_at is not None and stop_at(st):
                break
            last = run_stmt(st, env)
    except Return as r:
        return env, ("return", r.value)
    return env, ("end", last)
