"""What MANIFEST.json claims, per property."""

HOOKS = {
    "guard": "derive_more_verif",
    "enable": "none: static analysis needs no instrumentation of /repo; no hook commits exist (the only /repo commits are `fix:` repairs)",
    "baseline_off_cmd": "cd /repo && cargo test --workspace --no-fail-fast --offline",
    "source_commits": [],
    "add_only": True,
}

ENGINES = [
    {
        "name": "dmast",
        "path": "tools/dmast",
        "serves_properties": ["C01", "C15"],
        "kind_free_text": "syn 2 parser dumping the complete syntax tree of impl/src/** and src/** as JSON; template IR (every quote!/parse_quote! site), "
        "lexical binding resolution and the rules live in lib/dm (python)",
    },
    {
        "name": "dmmir",
        "path": "tools/dmmir",
        "serves_properties": ["C01"],
        "kind_free_text": "rustc_private driver run as RUSTC_WORKSPACE_WRAPPER under cargo +nightly check --features full: typed locals (var_debug_info), "
        "resolved calls, Assert terminators, statics, hashed-collection instantiations of derive_more-impl",
    },
]

NOTES = "Static analysis only: every check parses / type-checks /repo's working tree on each run and reports constructs (file, function, template, call site). Witness crate under witnesses/ demonstrates findings against the real macro; it decides nothing."

NOT_APPLICABLE = {}

CLAIMS = {
    "C01": {
        "text": "Structural necessary conditions of 'expands to code that compiles warning-free', decided for all inputs on the 27 generated impl headers and all templates: "
        "generic arguments are applied to the deriving type's identifier and nothing else (interpolations typed by rustc, identifier provenance by def-use), "
        "headers carry impl generics / type generics / where-clause, impls naming user variants lie under allow(deprecated), no Self::<Assoc> in enum-capable expanders.",
        "note": "Does not prove that every well-typed input type-checks after expansion (trait solving over arbitrary field types). Lint behaviour inside expansions as observed on the installed toolchains.",
        "technique": "static analysis: template (quote!) token-tree lint with rustc-typed interpolations (MIR var_debug_info join) and def-use provenance",
    },
    "C19": {
        "text": "Decided on rustc's own MIR of derive_more-impl with every feature on: every HashMap/HashSet instantiation uses the fixed-state hasher, no resolved call reaches an "
        "ambient-state API (random seeds, clocks, env, fs, threads, locks/atomics, source positions), no pointer->integer cast, no static/thread_local/lazy state survives an expansion. "
        "Holds for every derive input because it is a property of the generator's code, not of a sample of expansions.",
        "note": "Purity of syn/quote/proc-macro2/convert_case/unicode-xid and of DefaultHasher::default() is assumed, not analysed. Calls through generics are resolved where rustc can (Instance::try_resolve); unresolved trait calls are matched by their trait path.",
        "technique": "static analysis: effect/ambient-authority analysis over type-checked MIR (rustc_private driver), hashed-collection instantiation audit",
        "engine": "dmmir",
    },
    "C20": {
        "text": "Proof-style cfg algebra: for every derive_more:: path a template can emit (interpolated trait names resolved by constant evaluation of the generator's string tables), the feature gate of the emitting code "
        "implies the gate of the facade export, over all feature assignments (exhaustive truth tables); manifests wired consistently (full = all derives, forwarding, optional deps). "
        "Plus rustc's type-check of both crates for each single feature x {std,no-std} (quick) and all pairs + each derive's test program (--tests) in thorough tier.",
        "note": "Run-time 'test program passes' is not decided (only type-checked). One listed, guard-checked exception: add_like's enum-only templates under `mul` alone (mul(forward) is struct-only).",
        "technique": "static analysis: cfg-predicate implication (exhaustive evaluation) between emitting code and facade exports + compiler type-check per feature configuration",
    },
    "C15": {
        "text": "Static name-resolution analysis of all quote!/parse_quote! templates: each template is the universal expansion for every input that reaches it, so a verdict on the 247 templates "
        "covers all derive inputs, attribute modes and caller scopes. Decides: no path root, macro name or trait-method call in generated code resolves through the caller's scope; every derive_more:: path has a backing export.",
        "note": "Trusts syn's parse of the sources and Rust's name-resolution rules as encoded in the rule (path continuation, field/method position, declarations). Tokens spliced from the user's item are the user's own. 'Identical behaviour' is implied, not executed.",
        "technique": "static analysis: custom lint over the token trees of all code-generating templates (syn AST), who-may-be-named rule",
        "engine": "dmast",
    },
}
