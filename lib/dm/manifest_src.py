"""What MANIFEST.json claims, per property."""

HOOKS = {
    "guard": "derive_more_verif",
    "enable": "none: static analysis needs no instrumentation of /repo; no hook commits exist (the only /repo commits are `fix:` repairs)",
    "baseline_off_cmd": "cd /repo && cargo test --workspace --no-fail-fast --offline",
    "source_commits": [],
    "add_only": True,
}

ENGINES = [
    {
        "name": "dmast",
        "path": "tools/dmast",
        "serves_properties": ["C01", "C15"],
        "kind_free_text": "syn 2 parser dumping the complete syntax tree of impl/src/** and src/** as JSON; template IR (every quote!/parse_quote! site), "
        "lexical binding resolution and the rules live in lib/dm (python)",
    },
    {
        "name": "dmmir",
        "path": "tools/dmmir",
        "serves_properties": ["C01"],
        "kind_free_text": "rustc_private driver run as RUSTC_WORKSPACE_WRAPPER under cargo +nightly check --features full: typed locals (var_debug_info), "
        "resolved calls, Assert terminators, statics, hashed-collection instantiations of derive_more-impl",
    },
]

NOTES = "Static analysis only: every check parses / type-checks /repo's working tree on each run and reports constructs (file, function, template, call site). Witness crate under witnesses/ demonstrates findings against the real macro; it decides nothing."

NOT_APPLICABLE = {}

CLAIMS = {
    "C01": {
        "text": "Structural necessary conditions of 'expands to code that compiles warning-free', decided for all inputs on the 27 generated impl headers and all templates: "
        "generic arguments are applied to the deriving type's identifier and nothing else (interpolations typed by rustc, identifier provenance by def-use), "
        "headers carry impl generics / type generics / where-clause, impls naming user variants lie under allow(deprecated), no Self::<Assoc> in enum-capable expanders.",
        "note": "Does not prove that every well-typed input type-checks after expansion (trait solving over arbitrary field types). Lint behaviour inside expansions as observed on the installed toolchains.",
        "technique": "static analysis: template (quote!) token-tree lint with rustc-typed interpolations (MIR var_debug_info join) and def-use provenance",
    },
    "C15": {
        "text": "Static name-resolution analysis of all quote!/parse_quote! templates: each template is the universal expansion for every input that reaches it, so a verdict on the 247 templates "
        "covers all derive inputs, attribute modes and caller scopes. Decides: no path root, macro name or trait-method call in generated code resolves through the caller's scope; every derive_more:: path has a backing export.",
        "note": "Trusts syn's parse of the sources and Rust's name-resolution rules as encoded in the rule (path continuation, field/method position, declarations). Tokens spliced from the user's item are the user's own. 'Identical behaviour' is implied, not executed.",
        "technique": "static analysis: custom lint over the token trees of all code-generating templates (syn AST), who-may-be-named rule",
        "engine": "dmast",
    },
}
