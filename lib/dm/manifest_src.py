"""What MANIFEST.json claims, per property."""

HOOKS = {
    "guard": "derive_more_verif",
    "enable": "none: static analysis needs no instrumentation of /repo; no hook commits exist (the only /repo commits are `fix:` repairs, listed in known_findings.json)",
    "baseline_off_cmd": "cd /repo && cargo test --workspace --no-fail-fast --offline",
    "source_commits": [],
    "add_only": True,
}

ALL = ["C%02d" % i for i in range(1, 21)]

ENGINES = [
    {
        "name": "dmast",
        "path": "tools/dmast",
        "serves_properties": ALL,
        "kind_free_text": "syn 2 parser dumping the complete syntax tree of impl/src/**, src/**, and of reference sources (syn's ty.rs/path.rs, core's fmt/builders.rs) as JSON; "
        "template IR (every quote!/parse_quote!/format_ident! site), lexical binding resolution, canonical renderer and all rules live in lib/dm (python)",
    },
    {
        "name": "dmmir",
        "path": "tools/dmmir",
        "serves_properties": ["C01", "C02", "C05", "C06", "C09", "C11", "C12", "C13", "C14", "C18", "C19"],
        "kind_free_text": "rustc_private driver run as RUSTC_WORKSPACE_WRAPPER under cargo +nightly check --features full (fresh target dir): typed locals (var_debug_info) joined to the syntax tree by binding position, "
        "resolved calls with macro-expansion chains, Assert terminators, pointer casts, statics, hashed-collection instantiations, call graph",
    },
    {
        "name": "peg",
        "path": "lib/dm/peg.py",
        "serves_properties": ["C03", "C04", "C18"],
        "kind_free_text": "grammar-model extraction: abstract interpretation of the combinator source of impl/src/fmt/parsing.rs into a PEG, PEG interpreter, reference reading of std::fmt's documented grammar",
    },
    {
        "name": "cfg",
        "path": "lib/dm/rules/cfg.py",
        "serves_properties": ["C20", "C15"],
        "kind_free_text": "cfg predicate algebra (exhaustive implication), module-tree gates, facade export gates, constant evaluation of generator string tables; cargo check per feature configuration",
    },
]

NOTES = (
    "Static analysis only: every check parses / type-checks /repo's working tree on each run and reports constructs (file, function, template, call site, MIR site). "
    "Witnesses under witnesses/ demonstrate findings against the real macro; they decide nothing. seeded/ holds 277 independently written regressions (seven rounds; bin/seedsweep replays them, seeded/RESULTS.md is the last full replay); neutral/ holds 200 independently written behaviour-preserving refactorings (five rounds), 111 mechanical ones and my own variants, on which every check must stay silent (bin/neutralsweep)."
)

NOT_APPLICABLE = {}

T_TPL = "static analysis: lint over the token trees of the code-generating templates (quote! sites) with rustc-typed interpolations and def-use provenance"
T_DEC = "static analysis: structural rules over the decision code (match-arm tables, condition coverage, sibling agreement, must-precede / must-pass-through) on the syn AST"

CLAIMS = {
    "C01": {"text": "Necessary conditions of 'compiles warning-free for every supported input', for all inputs: impl headers and every TypeGenerics splice apply the generics to the deriving type's identifier only (types from rustc, provenance by def-use), impls naming user variants are under allow(deprecated), no Self::<Assoc> in enum-capable expanders, user identifiers un-rawed, user expressions parenthesised. Plus: the generic-parameter detectors (AsRef/AsMut visitor, Error's type-parameter search) examine every position of a parameter in a type (closed set from the syn sources); the Generics-deriving helpers preserve the user's where-clause; every refusal of an input is in the audited REJECT-LEDGER; body/bounds share decisions. Round 4/5 additions: BOUNDS-APPEND (the collected bounds reach the where-clause unconditionally), index spaces and the repr parser also under this property.",
            "note": "Does not prove that every well-typed input type-checks after expansion. Lint behaviour inside expansions as observed on the installed toolchains.", "technique": T_TPL},
    "C02": {"text": "Decides the three structural facts the byte-for-byte claim reduces to: verbatim, ordered hand-over of the attribute to write!/format_args!, binder/member alignment, Pointer re-binding and the rename_all table; the produced bytes follow from format_args! semantics and are not executed. Plus: the attribute never re-emits a trailing separator, per-variant state is overwritten on every iteration (ITER-FRESH), rename_all merge/inheritance evaluated on all None/Some cases (OPT-ALG), literal parsing equals std's. Also: TRAIT-TABLE (placeholder per trait against std's table), LIT-VERBATIM (no template interpolates the literal's unescaped value).",
            "note": "Trusts format_args!. Values at run time not decided.", "technique": T_TPL + "; " + T_DEC},
    "C03": {"text": "Grammar-model check: a PEG extracted from the parser's source on every run equals std::fmt's documented grammar on all table rules and on a bounded exhaustive enumeration of literals (46k quick / ~10^6 thorough), counter discipline incl. `.*`; positional index must denote an argument for transparency.",
            "note": "Strength bounded by extraction fidelity (guarded by the combinator-shape rule, fail-closed) and by the enumeration bound; reference grammar read from the toolchain docs.", "technique": "static analysis: grammar extraction from source (abstract interpretation of parser combinators) + bounded equivalence of two grammar models"},
    "C04": {"text": "Bounds are sufficient/not excessive as far as visible in the generator: each emitted bound is guarded on the same type, the generic-detection traversal covers every syn variant and type-bearing field (compared with the syn sources), lookups agree with their sibling, body and bounds share decisions, literal parsing equals std's. Plus: a generics test gates only bounds about the tested binding (GUARD-SCOPE), detectors leave early only with a positive answer, every Expansion is asked for bounds unconditionally. Also: TRAIT-TABLE, BOUNDS-APPEND, the merge of repeated bound(..) attributes appends.",
            "note": "Completeness of bounded_types as an algorithm is not proved.", "technique": T_DEC + "; traversal exhaustiveness against the dependency's AST definition"},
    "C05": {"text": "Pass-through decision is total and exact: all FormatSpec fields veto transparency, one placeholder only, index 0 only, named outer binding total, every attribute-body site asks transparent_call_on_fields first and falls back unconditionally, delegation shape. Plus: the 'exactly one placeholder' question gets std's answer on 17k generated literals (TRANSP-EQUIV over the extracted grammar). Also: SHARED-ATTR (variants receive the enum-level format unfiltered; the per-variant decision alone chooses transparency).",
            "note": "Output text under each outer spec not decided. Two scanner findings (C16) are known and repeated here.", "technique": T_DEC},
    "C06": {"text": "Builder-shape rules for generate_body, RAW-ID over every rustc-resolved Ident->text conversion, and method-by-method effect-skeleton equality between src/fmt.rs::DebugTuple and the toolchain's core::fmt::DebugTuple. Also: struct state types equal core's, overridden Write methods executed against core's (bisimulation of the pad adapters), TRAVERSE, impl header and bounds rules.",
            "note": "One known finding (pretty branch drops formatter options; not fixable on MSRV). Output equality for all values not decided beyond skeleton equality.", "technique": "static analysis: sibling cross-check of two implementations (effect skeletons) + template shape rules + MIR-located conversions"},
    "C07": {"text": "Compile-time clauses of the shared-attribute logic: rejection precedes generation and covers modifiers and non-Display, Debug rejects enum-level formats, name lookups agree, body/bounds share the shared_attr_info decisions, wrap template, rename before split. Also: Engine G rules (whether a literal is a bare {_variant} is a parsing question), TRAIT-TABLE, REJECT-LEDGER, SHARED-ATTR.",
            "note": "The full three-way run-time decision and printed texts are not decided.", "technique": T_DEC},
    "C08": {"text": "Field order and impl set: (i, field) pairing, exactly one conversion per field, From decision table with a complete first pass, Into triples/kinds, Constructor single field list, attribute-merge symmetry over all kinds x fields. Plus: arity of listed tuple types (ARITY), Into's implicit impl set, accumulators never overwritten, enumerate indices count declaration positions, no order-changing adaptor, no exchanged arguments. Also: TPL-UFCS (no call on a user type without a cast), unconditional sub-attribute merges, REF-KINDS, impl headers.",
            "note": "Run-time identity of conversions not decided.", "technique": T_DEC + "; " + T_TPL},
    "C09": {"text": "Index-space typing (all fields vs enabled fields) of every subscript and matcher argument with spaces derived from the source, definitions of the enabled views, and the documented source-selection table. Plus: every per-field vector of MultiFieldData derives 1:1 from an enabled_* view, legacy flags resolve own-else-default on all cases (OPT-ALG), accumulating loops are left only through failure values.",
            "note": "Address identity at run time follows from the selected member expression; not executed.", "technique": "static analysis: typed-index (index-space) dataflow over the syn AST joined with rustc types + decision-table rules"},
    "C10": {"text": "Operand order and field-wise action for all inputs: template role rules for struct/enum/scalar/unary forms, error arms, one flag for Result wrapping, method names constant-evaluated against core's trait declarations, Sum/Product fold shape. Plus: the scalar/forward decision reads the resolved flag (RAW-FLAG), no exchanged arguments (ARG-SWAP), Generics helpers keep the where-clause. Also: TPL-UFCS (operator methods called fully qualified - found and fixed `self.0.add(rhs.0)`), POS-SEARCH (no position by structural-equality search), ERR-MSG, polarity table of the legacy parser, generics helpers visit every parameter.",
            "note": "Operator results for values not decided.", "technique": T_TPL + "; constant evaluation of name derivations"},
    "C11": {"text": "Accessors built per variant from one source, success arm returns its own binders, failure re-match over all variants carrying the original value, emission gating, TryInto grouping/patterns, view definitions, un-raw method names. Plus: TryInto groups every reference kind of the variant's own info unconditionally; legacy flags resolve own-else-default (OPT-ALG). Also: REF-KINDS (ref_types() evaluated on all eight flag combinations), ERR-MSG, generics helpers.",
            "note": "snake_case delegated to convert_case.", "technique": T_TPL + "; " + T_DEC},
    "C12": {"text": "Discriminant counter discipline, parenthesised explicit expressions (TPL-PREC over all expression splices), typed injectively-named constants, match only through them, repr table and merge, generic header. Plus: ReprInt is read over all attributes and consumes every other hint's body; the entry dispatches on the kind of item alone; cfg def-use and syn-capability implications. Also: the discriminant expression is the same for every enum; ERR-MSG; the repr parser follows helpers / consts.",
            "note": "Integer-domain sweep not done (language semantics of implicit discriminants assumed).", "technique": T_DEC + "; operator-adjacency rule for spliced expressions"},
    "C13": {"text": "Same case mapping on both sides, guard structure for colliding groups, fall-through error, field-less only, newtype delegation and error type, un-raw names, generic header. Plus: dispatch on derive_type, identity format_ident! of identifiers (strips r#) flagged, cfg def-use and syn-capability implications. Also: ERR-MSG (FromStrError renders the same under any caller flags).",
            "note": "Verdict for particular strings not decided.", "technique": T_DEC},
    "C14": {"text": "Single enabled field selection with original positional names, direct/forwarded shapes with projected associated types, RefType tables, AsRef kind decision and autoref-specialisation levels between src/as.rs and the call site. Plus: the &mut ExtractRef impls equal the & ones modulo mut (bounds included), generics search positions, enumerate indices, resolved forward flag. Also: TPL-UFCS, REF-KINDS, generics helpers.",
            "note": "Addresses / iteration contents not decided.", "technique": T_TPL + "; sibling/level consistency between facade impls and generated call"},
    "C15": {"text": "Static name-resolution analysis of all 247 templates: no path root, macro name or trait-method call resolves through the caller's scope; every derive_more:: path (incl. constant-evaluated interpolated trait names) is exported under the features that compile the emitter. Plus: every `derive_more::..::<Y>::<z>(` call in a template is a trait path, a variant, an inherent function (looked up in the facade / rust-src) or a free function (TPL-ASSOC). Also: TPL-UFCS (interpolated method names and type-qualified calls).",
            "note": "Tokens from the user's item are the user's own.", "technique": "static analysis: who-may-be-named lint over template token trees + cfg implication for exports"},
    "C16": {"text": "Scanner alternatives compared row by row with Rust's comma-in-expression contexts, catch-all last, ident-only rule, alias test vs `==`/spacing, loop progress and failure at end of input, verbatim re-emission. Plus: alias lookup agreement, implicit-counter discipline, no trailing separator re-emitted. Also: the leaf scanners consume exactly one token tree.",
            "note": "Two known findings (cast-type generics, binary `|`). Agreement on all expressions is undecidable; the table is the claim.", "technique": "static analysis: table comparison between a hand-written scanner's alternatives and the language grammar's rows"},
    "C17": {"text": "Untyped parser: duplicate check precedes every return, rejecting arms, allow-lists, slots written once; typed attributes: merge overrides enumerated (reject / concatenate / symmetric), synonyms, legacy detection on every path, positional-conflict diagnostics present and returned. Plus: REJECT-LEDGER over all 82 diagnostic sites (condition chains, raised check), OPT-ALG for singular attribute fields and legacy flags, accumulators and accumulating loops. Also: polarity table `name` -> on / `not(name)` -> off for every legacy parameter; the repr parser.",
            "note": "Token-equality of expansions for synonymous spellings not proved.", "technique": T_DEC + " (error-discipline / must-precede rules)"},
    "C18": {"text": "PANIC-LEDGER: every panic-capable MIR site of the crate is diagnostic / input-guaranteed / guarded (guard re-recognised each run) / audited; closed sets re-derived; recursive SCCs need a termination argument; parser and scanner loops progress; leaf slicing shapes; traversal wildcards unreachable; index spaces. Recursion is now checked for structural descent at every recursive call instead of a name table. Also EXT-PRE: preconditions of the dependencies' functions (syn, proc-macro2, quote, convert_case) read from their sources; every call into one is guarded / structurally recognised / audited (found and fixed the `#[into(i32 i64)]` panic). Budgets per file and kind.",
            "note": "A new unproved site is reported even if safe (sound-analysis style residual false-alarm risk, stated). Dependencies' panics: direct preconditions only (EXT-PRE); panics deeper inside a dependency are out of scope.", "technique": "static analysis: panic-site enumeration on type-checked MIR + guard recognition (dominating conditions) + call-graph SCC termination audit"},
    "C19": {"text": "Decided on rustc's MIR with every feature on: every HashMap/HashSet instantiation uses the fixed-state hasher, no resolved call reaches an ambient-state API, no pointer->integer cast, no static/thread_local/lazy state survives an expansion.",
            "note": "Purity of dependencies and of DefaultHasher::default() assumed.", "technique": "static analysis: effect/ambient-authority analysis over type-checked MIR (rustc_private driver), hashed-collection instantiation audit", "engine": "dmmir"},
    "C20": {"text": "cfg algebra: gate of emitting/using code implies gate of the definition/export over all feature assignments (exhaustive truth tables), manifests wired consistently; rustc type-check of both crates for each single feature x {std,no-std} (quick) and all pairs + --tests (thorough). Plus two static pre-checks that need no build: CFG-DEFUSE (456 uses of cfg-gated names) and SYN-FEAT (rustc-resolved calls needing syn/extra-traits, syn/visit or an optional dependency lie under features that enable it).",
            "note": "Run-time 'test program passes' not decided. One guard-checked exception (add_like enum templates under `mul` alone).", "technique": "static analysis: cfg-predicate implication (exhaustive evaluation) + compiler type-check per feature configuration", "engine": "cfg"},
}
