"""A tiny interpreter for iterator pipelines over symbolic lists (VIEW-DEF and friends).

`self.fields.iter().zip(self.full_meta_infos.iter().map(|i| i.enabled)).filter(|(_, e)| *e).map(|(f, _)| *f).collect()`
is evaluated on lists of *symbols* (`fields#0`, `fields#1`, ..) and concrete flag vectors, so that a rule can state what a
view must contain ("the elements whose flag is set, in order") and compare for every flag vector of a small length -
whatever the spelling: helper functions of the same impl are entered, adaptors that do not change the sequence are the
identity. The source tree is interpreted, nothing is compiled or run. Anything not understood raises `Unsupported` (the
caller falls back / fails closed); it never yields a definite value.
"""
from . import ast as A


class Unsupported(Exception):
    pass


IDENTITY = {"iter", "into_iter", "copied", "cloned", "iter_mut", "by_ref", "collect", "to_vec", "to_owned", "clone", "as_slice"}


class Interp:
    def __init__(self, self_fields, self_methods, helpers, depth=0):
        self.self_fields = self_fields  # {"fields": [..], ..}
        self.self_methods = self_methods  # {"field_idents": [..]} nullary methods with known value
        self.helpers = helpers  # {name: fn}
        self.depth = depth

    def ev(self, e, env):
        k = A.kind(e)
        if k in ("Expr::Paren", "Expr::Group", "Expr::Reference"):
            return self.ev(e["expr"], env)
        if k == "Expr::Unary" and A.kind(e["op"]) == "UnOp::Deref":
            return self.ev(e["expr"], env)
        if k == "Expr::Lit":
            r = A.render(e)
            if r.isdigit():
                return int(r)
            raise Unsupported(f"literal {r}")
        if k == "Expr::Path":
            nm = A.path_str(e)
            if nm in env:
                return env[nm]
            raise Unsupported(f"name {nm}")
        if k == "Expr::Field":
            base = e["base"]
            m = e["member"]
            nm = m["0"]["sym"] if A.kind(m) == "Member::Named" else int(m["0"]["index"])
            if A.kind(A.peel(base)) == "Expr::Path" and A.path_str(A.peel(base)) == "self" and "self" not in env:
                if nm in self.self_fields:
                    return list(self.self_fields[nm])
                raise Unsupported(f"self.{nm}")
            b = self.ev(base, env)
            if isinstance(b, dict) and nm in b:
                return b[nm]
            if isinstance(b, tuple) and isinstance(nm, int) and nm < len(b):
                return b[nm]
            raise Unsupported(f"field {nm}")
        if k == "Expr::Tuple":
            return tuple(self.ev(x, env) for x in e["elems"])
        if k == "Expr::Range":
            lo = self.ev(e["start"], env) if e.get("start") else 0
            hi = self.ev(e["end"], env) if e.get("end") else None
            if isinstance(lo, int) and isinstance(hi, int) and A.kind(e.get("limits")) != "RangeLimits::Closed":
                return list(range(lo, hi))
            raise Unsupported("range")
        if k == "Expr::MethodCall":
            m = e["method"]["sym"]
            recv = A.peel(e["receiver"])
            if A.kind(recv) == "Expr::Path" and A.path_str(recv) == "self" and "self" not in env:
                if m in self.self_methods and not e["args"]:
                    return list(self.self_methods[m])
                if m in self.helpers:
                    return self.call(self.helpers[m], [self.ev(a, env) for a in e["args"]])
                raise Unsupported(f"self.{m}()")
            v = self.ev(e["receiver"], env)
            args = e["args"]
            if m in IDENTITY and not args:
                return v
            if not isinstance(v, list):
                raise Unsupported(f".{m} on non-sequence")
            if m == "len" and not args:
                return len(v)
            if m == "enumerate" and not args:
                return [(i, x) for i, x in enumerate(v)]
            if m == "zip" and len(args) == 1:
                o = self.ev(args[0], env)
                if not isinstance(o, list):
                    raise Unsupported("zip arg")
                return list(zip(v, o))
            if m == "map" and len(args) == 1:
                return [self.apply(args[0], x, env) for x in v]
            if m == "filter" and len(args) == 1:
                out = []
                for x in v:
                    c = self.apply(args[0], x, env)
                    if not isinstance(c, bool):
                        raise Unsupported("filter predicate")
                    if c:
                        out.append(x)
                return out
            if m == "filter_map" and len(args) == 1:
                out = []
                for x in v:
                    c = self.apply(args[0], x, env)
                    if c is None:
                        continue
                    if isinstance(c, tuple) and len(c) == 2 and c[0] == "Some":
                        out.append(c[1])
                    else:
                        raise Unsupported("filter_map result")
                return out
            if m == "rev" and not args:
                return list(reversed(v))
            if m == "skip" and len(args) == 1:
                n = self.ev(args[0], env)
                return v[n:] if isinstance(n, int) else (_ for _ in ()).throw(Unsupported("skip"))
            if m == "take" and len(args) == 1:
                n = self.ev(args[0], env)
                return v[:n] if isinstance(n, int) else (_ for _ in ()).throw(Unsupported("take"))
            raise Unsupported(f".{m}()")
        if k == "Expr::Call":
            f = A.path_str(e["func"]) or ""
            if f == "Some" and len(e["args"]) == 1:
                return ("Some", self.ev(e["args"][0], env))
            if f.split("::")[-1] in self.helpers and f.startswith(("Self::", "self::")) or f in self.helpers:
                return self.call(self.helpers[f.split("::")[-1]], [self.ev(a, env) for a in e["args"]])
            if f in ("Iterator::zip", "iter::zip") and len(e["args"]) == 2:
                a, b = (self.ev(x, env) for x in e["args"])
                return list(zip(a, b))
            raise Unsupported(f"call {f}")
        if k == "Expr::Block" and len(e["block"]["stmts"]) == 1 and A.kind(e["block"]["stmts"][0]) == "Stmt::Expr":
            return self.ev(e["block"]["stmts"][0]["0"], env)
        if k == "Expr::MethodCall" or k == "Expr::Closure":
            raise Unsupported(k)
        if k == "Expr::If" and A.kind(e["cond"]) != "Expr::Let":
            c = self.ev(e["cond"], env)
            if c is True:
                return self.block(e["then_branch"], env)
            if c is False and e.get("else_branch"):
                eb = e["else_branch"][1] if isinstance(e["else_branch"], list) else e["else_branch"]
                return self.ev(eb, env)
            raise Unsupported("if")
        if k == "Expr::Path" or k is None:
            raise Unsupported(str(k))
        if k == "Expr::Binary" and A.kind(e["op"]) in ("BinOp::And", "BinOp::Or"):
            l, r = self.ev(e["left"], env), self.ev(e["right"], env)
            if isinstance(l, bool) and isinstance(r, bool):
                return (l and r) if A.kind(e["op"]) == "BinOp::And" else (l or r)
        if k == "Expr::Unary" and A.kind(e["op"]) == "UnOp::Not":
            v = self.ev(e["expr"], env)
            if isinstance(v, bool):
                return not v
        raise Unsupported(str(k))

    def block(self, blk, env):
        st = blk["stmts"]
        env = dict(env)
        for s_ in st[:-1]:
            if A.kind(s_) == "Stmt::Local" and s_.get("init") and A.kind(s_["pat"]) == "Pat::Ident":
                env[s_["pat"]["ident"]["sym"]] = self.ev(s_["init"]["expr"], env)
            else:
                raise Unsupported("statement")
        last = st[-1] if st else None
        if last is None or A.kind(last) != "Stmt::Expr":
            raise Unsupported("tail")
        return self.ev(last["0"], env)

    def bind(self, pat, val, env):
        k = A.kind(pat)
        if k == "Pat::Type":
            return self.bind(pat["pat"], val, env)
        if k == "Pat::Wild":
            return
        if k == "Pat::Ident":
            env[pat["ident"]["sym"]] = val
            return
        if k == "Pat::Reference":
            return self.bind(pat["pat"], val, env)
        if k == "Pat::Tuple" and isinstance(val, tuple) and len(val) == len(pat["elems"]):
            for p_, v_ in zip(pat["elems"], val):
                self.bind(p_, v_, env)
            return
        raise Unsupported(f"pattern {k}")

    def apply(self, cl, x, env):
        cl = A.peel(cl)
        if A.kind(cl) != "Expr::Closure" or len(cl["inputs"]) != 1:
            raise Unsupported("callee")
        e2 = dict(env)
        self.bind(cl["inputs"][0], x, e2)
        return self.ev(cl["body"], e2)

    def call(self, fn, args):
        if self.depth > 3 or fn.block is None:
            raise Unsupported("helper depth")
        names = [A.pat_idents(p["0"]["pat"]) for p in fn.node["sig"]["inputs"] if A.kind(p) == "FnArg::Typed"]
        if len(names) != len(args) or any(len(n) != 1 for n in names):
            raise Unsupported("helper parameters")
        sub = Interp(self.self_fields, self.self_methods, self.helpers, self.depth + 1)
        return sub.block(fn.block, {n[0]: a for n, a in zip(names, args)})
