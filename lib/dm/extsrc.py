"""Preconditions of the dependencies' public functions, read from the dependency sources the build uses.

The versions come from /repo/Cargo.lock, the sources from the cargo registry (the same files rustc compiles offline).
A function *has a precondition* when its documentation has a `# Panics` section, or its body contains an explicit
`panic!` / `assert!` / `assert_eq!` / `assert_ne!` / `unreachable!` / `unimplemented!` (not `debug_assert*`), or it
calls a private function of the same file that does (one level). Nothing here is executed.
"""
import glob
import os
import re

DEPS = {"syn": "syn", "proc-macro2": "proc_macro2", "quote": "quote", "convert_case": "convert_case", "unicode-xid": "unicode_xid"}
# `unreachable!` marks an internal invariant of the dependency, not a precondition on its caller: not counted
PANIC_RE = re.compile(r"(?<![A-Za-z0-9_])(panic|assert|assert_eq|assert_ne|unimplemented|todo)!\s*[\(\[{]")


def lock_text(repo):
    """Cargo.lock is git-ignored in this repository: a scratch worktree of it has none, and cargo would then resolve the
    same versions from the (offline, fixed) registry cache - so the lock file of /repo stands in for it."""
    for p in (os.path.join(repo, "Cargo.lock"), "/repo/Cargo.lock"):
        try:
            with open(p) as f:
                return f.read()
        except OSError:
            continue
    return ""


def lock_versions(repo):
    txt = lock_text(repo)
    out = {}
    for m in re.finditer(r'name = "([^"]+)"\nversion = "([^"]+)"', txt):
        out.setdefault(m.group(1), []).append(m.group(2))
    return out


def dep_versions(repo):
    """the version of each dependency that derive_more-impl links (the lock file may hold several `syn`s: the one
    matching impl/Cargo.toml's requirement is taken)"""
    vs = lock_versions(repo)
    toml = open(os.path.join(repo, "impl", "Cargo.toml")).read()
    out = {}
    for name in DEPS:
        cands = vs.get(name, [])
        if not cands:
            continue
        m = re.search(r'^%s\s*=\s*(?:\{[^}]*version\s*=\s*)?"([^"]+)"' % re.escape(name), toml, re.M)
        major = m.group(1).lstrip("^~=").split(".")[0] if m else None
        pick = [v for v in cands if major is None or v.split(".")[0] == major] or cands
        out[name] = sorted(pick, key=lambda v: [int(x) if x.isdigit() else 0 for x in re.split(r"[.+-]", v)])[-1]
    return out


def registry_dir(name, version):
    hits = glob.glob(os.path.expanduser(f"~/.cargo/registry/src/*/{name}-{version}"))
    return hits[0] if hits else None


def _blank(src):
    """comments and string/char literals replaced by spaces (same length), doc comments kept separately"""
    out = list(src)
    i, n = 0, len(src)
    while i < n:
        c = src[i]
        if src.startswith("//", i):
            j = src.find("\n", i)
            j = n if j < 0 else j
            for k in range(i, j):
                out[k] = " "
            i = j
        elif src.startswith("/*", i):
            depth, j = 1, i + 2
            while j < n and depth:
                if src.startswith("/*", j):
                    depth += 1
                    j += 2
                elif src.startswith("*/", j):
                    depth -= 1
                    j += 2
                else:
                    j += 1
            for k in range(i, j):
                if out[k] != "\n":
                    out[k] = " "
            i = j
        elif c == '"' or (c == "r" and re.match(r'r#*"', src[i:])) or (c == "b" and re.match(r'b"', src[i:])):
            m = re.match(r'b?r(#*)"', src[i:])
            if m:
                end = '"' + m.group(1)
                j = src.find(end, i + len(m.group(0)))
                j = n if j < 0 else j + len(end)
            else:
                j = i + (2 if c == "b" else 1)
                while j < n and src[j] != '"':
                    j += 2 if src[j] == "\\" else 1
                j += 1
            for k in range(i + 1, j - 1):
                if out[k] != "\n":
                    out[k] = " "
            i = j
        elif c == "'":
            m = re.match(r"'(\\.[^']*|[^'\\])'", src[i:])
            if m:
                for k in range(i + 1, i + len(m.group(0)) - 1):
                    out[k] = " "
                i += len(m.group(0))
            else:
                i += 1
        else:
            i += 1
    return "".join(out)


def scan_file(path):
    """[{name, owner, public, doc_panics, explicit, calls, line}] for every fn with a body"""
    src = open(path, encoding="utf-8", errors="replace").read()
    code = _blank(src)
    fns = []
    # item headers with their brace spans
    stack = []  # (kind, name, open_index)
    i, n = 0, len(code)
    header_re = re.compile(r"\b(impl|trait|fn|mod)\b")
    pos = 0
    events = []
    for m in header_re.finditer(code):
        events.append((m.start(), m.group(1)))
    # walk braces, attributing each `{` to the nearest preceding header not yet opened
    pending = None
    ev_i = 0
    depth = 0
    open_items = []  # (depth, kind, name, start, header_start)
    while i < n:
        while ev_i < len(events) and events[ev_i][0] <= i:
            st, kind = events[ev_i]
            ev_i += 1
            if st < i:
                continue
            # header text up to `{` or `;`
            j = st
            par = 0
            while j < n and not (code[j] in "{;" and par == 0):
                if code[j] in "(<[":
                    par += 1 if code[j] != "<" else 0
                elif code[j] in ")]":
                    par -= 1
                j += 1
            if j < n and code[j] == "{":
                pending = (kind, code[st:j], st, j)
        c = code[i]
        if c == "{":
            depth += 1
            if pending and pending[3] == i:
                kind, hdr, st, _ = pending
                open_items.append((depth, kind, hdr, i, st))
                pending = None
        elif c == "}":
            if open_items and open_items[-1][0] == depth:
                d, kind, hdr, ob, st = open_items.pop()
                if kind == "fn":
                    body = code[ob : i + 1]
                    mname = re.match(r"fn\s+(r#)?([A-Za-z_][A-Za-z0-9_]*)", hdr)
                    if mname:
                        owner = None
                        trait_ = None
                        for od, ok, oh, _, _ in reversed(open_items):
                            if ok in ("impl", "trait"):
                                owner = _owner_name(ok, oh)
                                trait_ = _trait_name(ok, oh)
                                break
                            if ok == "fn":
                                owner = "<local>"
                                break
                        pre = src[max(0, st - 4000) : st]
                        # doc comment block directly above (attributes allowed in between)
                        lines = pre.split("\n")
                        doc = []
                        for ln in reversed(lines[:-1] if lines and not lines[-1].strip().startswith("///") else lines):
                            s_ = ln.strip()
                            if s_.startswith("///") or s_.startswith("#[") or s_.startswith("//") or s_ == "" and False:
                                doc.append(s_)
                            else:
                                break
                        vis_txt = lines[-1] if lines else ""
                        fns.append(
                            {
                                "name": mname.group(2),
                                "owner": owner,
                                "trait": trait_,
                                "public": bool(re.search(r"\bpub\b", vis_txt)) or any(ok == "trait" for _, ok, _, _, _ in open_items[-1:]) or (open_items and open_items[-1][1] == "impl" and " for " in open_items[-1][2]),
                                "doc_panics": any("# Panics" in d_ for d_ in doc),
                                "explicit": sorted({m_.group(1) for m_ in PANIC_RE.finditer(body) if not code[max(0, ob + m_.start() - 6) : ob + m_.start()].endswith("debug_")}),
                                "calls": set(re.findall(r"(?<![A-Za-z0-9_.:])([a-z_][a-z0-9_]*)\s*(?:::<[^>]*>)?\(", body)),
                                "line": src.count("\n", 0, st) + 1,
                            }
                        )
            depth -= 1
        i += 1
    # trait method declarations without body but with `# Panics` docs (`fn advance_to(&self, fork: &Self);`)
    for m in re.finditer(r"((?:[ \t]*///[^\n]*\n)+)[ \t]*(?:#\[[^\n]*\n[ \t]*)*fn\s+([a-z_][a-z0-9_]*)[^{;]*;", src):
        if "# Panics" in m.group(1):
            owner = None
            before = code[: m.start()]
            tm = list(re.finditer(r"\btrait\s+([A-Za-z_][A-Za-z0-9_]*)", before))
            if tm:
                owner = tm[-1].group(1)
            fns.append({"name": m.group(2), "owner": owner, "trait": None, "public": True, "doc_panics": True, "explicit": [], "calls": set(), "line": src.count("\n", 0, m.start()) + 1})
    return fns


def _owner_name(kind, hdr):
    hdr = re.sub(r"\s+", " ", hdr)
    if kind == "trait":
        m = re.match(r"trait\s+([A-Za-z_][A-Za-z0-9_]*)", hdr)
        return m.group(1) if m else None
    # impl<..> [Trait for] Type<..> [where ..]
    h = hdr[4:].strip()
    if h.startswith("<"):
        d = 0
        for k, ch in enumerate(h):
            if ch == "<":
                d += 1
            elif ch == ">":
                d -= 1
                if d == 0:
                    h = h[k + 1 :].strip()
                    break
    h = h.split(" where ")[0]
    if " for " in h:
        h = h.split(" for ", 1)[1]
    h = h.strip().lstrip("&").replace("mut ", "").strip()
    m = re.match(r"(?:[A-Za-z_][A-Za-z0-9_]*::)*([A-Za-z_][A-Za-z0-9_]*)", h)
    return m.group(1) if m else None


def norm_trait(t):
    """`std::iter::Extend<syn::punctuated::Pair<T, P>>` -> `Extend<Pair<T,P>>`"""
    return re.sub(r"\s+", "", re.sub(r"(?:[A-Za-z_][A-Za-z0-9_]*::)+", "", t or "")) or None


def _trait_name(kind, hdr):
    if kind != "impl":
        return None
    hdr = re.sub(r"\s+", " ", hdr)
    h = hdr[4:].strip()
    if h.startswith("<"):
        d = 0
        for k, ch in enumerate(h):
            if ch == "<":
                d += 1
            elif ch == ">":
                d -= 1
                if d == 0:
                    h = h[k + 1 :].strip()
                    break
    h = h.split(" where ")[0]
    if " for " not in h:
        return None
    return norm_trait(h.split(" for ", 1)[0].strip())


def preconditions(repo):
    """{(crate, owner, fn): [{"why", "trait", "file", "line"}, ..]} and the versions read"""
    out = {}
    versions = dep_versions(repo)
    for name, ver in versions.items():
        d = registry_dir(name, ver)
        if d is None:
            continue
        crate = DEPS[name]
        for path in sorted(glob.glob(os.path.join(d, "src", "**", "*.rs"), recursive=True)):
            rel = os.path.relpath(path, d)
            if "/tests" in rel or rel.endswith("tests.rs"):
                continue
            fns = scan_file(path)
            private_flagged = {f["name"] for f in fns if (f["explicit"] or f["doc_panics"])}
            for f in fns:
                why = None
                if f["doc_panics"]:
                    why = "documented `# Panics`"
                elif f["explicit"]:
                    why = "explicit " + "/".join(x + "!" for x in f["explicit"])
                else:
                    via = sorted(c for c in f["calls"] if c in private_flagged and c != f["name"])
                    if via:
                        why = "calls " + ", ".join(via[:3]) + " (which can panic)"
                if why:
                    out.setdefault((crate, f["owner"], f["name"]), []).append({"why": why, "trait": f.get("trait"), "file": f"{name}-{ver}/{rel}", "line": f["line"]})
    return out, versions
