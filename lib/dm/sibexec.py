"""Finite-case symbolic execution of the Debug builder methods (SIB-EXEC).

`src/fmt.rs::DebugTuple` is a re-implementation of `core::fmt::DebugTuple`. What its methods *do* depends on a finite
abstraction of the builder's state - number of fields so far (0, 1, >=2), pretty flag, empty name, result so far - and
consists of a sequence of effects: a literal written to the formatter or to the padding adapter, the value formatted
through one of them (inheriting the caller's options, or through a fresh `format_args!`), the field counter bumped.
This module evaluates the *source* (syn tree) of such a method on every abstract state and returns the effect trace, so
that the copy and the toolchain's original can be compared case by case, independently of how the control flow is
written (early return vs nested if, helper methods, `for` vs `try_for_each`, local aliases).
Anything outside the modelled fragment raises Unsupported (the caller then falls back to a textual comparison).
"""
from . import ast as A


class Unsupported(Exception):
    pass


class _Return(Exception):
    def __init__(self, v):
        self.v = v


OK = ("ok",)
UNIT = ("unit",)


class Machine:
    def __init__(self, impl_fns, state, params, closure_params=()):
        """impl_fns: {method name: Fn} of the same impl (for inlining helpers); state: dict of self.<field> values;
        params: {name: abstract value}"""
        self.fns = impl_fns
        self.self = dict(state)
        self.trace = []
        self.depth = 0
        self.all_fns = {}  # "Type::name" -> Fn (associated functions of other types of the file, for inlining)
        self.self_ty = None

    # ---- helpers
    def target(self, e, env):
        """'fmt' | 'pad' for an expression denoting a formatter-like sink"""
        e = _strip(e)
        k = A.kind(e)
        if k == "Expr::Path":
            nm = A.path_str(e)
            v = env.get(nm)
            if isinstance(v, tuple) and v and v[0] == "sink":
                return v[1]
            raise Unsupported(f"sink `{nm}`")
        if k == "Expr::Field":
            r = A.render(e)
            if r in ("self.fmt", "self.formatter", "self.buf"):
                return self.self.get("__sink__", "fmt")
            raise Unsupported(f"sink `{r}`")
        if k == "Expr::Call" and A.kind(e["func"]) == "Expr::Path":
            # an adapter built in place: `Padded::new(self.fmt).write_str(..)`
            fn_ = A.path_str(e["func"]) or ""
            if fn_.split("::")[-1] in ("new", "wrap") and fn_.split("::")[0] in ("Padded", "PadAdapter") and e["args"]:
                self.target(e["args"][0], env)
                return "pad"
        raise Unsupported(f"sink expr {k}")

    def bump(self, v):
        return min(v + 1, 2) if isinstance(v, int) else v

    # ---- evaluation
    def block(self, blk, env):
        env = dict(env)
        last = UNIT
        for st in blk["stmts"]:
            last = self.stmt(st, env)
        return last

    def stmt(self, st, env):
        k = A.kind(st)
        if k == "Stmt::Local":
            init = st.get("init")
            v = self.ev(init["expr"], env) if init else ("uninit",)
            names = A.pat_idents(st["pat"])
            if len(names) == 1:
                env[names[0]] = v
            return UNIT
        if k == "Stmt::Expr":
            v = self.ev(st["0"], env)
            return UNIT if st.get("1") else v
        if k == "Stmt::Macro":
            raise Unsupported("statement macro")
        return UNIT

    def ev(self, e, env):
        k = A.kind(e)
        if k in ("Expr::Paren", "Expr::Group", "Expr::Reference"):
            return self.ev(e["expr"], env)
        if k == "Expr::Lit":
            lit = e["lit"]
            lk = A.kind(lit)
            if lk == "Lit::Str":
                return ("str", lit["token"]["value"])
            if lk == "Lit::Int":
                import re as _re

                return int(_re.match(r"\d+", A.render(e).replace("_", "")).group(0))
            if lk == "Lit::Bool":
                return A.render(e) == "true"
            if lk == "Lit::Char":
                return ("char", lit["token"]["value"])
            raise Unsupported(f"literal {lk}")
        if k == "Expr::Path":
            nm = A.path_str(e)
            if nm == "None":
                return ("none",)
            if nm in env:
                return env[nm]
            if nm == "self":
                return ("self",)
            if "::" in nm and nm.split("::")[-1][:1].isupper():
                # a unit variant / associated constant: a symbolic value
                segs = nm.split("::")
                if segs[0] == "Self" and self.self_ty:
                    segs[0] = self.self_ty
                return ("enum", "::".join(segs[-2:]))
            raise Unsupported(f"name `{nm}`")
        if k == "Expr::Field":
            r = A.render(e)
            if r.startswith("self."):
                f = r[5:]
                if f in ("fmt", "formatter", "buf"):
                    return ("sink", self.self.get("__sink__", "fmt"))
                f = {"state.on_newline": "on_newline"}.get(f, f)
                if f in self.self:
                    return self.self[f]
                if "__state_field__" in self.self and f == self.self["__state_field__"]:
                    return self.self["__state__"]
            raise Unsupported(f"field `{r}`")
        if k == "Expr::Unary":
            op = A.kind(e["op"])
            v = self.ev(e["expr"], env)
            if op == "UnOp::Not" and isinstance(v, bool):
                return not v
            if op == "UnOp::Deref":
                return v
            raise Unsupported("unary")
        if k == "Expr::Binary":
            op = A.kind(e["op"])
            if op == "BinOp::And":
                l = self.ev(e["left"], env)
                if l is False:
                    return False
                r = self.ev(e["right"], env)
                if isinstance(l, bool) and isinstance(r, bool):
                    return l and r
                raise Unsupported("&& operands")
            if op == "BinOp::Or":
                l = self.ev(e["left"], env)
                if l is True:
                    return True
                r = self.ev(e["right"], env)
                if isinstance(l, bool) and isinstance(r, bool):
                    return l or r
                raise Unsupported("|| operands")
            if op == "BinOp::AddAssign":
                pl = A.render(e["left"])
                if pl == "self.fields":
                    self.self["fields"] = self.bump(self.self["fields"])
                    self.trace.append(("fields+=1",))
                    return UNIT
                raise Unsupported(f"`{pl} += ..`")
            l, r = self.ev(e["left"], env), self.ev(e["right"], env)
            if op in ("BinOp::Eq", "BinOp::Ne") and isinstance(l, tuple) and isinstance(r, tuple) and l[:1] == ("enum",) and r[:1] == ("enum",):
                return (l == r) if op == "BinOp::Eq" else (l != r)
            if op in ("BinOp::Eq", "BinOp::Ne") and {l, r} == {("c",), ("char", "\n")} and "c_is_nl" in self.self:
                return self.self["c_is_nl"] if op == "BinOp::Eq" else not self.self["c_is_nl"]
            if isinstance(l, int) and isinstance(r, int) and not isinstance(l, bool):
                # l is abstract (0,1,2=many) when it comes from self.fields; comparisons with 0 / 1 are exact
                if op == "BinOp::Eq":
                    if r in (0, 1):
                        return l == r
                elif op == "BinOp::Ne":
                    if r in (0, 1):
                        return l != r
                elif op == "BinOp::Gt":
                    if r in (0, 1):
                        return l > r
                elif op == "BinOp::Ge":
                    if r in (1, 2):
                        return l >= r
                elif op == "BinOp::Lt":
                    if r in (1, 2):
                        return l < r
                elif op == "BinOp::Le":
                    if r in (0, 1):
                        return l <= r
            raise Unsupported(f"comparison {A.render(e)}")
        if k == "Expr::Assign":
            pl = A.render(e["left"])
            v = self.ev(e["right"], env)
            if pl.startswith("self."):
                f = {"state.on_newline": "on_newline"}.get(pl[5:], pl[5:])
                if "__state_field__" in self.self and f == self.self["__state_field__"]:
                    self.self["__state__"] = v
                    return UNIT
                self.self[f] = v
                if f == "on_newline":
                    self.trace.append(("on_newline=", v))
                return UNIT
            raise Unsupported(f"assignment to `{pl}`")
        if k == "Expr::If":
            if A.kind(e["cond"]) == "Expr::Let":
                raise Unsupported("if let")
            c = self.ev(e["cond"], env)
            if c is True:
                return self.block(e["then_branch"], env)
            if c is False:
                eb = e.get("else_branch")
                if not eb:
                    return UNIT
                x = eb[1] if isinstance(eb, list) else eb
                return self.block(x, env) if A.kind(x) == "Block" else self.ev(x, env)
            raise Unsupported(f"condition `{A.render(e['cond'])}` is not decided by the abstract state")
        if k == "Expr::Block":
            return self.block(e["block"], env)
        if k == "Expr::Return":
            raise _Return(self.ev(e["expr"], env) if e.get("expr") else UNIT)
        if k == "Expr::Try":
            v = self.ev(e["expr"], env)
            return UNIT if v == OK else v
        if k == "Expr::Call":
            f = e["func"]
            fn = A.path_str(f) if A.kind(f) == "Expr::Path" else None
            if fn == "Ok":
                return OK
            if fn in env and env[fn] == ("valuefn",):
                # core's `value_fmt(<sink>)`: the caller-supplied formatting closure, options inherited
                self.trace.append(("value", self.target(e["args"][0], env), "inherit"))
                return OK
            if fn and fn.split("::")[-1] in ("new", "wrap") and fn.split("::")[0] in ("Padded", "PadAdapter"):
                self.target(e["args"][0], env)
                return ("sink", "pad")
            if fn in ("Default::default",):
                return ("default",)
            if fn and fn in self.all_fns and self.depth < 4:
                g = self.all_fns[fn]
                params = [A.pat_idents(p["0"]["pat"]) for p in g.node["sig"]["inputs"] if A.kind(p) == "FnArg::Typed"]
                env2 = {}
                for ps_, a in zip(params, e["args"]):
                    if len(ps_) == 1:
                        env2[ps_[0]] = self.ev(a, env)
                saved = self.self_ty
                self.self_ty = fn.split("::")[0]
                self.depth += 1
                try:
                    v = self.block(g.block, env2)
                except _Return as r:
                    v = r.v
                self.depth -= 1
                self.self_ty = saved
                return v
            raise Unsupported(f"call `{A.render(e)[:60]}`")
        if k == "Expr::MethodCall":
            m = e["method"]["sym"]
            recv = e["receiver"]
            rr = A.render(recv)
            if m == "and_then" and rr == "self.result":
                if self.self["result"] != "ok":
                    return ("err",)
                cl = e["args"][0]
                if A.kind(cl) != "Expr::Closure":
                    raise Unsupported("and_then argument")
                try:
                    v = self.ev(cl["body"], env)
                except _Return as r:
                    v = r.v
                return OK if v in (OK, UNIT) else v
            if m == "is_pretty" and rr == "self":
                return self.self["pretty"]
            if m == "alternate":
                return self.self["pretty"]
            if m == "is_empty":
                v = self.ev(recv, env)
                if v == ("name",):
                    return ("name.is_empty",)
                raise Unsupported("is_empty")
            if m in ("write_str", "pad", "write_char"):
                t = self.target(recv, env)
                a = self.ev(e["args"][0], env)
                self.trace.append(("write" if m == "write_str" else m, t, a))
                return OK
            if m == "write_fmt":
                t = self.target(recv, env)
                arg = e["args"][0]
                if A.kind(arg) == "Expr::Macro" and A.path_last(arg["mac"]["path"]) == "format_args":
                    lit = next((x["lit"]["value"] for x in arg["mac"]["tokens"] if A.kind(x) == "Literal"), "?")
                    self.trace.append(("value", t, "fresh " + lit.replace("value", "")))
                    return OK
                raise Unsupported("write_fmt argument")
            if m == "fmt" and env.get(rr) == ("value",):
                self.trace.append(("value", self.target(e["args"][0], env), "inherit"))
                return OK
            if m == "ends_with" and env.get(rr) == ("piece",) and A.render(e["args"][0]) in ("'\\n'", '"\\n"', "'\n'"):
                return self.self["piece_ends_nl"]
            if m == "ends_with" and env.get(rr) == ("piece",):
                return self.self["piece_ends_nl"]
            if rr == "self" and m in self.fns and self.depth < 4:
                fn = self.fns[m]
                params = [A.pat_idents(p["0"]["pat"]) for p in fn.node["sig"]["inputs"] if A.kind(p) == "FnArg::Typed"]
                env2 = {}
                for ps_, a in zip(params, e["args"]):
                    if len(ps_) == 1:
                        env2[ps_[0]] = self.ev(a, env)
                self.depth += 1
                try:
                    v = self.block(fn.block, env2)
                except _Return as r:
                    v = r.v
                self.depth -= 1
                return v
            raise Unsupported(f"method `{rr}.{m}(..)`")
        if k == "Expr::Closure":
            return ("closure", e)
        if k == "Expr::Struct":
            out = {}
            for fv in e["fields"]:
                nm = fv["member"]["0"]["sym"] if A.kind(fv["member"]) == "Member::Named" else str(fv["member"]["0"]["index"])
                out[nm] = self.ev(fv["expr"], env)
            return ("struct", A.path_last(e["path"]), tuple(sorted((k_, str(v_)) for k_, v_ in out.items())))
        raise Unsupported(f"expression {k}")


def _strip(e):
    while A.kind(e) in ("Expr::Reference", "Expr::Paren", "Expr::Group"):
        e = e["expr"]
    return e


def run_method(fn, impl_fns, state, value_style):
    """trace of `fn` on the abstract builder state; value_style: 'dyn' (`value: &dyn Debug`) or 'closure' (`value_fmt: F`)"""
    m = Machine(impl_fns, state, {})
    env = {}
    for p in fn.node["sig"]["inputs"]:
        if A.kind(p) == "FnArg::Typed":
            ns = A.pat_idents(p["0"]["pat"])
            if len(ns) == 1:
                env[ns[0]] = ("value",) if value_style == "dyn" else ("valuefn",)
    try:
        v = m.block(fn.block, env)
    except _Return as r:
        v = r.v
    return m.trace, {k: v for k, v in m.self.items() if not k.startswith("__")}, v


def loop_body(fn):
    """(iterated expression text, pattern name, body block) of the single per-line loop of a write_str"""
    for x, _ in A.walk(fn.block):
        k = A.kind(x)
        if k == "Expr::ForLoop":
            return A.render(x["expr"]), A.pat_idents(x["pat"]), x["body"]
        if k == "Expr::MethodCall" and x["method"]["sym"] in ("try_for_each", "for_each") and x["args"] and A.kind(x["args"][0]) == "Expr::Closure":
            cl = x["args"][0]
            body = cl["body"]
            blk = body["block"] if A.kind(body) == "Expr::Block" else {"_": "Block", "stmts": [{"_": "Stmt::Expr", "0": body, "1": None}]}
            return A.render(x["receiver"]), [n for p in cl["inputs"] for n in A.pat_idents(p)], blk
    raise Unsupported("no per-line loop")


def run_loop_body(fn, impl_fns, on_newline, piece_ends_nl):
    it, names, blk = loop_body(fn)
    m = Machine(impl_fns, {"on_newline": on_newline, "piece_ends_nl": piece_ends_nl, "__sink__": "inner"}, {})
    env = {n: ("piece",) for n in names}
    try:
        m.block(blk, env)
    except _Return:
        pass
    return it, m.trace, m.self["on_newline"]


def adapter_state_field(file_fns, ctor_qual_prefix):
    """(field name, initial abstract value) of the single state field a pad adapter's constructor initialises besides its
    sink: `Padded::new` -> ("on_newline", True) / ("position", ("enum", "LinePosition::Start"))"""
    for q, fn in file_fns.items():
        if q.startswith(ctor_qual_prefix) and fn.name in ("new", "wrap"):
            for x, _ in A.walk(fn.block):
                if A.kind(x) == "Expr::Struct":
                    m = Machine({}, {}, {})
                    out = []
                    for fv in x["fields"]:
                        nm = fv["member"]["0"]["sym"] if A.kind(fv["member"]) == "Member::Named" else None
                        try:
                            v = m.ev(fv["expr"], {})
                        except Unsupported:
                            continue
                        if isinstance(v, bool) or (isinstance(v, tuple) and v[:1] == ("enum",)):
                            out.append((nm, v))
                    if len(out) == 1:
                        return out[0]
    return None


def step_loop_body(fn, impl_fns, all_fns, state_field, state, piece_ends_nl):
    """one iteration of the per-line loop from abstract adapter state `state`: (writes, next state)"""
    it, names, blk = loop_body(fn)
    st = {"piece_ends_nl": piece_ends_nl, "__sink__": "inner"}
    if state_field == "on_newline":
        st["on_newline"] = state
    else:
        st["__state_field__"] = state_field
        st["__state__"] = state
    m = Machine(impl_fns, st, {})
    m.all_fns = all_fns
    env = {n: ("piece",) for n in names}
    try:
        m.block(blk, env)
    except _Return:
        pass
    nxt = m.self["on_newline"] if state_field == "on_newline" else m.self["__state__"]
    return [t for t in m.trace if t[0] != "on_newline="], nxt


def run_write_char(fn, impl_fns, on_newline, c_is_nl):
    """`write_char(&mut self, c)` of a pad adapter on (on_newline, c == '\\n'): (writes to the inner sink, final on_newline)"""
    names = [A.pat_idents(p["0"]["pat"]) for p in fn.node["sig"]["inputs"] if A.kind(p) == "FnArg::Typed"]
    if len(names) != 1 or len(names[0]) != 1:
        raise Unsupported("write_char parameters")
    m = Machine(impl_fns, {"on_newline": on_newline, "c_is_nl": c_is_nl, "__sink__": "inner"}, {})
    try:
        m.block(fn.block, {names[0][0]: ("c",)})
    except _Return:
        pass
    return [t for t in m.trace if t[0] != "on_newline="], m.self["on_newline"]


def run_constructor(fn):
    """trace and resulting struct of `debug_tuple(fmt, name)` / `debug_tuple_new(fmt, name)`"""
    m = Machine({}, {}, {})
    names = [A.pat_idents(p["0"]["pat"]) for p in fn.node["sig"]["inputs"] if A.kind(p) == "FnArg::Typed"]
    if len(names) != 2 or any(len(x) != 1 for x in names):
        raise Unsupported("constructor parameters")
    env = {names[0][0]: ("sink", "fmt"), names[1][0]: ("name",)}
    try:
        v = m.block(fn.block, env)
    except _Return as r:
        v = r.v
    return m.trace, v
