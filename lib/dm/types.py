"""Join between the syntax tree (Engine S) and the type-checked locals (Engine M)."""
from . import ast as A


def fn_span_lines(fn):
    sp = A.span_of(fn.node)
    return fn.file.line(sp[0]), fn.file.line(sp[1])


def var_type(ctx, fn, name, before_off):
    """Type (string) of the local `name` visible at byte offset `before_off` in function `fn`:
    the nearest preceding declaration of that name inside the function's span, as typed by rustc."""
    f = fn.file
    lo, hi = fn_span_lines(fn)
    use_line = f.line(before_off)
    best = None
    for b, l in ctx.mir.locals_named(f.rel, name):
        if not (lo <= l["line"] <= hi):
            continue
        if l["line"] > use_line:
            continue
        if best is None or (l["line"], l["col"]) > (best["line"], best["col"]):
            best = l
    return best["ty"] if best else None


def classify(ty):
    """Coarse role of an interpolated value from its rustc type."""
    if ty is None:
        return "unknown"
    t = ty.replace("&", "").replace("mut ", "").strip()
    if t.startswith("syn::ImplGenerics"):
        return "IG"
    if t.startswith("syn::TypeGenerics"):
        return "TG"
    if "syn::WhereClause" in t:
        return "WC"
    if t == "syn::Ident" or t == "proc_macro2::Ident":
        return "Ident"
    if t.startswith("std::option::Option<") and "syn::Ident" in t:
        return "OptIdent"
    if t == "syn::Type":
        return "Type"
    if t == "syn::Expr" or t.startswith("parsing::Expr") or t.endswith("::Expr"):
        return "Expr"
    if t == "proc_macro2::TokenStream":
        return "Tokens"
    if t == "syn::Generics":
        return "Generics"
    if t == "syn::Path":
        return "Path"
    if t.startswith("std::vec::Vec<"):
        return "Vec"
    if t in ("std::string::String", "str"):
        return "Str"
    return "other"


# ---------------------------------------------------------------- lexical binding resolution


def _contains(node, off):
    sp = A.span_of(node)
    return sp is not None and sp[0] <= off <= sp[1]


def _pat_ident_nodes(p, name):
    return [x["ident"] for x, _ in A.find(p, "Pat::Ident") if x["ident"]["sym"] == name]


def bindings_in_scope(fn, name, off):
    """All bindings of `name` whose lexical scope contains byte offset `off`, innermost last."""
    out = []
    # fn parameters
    for inp in fn.sig["inputs"]:
        for idn in _pat_ident_nodes(inp, name):
            out.append({"kind": "param", "ident": idn, "init": None, "pat": inp, "start": idn["span"][0]})
    for x, ps in A.walk(fn.block):
        k = A.kind(x)
        if k == "Stmt::Local":
            sp = A.span_of(x)
            if sp is None or sp[1] > off:
                continue  # the binding is visible only after its own statement
            ids = _pat_ident_nodes(x["pat"], name)
            if not ids:
                continue
            blk = next((p for p in reversed(ps) if A.kind(p) == "Block"), None)
            if blk is None or not _contains(blk, off):
                continue
            out.append({"kind": "let", "ident": ids[0], "init": (x.get("init") or {}).get("expr"), "pat": x["pat"], "stmt": x, "start": ids[0]["span"][0]})
        elif k == "Expr::Closure":
            if not _contains(x["body"], off):
                continue
            for inp in x["inputs"]:
                for idn in _pat_ident_nodes(inp, name):
                    out.append({"kind": "closure", "ident": idn, "init": None, "pat": inp, "closure": x, "start": idn["span"][0]})
        elif k == "Arm":
            if not (_contains(x["body"], off) or (x.get("guard") and _contains(x["guard"], off))):
                continue
            for idn in _pat_ident_nodes(x["pat"], name):
                out.append({"kind": "arm", "ident": idn, "init": None, "pat": x["pat"], "arm": x, "start": idn["span"][0]})
        elif k == "Expr::ForLoop":
            if not _contains(x["body"], off):
                continue
            for idn in _pat_ident_nodes(x["pat"], name):
                out.append({"kind": "for", "ident": idn, "init": x["expr"], "pat": x["pat"], "start": idn["span"][0]})
        elif k in ("Expr::If", "Expr::While"):
            cond = x["cond"]
            body = x["then_branch"] if k == "Expr::If" else x["body"]
            if not _contains(body, off):
                continue
            for lt, _ in A.find(cond, "Expr::Let"):
                for idn in _pat_ident_nodes(lt["pat"], name):
                    out.append({"kind": "iflet", "ident": idn, "init": lt["expr"], "pat": lt["pat"], "start": idn["span"][0]})
    out.sort(key=lambda b: b["start"])
    return out


def resolve(fn, name, off):
    """The binding `name` refers to at offset `off` in `fn` (innermost enclosing, latest), or None."""
    bs = bindings_in_scope(fn, name, off)
    return bs[-1] if bs else None


def _linecol(f, off):
    line = f.line(off)
    start = f._starts[line - 1]
    col = len(f.bsrc[start:off].decode(errors="replace")) + 1
    return line, col


def binding_type(ctx, fn, b):
    """rustc's type for a binding found by resolve()."""
    if b is None:
        return None
    line, col = _linecol(fn.file, b["ident"]["span"][0])
    ls = ctx.mir.local_type(fn.file.rel, line, col)
    if not ls:
        return None
    return ls[0]["ty"]


def var_type_at(ctx, fn, name, off):
    b = resolve(fn, name, off)
    ty = binding_type(ctx, fn, b)
    if ty is None:
        ty = var_type(ctx, fn, name, off)  # fallback: nearest preceding declaration by position
    return ty, b
