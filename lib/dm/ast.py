"""Syntax-tree access for the rule engine.

`load()` runs /verif/tools/dmast (syn) over source files and returns per-file trees.
Everything here is generic tree plumbing; the rules live in dm/rules/*.py.
"""
import bisect
import json
import os
import subprocess
import tempfile

VERIF = os.path.dirname(os.path.dirname(os.path.dirname(os.path.abspath(__file__))))
REPO = os.environ.get("DM_REPO", "/repo")
DMAST = os.path.join(VERIF, "tools", "dmast", "target", "release", "dmast")


class AnchorLost(Exception):
    """A construct a rule is anchored on is no longer present: fail closed."""

    def __init__(self, anchor, why=""):
        super().__init__(f"{anchor}: {why}")
        self.anchor = anchor
        self.why = why


class SrcFile:
    def __init__(self, path, rel, src, ast):
        self.path = path
        self.rel = rel
        self.src = src
        self.bsrc = src.encode()
        self.ast = _fold_condition_aliases(ast)
        self._starts = [0]
        for i, b in enumerate(self.bsrc):
            if b == 10:
                self._starts.append(i + 1)

    def line(self, off):
        return bisect.bisect_right(self._starts, off)

    def text(self, lo, hi):
        return self.bsrc[lo:hi].decode(errors="replace")


def _fold_condition_aliases(ast):
    """`let c = <cond>; if c { .. }` (the name used nowhere else) is read as `if <cond> { .. }`: a condition that was
    given a name one statement earlier is the same condition. Only this adjacent, single-use form is folded; the
    evaluation order is unchanged by it."""

    def count_name(n, name):
        c = 0
        stack = [n]
        while stack:
            x = stack.pop()
            if isinstance(x, dict):
                if x.get("_") == "Expr::Path" and len(x["path"]["segments"]) == 1 and x["path"]["segments"][0]["ident"]["sym"] == name:
                    c += 1
                if x.get("_") == "Ident" and x.get("sym") == name and "span" in x and False:
                    c += 1
                if x.get("_") in ("Macro",) and isinstance(x.get("tokens"), list):
                    # a use inside macro tokens (quote!{ #name }, format!("{name}")): not foldable
                    def toks(ts):
                        for t in ts:
                            if isinstance(t, dict):
                                if t.get("_") == "Ident" and t.get("sym") == name:
                                    return True
                                if t.get("_") == "Group" and toks(t.get("stream", [])):
                                    return True
                                if t.get("_") == "Literal" and isinstance(t.get("lit"), dict) and "{" + name in (t["lit"].get("value") or ""):
                                    return True
                        return False

                    if toks(x["tokens"]):
                        c += 2
                stack.extend(v for k, v in x.items() if k != "_" and isinstance(v, (dict, list)))
            elif isinstance(x, list):
                stack.extend(v for v in x if isinstance(v, (dict, list)))
        return c

    def cond_name(c):
        neg = 0
        while isinstance(c, dict) and c.get("_") in ("Expr::Paren", "Expr::Unary"):
            if c["_"] == "Expr::Unary":
                if not (isinstance(c.get("op"), dict) and c["op"].get("_") == "UnOp::Not") and c.get("op") != "UnOp::Not":
                    return None
                neg += 1
            c = c["expr"]
        if isinstance(c, dict) and c.get("_") == "Expr::Path" and len(c["path"]["segments"]) == 1:
            return c["path"]["segments"][0]["ident"]["sym"]
        return None

    SIMPLE = ("Expr::Path", "Expr::MethodCall", "Expr::Call", "Expr::Field", "Expr::Macro", "Expr::Paren", "Expr::Lit", "Expr::Index", "Expr::Try")

    def subst(c, name, init, top=True):
        if isinstance(c, dict) and c.get("_") in ("Expr::Paren", "Expr::Unary"):
            d = dict(c)
            d["expr"] = subst(c["expr"], name, init, top and c.get("_") == "Expr::Paren")
            return d
        # `if name` reads `if <expr>`; under `!` a compound expression keeps its parentheses: `!(a && b)`
        if top or (isinstance(init, dict) and init.get("_") in SIMPLE):
            return init
        return {"_": "Expr::Paren", "attrs": [], "expr": init}

    def rewrite(x):
        if isinstance(x, list):
            return [rewrite(v) for v in x]
        if not isinstance(x, dict):
            return x
        x = {k: rewrite(v) for k, v in x.items()}
        if x.get("_") == "Block" and isinstance(x.get("stmts"), list):
            st = x["stmts"]
            out = []
            i = 0
            while i < len(st):
                a = st[i]
                b = st[i + 1] if i + 1 < len(st) else None
                folded = False
                if isinstance(a, dict) and a.get("_") == "Stmt::Local" and isinstance(b, dict) and b.get("_") == "Stmt::Expr" and isinstance(b.get("0"), dict) and b["0"].get("_") == "Expr::If":
                    pat = a.get("pat")
                    init = a.get("init")
                    if isinstance(pat, dict) and pat.get("_") == "Pat::Ident" and not pat.get("mutability") and not pat.get("by_ref") and not pat.get("subpat") and isinstance(init, dict) and init.get("diverge") is None:
                        name = pat["ident"]["sym"]
                        iff = b["0"]
                        if cond_name(iff["cond"]) == name and count_name(st[i + 1 :], name) == 1:
                            nb = dict(b)
                            nif = dict(iff)
                            nif["cond"] = subst(iff["cond"], name, init["expr"])
                            nb["0"] = nif
                            out.append(nb)
                            i += 2
                            folded = True
                if not folded:
                    out.append(a)
                    i += 1
            x["stmts"] = out
        return x

    return rewrite(ast)


def dump(paths):
    """Parse `paths` with dmast; returns {path: {"src","ast"}}. Fails closed."""
    if not os.path.exists(DMAST):
        raise SystemExit(f"dmast not built ({DMAST}); run /verif/bin/setup")
    fd, out = tempfile.mkstemp(suffix=".json", prefix="dmast-")
    os.close(fd)
    try:
        r = subprocess.run([DMAST, out] + list(paths), capture_output=True, text=True)
        if r.returncode != 0:
            raise SystemExit("dmast failed:\n" + r.stderr[-4000:])
        with open(out) as f:
            return json.load(f)
    finally:
        os.unlink(out)


def rs_files(root):
    res = []
    for d, _, fs in os.walk(root):
        for f in sorted(fs):
            if f.endswith(".rs"):
                res.append(os.path.join(d, f))
    return sorted(res)


_cache = {}


def load(repo=None):
    """All non-test sources of both crates: {rel: SrcFile}; rel like 'impl/src/utils.rs'."""
    repo = repo or REPO
    if repo in _cache:
        return _cache[repo]
    paths = rs_files(os.path.join(repo, "impl", "src")) + rs_files(os.path.join(repo, "src"))
    d = dump(paths)
    files = {}
    for p in paths:
        rel = os.path.relpath(p, repo)
        files[rel] = SrcFile(p, rel, d[p]["src"], d[p]["ast"])
    _cache[repo] = files
    return files


def load_files(paths):
    d = dump(paths)
    return {p: SrcFile(p, p, d[p]["src"], d[p]["ast"]) for p in paths}


# ---------------------------------------------------------------- generic tree helpers


def kind(n):
    return n.get("_") if isinstance(n, dict) else None


def children(n):
    if isinstance(n, dict):
        for k, v in n.items():
            if k != "_" and isinstance(v, (dict, list)):
                yield k, v
    elif isinstance(n, list):
        for i, v in enumerate(n):
            if isinstance(v, (dict, list)):
                yield i, v


def walk(n, parents=()):
    """Pre-order walk yielding (node, parents-tuple) for every dict node."""
    stack = [(n, parents)]
    while stack:
        x, ps = stack.pop()
        if isinstance(x, dict):
            yield x, ps
            nps = ps + (x,)
            for _, c in reversed(list(children(x))):
                stack.append((c, nps))
        elif isinstance(x, list):
            for c in reversed(x):
                if isinstance(c, (dict, list)):
                    stack.append((c, ps))


def find(n, k):
    ks = (k,) if isinstance(k, str) else tuple(k)
    for x, ps in walk(n):
        if x.get("_") in ks:
            yield x, ps


def ident(n):
    """Name of an Ident node (or None)."""
    if isinstance(n, dict) and n.get("_") == "Ident":
        return n["sym"]
    return None


def path_str(p):
    """'a::b::c' for a Path / Expr::Path / Type::Path node (generic args dropped)."""
    if p is None:
        return None
    k = kind(p)
    if k in ("Expr::Path", "Type::Path", "Pat::Path"):
        p = p["path"]
    if kind(p) != "Path":
        return None
    s = "::".join(seg["ident"]["sym"] for seg in p["segments"])
    return ("::" + s) if p.get("leading_colon") else s


def path_last(p):
    s = path_str(p)
    return s.split("::")[-1] if s else None


def is_path(e, name):
    return path_str(e) == name


def span_of(n):
    """(lo, hi) byte span covering every Ident/Punct/Group/Literal below n (None if none)."""
    lo = hi = None
    for x, _ in walk(n):
        sp = x.get("span")
        if isinstance(sp, list) and len(sp) == 2 and isinstance(sp[0], int):
            if lo is None or sp[0] < lo:
                lo = sp[0]
            if hi is None or sp[1] > hi:
                hi = sp[1]
        sp = x.get("apostrophe")
        if isinstance(sp, list) and len(sp) == 2 and isinstance(sp[0], int):
            if lo is None or sp[0] < lo:
                lo = sp[0]
    return (lo, hi) if lo is not None else None


def has_cfg_test(attrs):
    for a in attrs or []:
        m = a.get("meta")
        if kind(m) == "Meta::List" and path_str(m["path"]) == "cfg":
            toks = tokens_text(m["tokens"])
            if toks.replace(" ", "") == "test":
                return True
    return False


def attr_names(attrs):
    out = []
    for a in attrs or []:
        m = a.get("meta")
        p = m.get("path") if isinstance(m, dict) else None
        out.append(path_str(p))
    return out


def cfg_attrs(attrs):
    """token text of every #[cfg(..)] in attrs."""
    out = []
    for a in attrs or []:
        m = a.get("meta")
        if kind(m) == "Meta::List" and path_str(m["path"]) == "cfg":
            out.append(m["tokens"])
    return out


# ---------------------------------------------------------------- token trees

OPEN = {"Parenthesis": "(", "Brace": "{", "Bracket": "[", "None": ""}
CLOSE = {"Parenthesis": ")", "Brace": "}", "Bracket": "]", "None": ""}


def lit_repr(t):
    l = t["lit"]
    return l["repr"] if isinstance(l, dict) else str(l)


def punct_char(t):
    return t["char"]["value"] if isinstance(t["char"], dict) else t["char"]


def tokens_text(ts):
    """Compact textual rendering of a token list (for messages and keys, not for matching)."""
    out = []
    prev_joint = False
    for t in ts:
        k = kind(t)
        if k == "Ident":
            s = t["sym"]
        elif k == "Punct":
            s = punct_char(t)
        elif k == "Literal":
            s = lit_repr(t)
        elif k == "Group":
            s = OPEN[t["delimiter"]] + tokens_text(t["stream"]) + CLOSE[t["delimiter"]]
        else:
            s = "?"
        if out and not prev_joint:
            out.append(" ")
        out.append(s)
        prev_joint = k == "Punct" and t["spacing"] == "Joint"
    return "".join(out)


# ---------------------------------------------------------------- items / functions


class Fn:
    """A function body with its qualified name."""

    def __init__(self, file, qual, node, sig, block, impl=None, trait_=None, self_ty=None, cfgs=()):
        self.file = file
        self.qual = qual  # e.g. 'State::new_impl' / 'expand' / 'impl ToTokens for Expr::to_tokens'
        self.name = sig["ident"]["sym"]
        self.node = node
        self.sig = sig
        self.block = block
        self.impl = impl
        self.trait_ = trait_
        self.self_ty = self_ty
        self.cfgs = cfgs

    @property
    def line(self):
        return self.file.line(self.sig["ident"]["span"][0])

    def key(self):
        return f"{os.path.basename(self.file.rel) if False else self.file.rel}::{self.qual}"

    def __repr__(self):
        return f"<Fn {self.file.rel}::{self.qual}>"


def type_str(t):
    """Rough rendering of a type for naming impls."""
    k = kind(t)
    if k == "Type::Path":
        segs = []
        for seg in t["path"]["segments"]:
            segs.append(seg["ident"]["sym"])
        return "::".join(segs)
    if k == "Type::Reference":
        return "&" + type_str(t["elem"])
    if k == "Type::Tuple":
        return "(" + ",".join(type_str(e) for e in t["elems"]) + ")"
    if k == "Type::Slice":
        return "[" + type_str(t["elem"]) + "]"
    return k or "?"


def iter_items(items, mods=(), cfgs=(), include_tests=False):
    """Yield (item, mods, cfgs) recursively through inline modules, skipping #[cfg(test)]."""
    for it in items:
        attrs = it.get("attrs")
        if not include_tests and has_cfg_test(attrs):
            continue
        c = cfgs + tuple(tokens_text(x) for x in cfg_attrs(attrs))
        yield it, mods, c
        if kind(it) == "Item::Mod" and it.get("content"):
            name = it["ident"]["sym"]
            content = it["content"]
            # content = (Brace, [items])
            inner = content[1] if isinstance(content, list) and len(content) == 2 else []
            yield from iter_items(inner, mods + (name,), c, include_tests)


def functions(f, include_tests=False):
    """All functions of a SrcFile (free fns, inherent/trait impl methods, trait default methods)."""
    out = []
    for it, mods, cfgs in iter_items(f.ast["items"], include_tests=include_tests):
        k = kind(it)
        prefix = "::".join(mods) + "::" if mods else ""
        if k == "Item::Fn":
            out.append(Fn(f, prefix + it["sig"]["ident"]["sym"], it, it["sig"], it["block"], cfgs=cfgs))
        elif k == "Item::Impl":
            st = type_str(it["self_ty"])
            tr = None
            if it.get("trait_"):
                # trait_: [Option<Not>, Path, For]
                tr = path_str(it["trait_"][1])
            for ii in it["items"]:
                if kind(ii) == "ImplItem::Fn":
                    if not include_tests and has_cfg_test(ii.get("attrs")):
                        continue
                    c2 = cfgs + tuple(tokens_text(x) for x in cfg_attrs(ii.get("attrs")))
                    q = prefix + (f"<{st} as {tr.split('::')[-1]}>" if tr else st) + "::" + ii["sig"]["ident"]["sym"]
                    out.append(Fn(f, q, ii, ii["sig"], ii["block"], impl=it, trait_=tr, self_ty=st, cfgs=c2))
        elif k == "Item::Trait":
            for ti in it["items"]:
                if kind(ti) == "TraitItem::Fn" and ti.get("default"):
                    q = prefix + it["ident"]["sym"] + "::" + ti["sig"]["ident"]["sym"]
                    out.append(Fn(f, q, ti, ti["sig"], ti["default"], trait_=it["ident"]["sym"], cfgs=cfgs))
    return out


def all_functions(files, include_tests=False):
    out = []
    for rel in sorted(files):
        out.extend(functions(files[rel], include_tests))
    return out


def get_fn(files, rel, qual):
    """The function `qual` of file `rel`; AnchorLost if absent or ambiguous."""
    if rel not in files:
        raise AnchorLost(f"{rel}", "file not found")
    c = [fn for fn in functions(files[rel]) if fn.qual == qual]
    if len(c) != 1:
        # the function may have been moved (another file of the crate, or into / out of an impl) or its owner renamed:
        # a function of that *name* that is unique in the crate is the same anchor
        name = qual.split("::")[-1]
        root = "impl/src/" if rel.startswith("impl/src/") else rel.split("/")[0] + "/"
        moved = [fn for r, f in files.items() if r.startswith(root) and (root != "src/" or not r.startswith("impl/")) for fn in functions(f) if fn.name == name and fn.block is not None]
        if len(c) == 0 and len(moved) == 1:
            return moved[0]
        raise AnchorLost(f"{rel}::{qual}", f"{len(c)} definitions found")
    return c[0]


def find_fns(files, rel, name):
    if rel not in files:
        raise AnchorLost(f"{rel}", "file not found")
    return [fn for fn in functions(files[rel]) if fn.name == name]


def get_item(files, rel, kind_, name):
    if rel not in files:
        raise AnchorLost(rel, "file not found")
    c = []
    for it, mods, cfgs in iter_items(files[rel].ast["items"]):
        if kind(it) == kind_ and it.get("ident", {}).get("sym") == name:
            c.append(it)
    if len(c) != 1:
        raise AnchorLost(f"{rel}::{name}", f"{len(c)} {kind_} found")
    return c[0]


# ---------------------------------------------------------------- expression helpers


def method_calls(n, name=None):
    for x, ps in find(n, "Expr::MethodCall"):
        if name is None or x["method"]["sym"] == name or (not isinstance(name, str) and x["method"]["sym"] in name):
            yield x, ps


def calls(n, pred=None):
    """Expr::Call nodes whose callee path string satisfies pred (or all)."""
    for x, ps in find(n, "Expr::Call"):
        p = path_str(x["func"])
        if pred is None or (p is not None and pred(p)):
            yield x, ps


def macros(n, names=None):
    """Macro nodes (expr, stmt or item position) with last path segment in names."""
    for x, ps in find(n, "Macro"):
        nm = path_last(x["path"])
        if names is None or nm in names:
            yield x, ps


def peel(e):
    """Strip parens, references and groups."""
    while True:
        k = kind(e)
        if k in ("Expr::Paren", "Expr::Group"):
            e = e["expr"]
        elif k == "Expr::Reference":
            e = e["expr"]
        else:
            return e


def chain(e):
    """Decompose a method/field chain: returns (root_expr, [('m', name, args) | ('f', member) | ('i', index) | ('?',)])."""
    ops = []
    while True:
        k = kind(e)
        if k == "Expr::MethodCall":
            ops.append(("m", e["method"]["sym"], e["args"]))
            e = e["receiver"]
        elif k == "Expr::Field":
            m = e["member"]
            nm = m["0"]["sym"] if kind(m) == "Member::Named" else m["0"]["index"]
            ops.append(("f", nm))
            e = e["base"]
        elif k == "Expr::Index":
            ops.append(("i", e["index"]))
            e = e["expr"]
        elif k == "Expr::Try":
            ops.append(("?",))
            e = e["expr"]
        elif k in ("Expr::Paren", "Expr::Group", "Expr::Reference"):
            e = e["expr"]
        elif k == "Expr::Unary" and kind(e["op"]) == "UnOp::Deref":
            e = e["expr"]
        else:
            break
    ops.reverse()
    return e, ops


def root_name(e):
    r, _ = chain(e)
    if kind(r) == "Expr::Path":
        return path_str(r)
    return None


def pat_idents(p):
    """Identifiers bound by a pattern."""
    out = []
    for x, _ in find(p, "Pat::Ident"):
        out.append(x["ident"]["sym"])
    return out


def expr_text(f, e):
    sp = span_of(e)
    if not sp:
        return "?"
    return " ".join(f.text(sp[0], sp[1]).split())


def idents_used(n):
    """All single-segment path expressions (variable uses) below n."""
    out = set()
    for x, _ in find(n, "Expr::Path"):
        p = x["path"]
        if len(p["segments"]) == 1 and not p.get("leading_colon"):
            out.add(p["segments"][0]["ident"]["sym"])
    return out


def token_idents(ts):
    """All identifier names in a token list (recursively)."""
    out = []
    for t in ts:
        if kind(t) == "Ident":
            out.append(t["sym"])
        elif kind(t) == "Group":
            out.extend(token_idents(t["stream"]))
    return out


# ---------------------------------------------------------------- structural rendering

BINOPS = {
    "Add": "+", "Sub": "-", "Mul": "*", "Div": "/", "Rem": "%", "And": "&&", "Or": "||", "BitXor": "^", "BitAnd": "&", "BitOr": "|",
    "Shl": "<<", "Shr": ">>", "Eq": "==", "Lt": "<", "Le": "<=", "Ne": "!=", "Ge": ">=", "Gt": ">", "AddAssign": "+=", "SubAssign": "-=",
    "MulAssign": "*=", "DivAssign": "/=", "RemAssign": "%=", "BitXorAssign": "^=", "BitAndAssign": "&=", "BitOrAssign": "|=", "ShlAssign": "<<=", "ShrAssign": ">>=",
}


def render_path(p):
    segs = []
    for seg in p["segments"]:
        s = seg["ident"]["sym"]
        a = seg.get("arguments")
        if isinstance(a, dict) and kind(a) == "PathArguments::AngleBracketed":
            inner = a.get("0", a)
            s += "::<" + ",".join(render_generic_arg(x) for x in inner["args"]) + ">"
        segs.append(s)
    return ("::" if p.get("leading_colon") else "") + "::".join(segs)


def render_generic_arg(a):
    k = kind(a)
    if k == "GenericArgument::Type":
        return render_type(a["0"])
    return k or "?"


def render_type(t):
    k = kind(t)
    if k == "Type::Path":
        return render_path(t["path"])
    if k == "Type::Reference":
        return "&" + ("mut " if t.get("mutability") else "") + render_type(t["elem"])
    if k == "Type::Tuple":
        return "(" + ",".join(render_type(x) for x in t["elems"]) + ")"
    if k == "Type::Infer":
        return "_"
    return k or "?"


def render_lit(l):
    k = kind(l)
    if k == "Lit::Bool":
        return "true" if l.get("value") else "false"
    tok = l.get("token")
    if isinstance(tok, dict):
        return tok.get("repr", "?")
    return "?"


def render_pat(p):
    k = kind(p)
    if k == "Pat::Ident":
        sub = p.get("subpat")
        return ("ref " if p.get("by_ref") else "") + ("mut " if p.get("mutability") else "") + p["ident"]["sym"] + ("@" + render_pat(sub[1]) if sub else "")
    if k == "Pat::Wild":
        return "_"
    if k == "Pat::Tuple":
        return "(" + ",".join(render_pat(x) for x in p["elems"]) + ")"
    if k == "Pat::TupleStruct":
        return render_path(p["path"]) + "(" + ",".join(render_pat(x) for x in p["elems"]) + ")"
    if k == "Pat::Path":
        return render_path(p["path"])
    if k == "Pat::Reference":
        return "&" + render_pat(p["pat"])
    if k == "Pat::Type":
        return render_pat(p["pat"])
    if k == "Pat::Lit":
        return render_lit(p["lit"])
    if k == "Pat::Or":
        return "|".join(render_pat(x) for x in p["cases"])
    if k == "Pat::Struct":
        return render_path(p["path"]) + "{" + ",".join((f["member"]["0"]["sym"] if kind(f["member"]) == "Member::Named" else str(f["member"]["0"]["index"])) + ":" + render_pat(f["pat"]) for f in p["fields"]) + ("," if p["fields"] and p.get("rest") else "") + (".." if p.get("rest") else "") + "}"
    if k == "Pat::Rest":
        return ".."
    if k == "Pat::Slice":
        return "[" + ",".join(render_pat(x) for x in p["elems"]) + "]"
    if k == "Pat::Range":
        return (render(p["start"]) if p.get("start") else "") + ".." + (render(p["end"]) if p.get("end") else "")
    if k == "Pat::Paren":
        return "(" + render_pat(p["pat"]) + ")"
    return k or "?"


def render(e):
    """canonical, whitespace-free text of an expression (structure, not source slicing)"""
    k = kind(e)
    if k is None:
        return "?"
    if k == "Expr::Path":
        return render_path(e["path"])
    if k == "Expr::Lit":
        return render_lit(e["lit"])
    if k in ("Expr::Macro", "Expr::Call"):
        # one spelling for every way of building an identifier from a name pattern (see ident_ctor)
        d = ident_ctor(e)
        if d is not None:
            return 'format_ident!(' + json.dumps(d["pattern"]) + "".join("," + a.replace(" ", "") for a in d["args"]) + (",span=" + d["span"].replace(" ", "") if d["span"] else "") + ")"
    if k == "Expr::MethodCall":
        tf = ""
        if e.get("turbofish"):
            tf = "::<" + ",".join(render_generic_arg(x) for x in e["turbofish"]["args"]) + ">"
        return render(e["receiver"]) + "." + e["method"]["sym"] + tf + "(" + ",".join(render(a) for a in e["args"]) + ")"
    if k == "Expr::Call":
        return render(e["func"]) + "(" + ",".join(render(a) for a in e["args"]) + ")"
    if k == "Expr::Field":
        m = e["member"]
        return render(e["base"]) + "." + (m["0"]["sym"] if kind(m) == "Member::Named" else str(m["0"]["index"]))
    if k == "Expr::Index":
        return render(e["expr"]) + "[" + render(e["index"]) + "]"
    if k == "Expr::Range":
        lim = ".." if kind(e["limits"]) == "RangeLimits::HalfOpen" else "..="
        return (render(e["start"]) if e.get("start") else "") + lim + (render(e["end"]) if e.get("end") else "")
    if k == "Expr::Reference":
        return "&" + ("mut " if e.get("mutability") else "") + render(e["expr"])
    if k == "Expr::Unary":
        op = {"UnOp::Not": "!", "UnOp::Neg": "-", "UnOp::Deref": "*"}.get(kind(e["op"]), "?")
        return op + render(e["expr"])
    if k == "Expr::Binary":
        op = BINOPS.get((kind(e["op"]) or "").replace("BinOp::", ""), "?")
        return render(e["left"]) + op + render(e["right"])
    if k == "Expr::Assign":
        return render(e["left"]) + "=" + render(e["right"])
    if k in ("Expr::Paren", "Expr::Group"):
        return "(" + render(e["expr"]) + ")"
    if k == "Expr::Tuple":
        return "(" + ",".join(render(x) for x in e["elems"]) + ")"
    if k == "Expr::Array":
        return "[" + ",".join(render(x) for x in e["elems"]) + "]"
    if k == "Expr::Try":
        return render(e["expr"]) + "?"
    if k == "Expr::Cast":
        return render(e["expr"]) + " as " + render_type(e["ty"])
    if k == "Expr::Closure":
        body = e["body"]
        # `|x| { expr }` and `|x| expr` are the same closure
        while kind(body) == "Expr::Block" and len(body["block"]["stmts"]) == 1 and kind(body["block"]["stmts"][0]) == "Stmt::Expr" and body["block"]["stmts"][0].get("1") is None:
            body = body["block"]["stmts"][0]["0"]
        return "|" + ",".join(render_pat(p) for p in e["inputs"]) + "|" + render(body)
    if k == "Expr::Macro":
        return render_path(e["mac"]["path"]) + "!(" + tokens_compact(e["mac"]["tokens"]) + ")"
    if k == "Expr::Block":
        return "{" + ";".join(render_stmt(s) for s in e["block"]["stmts"]) + "}"
    if k == "Expr::If":
        s = "if " + render(e["cond"]) + "{" + ";".join(render_stmt(x) for x in e["then_branch"]["stmts"]) + "}"
        if e.get("else_branch"):
            s += "else " + render(e["else_branch"][1])
        return s
    if k == "Expr::Let":
        return "let " + render_pat(e["pat"]) + "=" + render(e["expr"])
    if k == "Expr::Match":
        return "match " + render(e["expr"]) + "{" + ",".join(render_pat(a["pat"]) + (" if " + render(a["guard"][1]) if a.get("guard") else "") + "=>" + render(a["body"]) for a in e["arms"]) + "}"
    if k == "Expr::Struct":
        return render_path(e["path"]) + "{" + ",".join((f["member"]["0"]["sym"] if kind(f["member"]) == "Member::Named" else "?") + ":" + render(f["expr"]) for f in e["fields"]) + "}"
    if k == "Expr::Return":
        return "return " + (render(e["expr"]) if e.get("expr") else "")
    if k == "Expr::ForLoop":
        return "for " + render_pat(e["pat"]) + " in " + render(e["expr"]) + "{" + ";".join(render_stmt(x) for x in e["body"]["stmts"]) + "}"
    if k == "Expr::While":
        return "while " + render(e["cond"]) + "{" + ";".join(render_stmt(x) for x in e["body"]["stmts"]) + "}"
    if k == "Expr::Loop":
        return "loop{" + ";".join(render_stmt(x) for x in e["body"]["stmts"]) + "}"
    if k == "Expr::Continue":
        return "continue"
    if k == "Expr::Break":
        return "break"
    return k


def render_stmt(s):
    k = kind(s)
    if k == "Stmt::Local":
        init = s.get("init")
        txt = "let " + render_pat(s["pat"]) + ("=" + render(init["expr"]) if init else "")
        if init and init.get("diverge"):
            txt += " else " + render(init["diverge"][1])
        return txt
    if k == "Stmt::Expr":
        return render(s["0"])
    if k == "Stmt::Macro":
        return render_path(s["mac"]["path"]) + "!(" + tokens_compact(s["mac"]["tokens"]) + ")"
    return k or "?"


def unblock(e):
    """strip `{ expr }` wrappers"""
    while kind(e) == "Expr::Block" and len(e["block"]["stmts"]) == 1 and kind(e["block"]["stmts"][0]) == "Stmt::Expr" and e["block"]["stmts"][0].get("1") is None:
        e = e["block"]["stmts"][0]["0"]
    return e


def render_norm(e):
    """render() with closure parameters alpha-renamed ($1, $2, .. in binding order): insensitive to the
    names chosen for closure parameters, formatting and `{ expr }` wrappers."""
    import copy
    import re as _re

    names = []
    for cl, _ in find(e, "Expr::Closure"):
        for p in cl["inputs"]:
            for n in pat_idents(p):
                if n not in names:
                    names.append(n)
    txt = render(e)
    for i, n in enumerate(names):
        txt = _re.sub(r"(?<![A-Za-z0-9_\"#{])%s(?![A-Za-z0-9_\"}])" % _re.escape(n), f"${i + 1}", txt)
    return txt


def aliases(fn, allow_closures=False):
    """single-assignment immutable `let name = <expr>;` bindings of a function whose name is bound nowhere else in it
    (parameters, closures, patterns) and whose initialiser is a plain expression (no macro, closure, block, `?`)"""
    count = {}
    inits = {}
    for st, _ in find(fn.block, "Stmt::Local"):
        pat = st["pat"]
        if kind(pat) == "Pat::Type":
            pat = pat["pat"]
        for n in pat_idents(st["pat"]):
            count[n] = count.get(n, 0) + 1
        if kind(pat) == "Pat::Ident" and not pat.get("mutability") and not pat.get("by_ref") and st.get("init") and not st["init"].get("diverge"):
            e = st["init"]["expr"]
            banned = ("Expr::Macro", "Expr::Block", "Expr::Try", "Expr::If", "Expr::Match", "Expr::Struct", "Expr::Await") + (() if allow_closures else ("Expr::Closure",))
            if not any(kind(x) in banned for x, _ in walk(e)):
                inits[pat["ident"]["sym"]] = (e, st)
    for x, _ in walk(fn.block):
        k = kind(x)
        if k == "Expr::Closure":
            for p in x["inputs"]:
                for n in pat_idents(p):
                    count[n] = count.get(n, 0) + 1
        elif k in ("Arm", "Expr::Let", "Expr::ForLoop"):
            for n in pat_idents(x["pat"]):
                count[n] = count.get(n, 0) + 1
    for p in fn.node["sig"]["inputs"]:
        if kind(p) == "FnArg::Typed":
            for n in pat_idents(p["0"]["pat"]):
                count[n] = count.get(n, 0) + 1
    # a name interpolated into a template (`#name`) must keep its `let`: the template refers to it
    interpolated = set()

    def scan(ts):
        for i, t in enumerate(ts):
            if kind(t) == "Punct" and punct_char(t) == "#" and i + 1 < len(ts) and kind(ts[i + 1]) == "Ident":
                interpolated.add(ts[i + 1]["sym"])
            if kind(t) == "Group":
                scan(t["stream"])

    for x, _ in walk(fn.block):
        if kind(x) in ("Expr::Macro", "Stmt::Macro") and isinstance(x.get("mac"), dict):
            scan(x["mac"].get("tokens") or [])
    return {n: (v[0], v[1], n in interpolated) for n, v in inits.items() if count.get(n, 0) == 1}


def inline_text(text, als, depth=0):
    """substitute alias names in rendered code by their (rendered, `&`-stripped) initialisers, recursively"""
    import re as _re

    if depth > 4 or not als:
        return text

    def sub(m):
        w = m.group(0)
        if w in als:
            e = als[w][0]
            while kind(e) in ("Expr::Reference", "Expr::Paren"):
                e = e["expr"]
            r = render(e)
            if len(r) > 300:
                return w
            inner = inline_text(r, {k: v for k, v in als.items() if k != w}, depth + 1)
            if kind(e) in ("Expr::Path", "Expr::Call", "Expr::MethodCall", "Expr::Field", "Expr::Index", "Expr::Lit"):
                return inner
            return "(" + inner + ")"
        return w

    # never inside string literals
    parts = _re.split(r'("(?:[^"\\]|\\.)*")', text)
    for i in range(0, len(parts), 2):
        parts[i] = _re.sub(r"(?<![A-Za-z0-9_.#:'])\b[a-z_][a-z0-9_]*\b(?![A-Za-z0-9_(!:])", sub, parts[i])
    return "".join(parts)


def fn_text(fn, inline=False):
    """rendered body; with inline=True the function's plain `let` aliases are substituted into their uses and their
    `let` statements dropped, so that introducing / removing such an alias does not change the text"""
    if not inline:
        return Txt(";".join(render_stmt(s) for s in fn.block["stmts"]))
    als = aliases(fn)
    drop = {id(v[1]) for v in als.values() if not (len(v) > 2 and v[2])}

    def rs(block_stmts):
        return [s for s in block_stmts if id(s) not in drop]

    import copy

    def strip(n):
        if isinstance(n, list):
            return [strip(x) for x in n]
        if not isinstance(n, dict):
            return n
        out = {k: strip(v) for k, v in n.items()}
        if n.get("_") == "Block":
            out["stmts"] = [strip(x) for x in n["stmts"] if id(x) not in drop]
        return out

    blk = strip(fn.block)
    txt = ";".join(render_stmt(s) for s in blk["stmts"])
    return Txt(inline_text(txt, als))


def tokens_compact(ts):
    """token text without cosmetic spaces: a space only between two word-like tokens (ident / literal)"""
    out = []
    prev_word = False
    for t in ts:
        k = kind(t)
        if k == "Ident":
            s_, word = t["sym"], True
        elif k == "Literal":
            s_, word = lit_repr(t), True
        elif k == "Punct":
            s_, word = punct_char(t), False
        elif k == "Group":
            s_, word = OPEN[t["delimiter"]] + tokens_compact(t["stream"]) + CLOSE[t["delimiter"]], False
        else:
            s_, word = "?", False
        if out and prev_word and word:
            out.append(" ")
        out.append(s_)
        prev_word = word
    return "".join(out)


# ---------------------------------------------------------------- name-insensitive matching of rendered code

import re as _re_mod

_KW = {
    "as", "break", "const", "continue", "crate", "dyn", "else", "enum", "extern", "false", "fn", "for", "if", "impl", "in", "let", "loop",
    "match", "mod", "move", "mut", "pub", "ref", "return", "self", "Self", "static", "struct", "super", "trait", "true", "type", "unsafe",
    "use", "where", "while", "_",
}
_wild_cache = {}


def wild(pattern, hash_only=False):
    """Regex for `pattern` (a piece of rendered code) in which *local names* are wildcards that must be
    used consistently inside the pattern: lower-case bare identifiers that are not keywords, not field /
    method names (after `.`), not path segments (next to `::`), not macro names (before `!`), not called
    functions (before `(`), not field labels (before a single `:`) and not inside string literals.
    `#name` interpolations are always wildcards. With hash_only only `#name` is generalised (template text)."""
    key = (pattern, hash_only)
    if key in _wild_cache:
        return _wild_cache[key]
    out = []
    seen = {}
    i = 0
    n = len(pattern)
    while i < n:
        c = pattern[i]
        if c == '"':
            j = i + 1
            while j < n and pattern[j] != '"':
                j += 2 if pattern[j] == "\\" else 1
            out.append(_re_mod.escape(pattern[i : j + 1]))
            i = j + 1
            continue
        if c.isalpha() or c == "_":
            j = i
            while j < n and (pattern[j].isalnum() or pattern[j] == "_"):
                j += 1
            word = pattern[i:j]
            prev = pattern[i - 1] if i else ""
            prev2 = pattern[i - 2 : i]
            nxt = pattern[j] if j < n else ""
            nxt2 = pattern[j : j + 2]
            is_hash = prev == "#"
            fixed = True
            if is_hash:
                fixed = False
            elif not hash_only:
                fixed = (
                    word in _KW
                    or not (word[0].islower() or word[0] == "_")
                    or prev == "."
                    or prev == "'"
                    or prev2 == "::"
                    or nxt2 == "::"
                    or (nxt == "!" and nxt2 != "!=")
                    or nxt == "("
                    or (nxt == ":" and nxt2 != "::")
                    or prev.isdigit()
                    or (prev == "$")
                )
            if fixed:
                out.append(_re_mod.escape(word))
            else:
                g = "v_" + word
                if g in seen:
                    out.append(f"(?P={g})")
                else:
                    seen[g] = True
                    out.append(f"(?P<{g}>[A-Za-z_][A-Za-z0-9_]*)")
            i = j
            continue
        out.append(_re_mod.escape(c))
        i += 1
    rx = _re_mod.compile("".join(out))
    _wild_cache[key] = rx
    return rx


class Txt(str):
    """rendered code; `pattern in Txt` matches with local names as consistent wildcards"""

    def __contains__(self, pattern):
        if str.__contains__(self, pattern):
            return True
        try:
            return wild(pattern).search(self) is not None
        except _re_mod.error:
            return False

    def has_exact(self, pattern):
        return str.__contains__(self, pattern)


class TTxt(str):
    """template text; `pattern in TTxt` treats `#name` interpolations as consistent wildcards"""

    def __contains__(self, pattern):
        if str.__contains__(self, pattern):
            return True
        try:
            return wild(pattern, hash_only=True).search(self) is not None
        except _re_mod.error:
            return False

    def same(self, pattern):
        if self == pattern:
            return True
        try:
            return wild(pattern, hash_only=True).fullmatch(self) is not None
        except _re_mod.error:
            return False


class TList(list):
    """list of template texts; `pattern in TList` = some template equals the pattern up to `#name` renaming"""

    def __contains__(self, pattern):
        return any((t == pattern) or (isinstance(t, TTxt) and t.same(pattern)) for t in self)


def wsearch(text, pattern):
    """search `pattern` in rendered `text` with local names as consistent wildcards; returns the match (groups v_<name>)"""
    return wild(pattern).search(text)


def wfull(text, pattern):
    return wild(pattern).fullmatch(text)


def canon_names(text, mapping):
    """replace local names by role tokens ({'local': 'ROLE'})"""
    for a, b in mapping.items():
        text = _re_mod.sub(r"(?<![A-Za-z0-9_.#])%s(?![A-Za-z0-9_])" % _re_mod.escape(a), b, text)
    return text


def alpha(text, numbered=True):
    """Canonical form of rendered code up to renaming of local names (same notion of 'local name' as `wild`): the k-th
    distinct local name becomes `$k`; with numbered=False every local name becomes `$` (robust to shadowing: two
    bindings of one name and two differently named bindings look alike)."""
    out = []
    seen = {}
    i = 0
    n = len(text)
    while i < n:
        c = text[i]
        if c == '"':
            j = i + 1
            while j < n and text[j] != '"':
                j += 2 if text[j] == "\\" else 1
            out.append(text[i : j + 1])
            i = j + 1
            continue
        if c.isalpha() or c == "_":
            j = i
            while j < n and (text[j].isalnum() or text[j] == "_"):
                j += 1
            word = text[i:j]
            prev = text[i - 1] if i else ""
            prev2 = text[i - 2 : i]
            nxt = text[j] if j < n else ""
            nxt2 = text[j : j + 2]
            fixed = (
                word in _KW
                or not (word[0].islower() or word[0] == "_")
                or prev == "."
                or prev == "'"
                or prev2 == "::"
                or nxt2 == "::"
                or (nxt == "!" and nxt2 != "!=")
                or nxt == "("
                or (nxt == ":" and nxt2 != "::")
                or prev.isdigit()
                or prev == "$"
                or prev == "#"
            )
            if fixed:
                out.append(word)
            else:
                if word not in seen:
                    seen[word] = f"${len(seen)}" if numbered else "$"
                out.append(seen[word])
            i = j
            continue
        out.append(c)
        i += 1
    return "".join(out)


def norm_ast(n):
    """A structurally normalised copy of an expression tree, for comparing conditions written in equivalent ways:
    `if let P = E { A } else { B }` becomes `match E { P => A, _ => B }`; single-expression blocks are unwrapped;
    `match` arms of two-arm matches keep their order. Spans are kept, so span_of still works on the copy."""
    if isinstance(n, list):
        return [norm_ast(x) for x in n]
    if not isinstance(n, dict):
        return n
    k = n.get("_")
    if k == "Expr::If" and kind(n.get("cond")) == "Expr::Let":
        c = n["cond"]
        eb = n.get("else_branch")
        els = None
        if eb:
            els = eb[1] if isinstance(eb, list) else eb
        then = {"_": "Expr::Block", "attrs": [], "block": norm_ast(n["then_branch"]), "label": None}
        arms = [{"_": "Arm", "attrs": [], "pat": norm_ast(c["pat"]), "guard": None, "body": unblock(then), "comma": None, "fat_arrow_token": "FatArrow"}]
        wild = {"_": "Pat::Wild", "attrs": [], "underscore_token": "Underscore"}
        if els is not None:
            eb2 = norm_ast(els)
            arms.append({"_": "Arm", "attrs": [], "pat": wild, "guard": None, "body": unblock(eb2), "comma": None, "fat_arrow_token": "FatArrow"})
        else:
            arms.append({"_": "Arm", "attrs": [], "pat": wild, "guard": None, "body": {"_": "Expr::Tuple", "attrs": [], "elems": [], "paren_token": "Paren"}, "comma": None, "fat_arrow_token": "FatArrow"})
        return {"_": "Expr::Match", "attrs": [], "arms": arms, "brace_token": "Brace", "expr": norm_ast(c["expr"]), "match_token": "Match"}
    out = {kk: norm_ast(v) for kk, v in n.items()}
    if k == "Arm":
        out["body"] = unblock(out["body"])
    if k == "Expr::If":
        # `if !(c) { B } else { A }` reads `if c { A } else { B }` (a plain else block only: `else if` chains keep their order)
        c = out.get("cond")
        inner = c
        while kind(inner) in ("Expr::Paren", "Expr::Group"):
            inner = inner["expr"]
        eb = out.get("else_branch")
        els = (eb[1] if isinstance(eb, list) else eb) if eb else None
        if kind(inner) == "Expr::Unary" and kind(inner.get("op")) == "UnOp::Not" and els is not None and kind(els) == "Expr::Block":
            pos = inner["expr"]
            while kind(pos) in ("Expr::Paren", "Expr::Group"):
                pos = pos["expr"]
            new_then = els["block"]
            new_else = {"_": "Expr::Block", "attrs": [], "block": out["then_branch"], "label": None}
            out["cond"] = pos
            out["then_branch"] = new_then
            out["else_branch"] = [eb[0], new_else] if isinstance(eb, list) else new_else
    return out


def iteration_of(node, within):
    """(source text, pattern text, body statements) of the innermost iteration enclosing `node` inside `within`: a
    `for P in E` loop or the closure of `E.map(|P| ..)` / `filter_map` / `for_each` / `flat_map`; a trailing `.iter()` /
    `.into_iter()` of E is dropped so that `for x in xs` and `xs.iter().map(|x| ..)` read alike. None when there is none."""
    best = None
    for x, ps in walk(within):
        if x is node:
            for i in range(len(ps) - 1, -1, -1):
                p = ps[i]
                k = kind(p)
                if k == "Expr::ForLoop":
                    src = render(p["expr"])
                    best = (src, render_pat(p["pat"]), p["body"]["stmts"])
                    break
                if k == "Expr::Closure" and i > 0 and kind(ps[i - 1]) in ("LocalInit", "Stmt::Local"):
                    # `let f = |x| ..;  xs.iter().map(f)`: the closure is the body of the iteration that names it
                    loc = next((q for q in reversed(ps[:i]) if kind(q) == "Stmt::Local"), None)
                    names = pat_idents(loc["pat"]) if loc else []
                    if len(names) == 1:
                        for y, _ in walk(within):
                            if kind(y) == "Expr::MethodCall" and y["method"]["sym"] in ("map", "filter_map", "for_each", "flat_map", "try_for_each") and any(kind(a) == "Expr::Path" and path_str(a) == names[0] for a in y["args"]):
                                body = p["body"]
                                stmts = body["block"]["stmts"] if kind(body) == "Expr::Block" else [{"_": "Stmt::Expr", "0": body, "1": None}]
                                best = (render(y["receiver"]), ",".join(render_pat(q) for q in p["inputs"]), stmts)
                                break
                    if best is not None:
                        break
                if k == "Expr::Closure" and i > 0 and kind(ps[i - 1]) == "Expr::MethodCall" and ps[i - 1]["method"]["sym"] in ("map", "filter_map", "for_each", "flat_map", "try_for_each"):
                    mc = ps[i - 1]
                    src = render(mc["receiver"])
                    body = p["body"]
                    stmts = body["block"]["stmts"] if kind(body) == "Expr::Block" else [{"_": "Stmt::Expr", "0": body, "1": None}]
                    best = (src, ",".join(render_pat(q) for q in p["inputs"]), stmts)
                    break
            break
    if best is None:
        return None
    src = best[0]
    import re as _re

    src = _re.sub(r"\.(iter|into_iter)\(\)$", "", src)
    if src.startswith("(") and src.endswith(")"):
        src = src[1:-1]
    return (src, best[1], best[2])


def single_use_helpers(fn, depth=2):
    """private functions of the same file that are referenced only from `fn` (transitively, up to `depth`): the pieces
    a refactoring may have extracted out of `fn`"""
    f = fn.file
    fns = functions(f)
    by_name = {}
    for g in fns:
        by_name.setdefault(g.name, []).append(g)
    refs = {}
    for g in fns:
        if g.block is None:
            continue
        for x, _ in walk(g.block):
            k = kind(x)
            nm = None
            if k == "Expr::Path":
                nm = path_str(x).split("::")[-1]
            elif k == "Expr::MethodCall":
                nm = x["method"]["sym"]
            if nm in by_name and len(by_name[nm]) == 1 and by_name[nm][0] is not g:
                refs.setdefault(nm, set()).add(g.qual)
    out = []
    frontier = [fn]
    for _ in range(depth):
        nxt = []
        for g in frontier:
            for nm, users in refs.items():
                h = by_name[nm][0]
                vis = h.node.get("vis")
                private = vis in (None, "Visibility::Inherited") or kind(vis) in (None, "Visibility::Inherited")
                if users == {g.qual} and private and h.trait_ is None and h not in out and h is not fn:
                    out.append(h)
                    nxt.append(h)
        frontier = nxt
    return out


def fn_text_with_helpers(fn, inline=False):
    """fn_text of `fn` followed by the bodies of its single-use private helpers (see single_use_helpers)"""
    parts = [fn_text(fn, inline=inline)]
    for h in single_use_helpers(fn):
        if h.block is not None:
            parts.append(fn_text(h, inline=inline))
    return Txt(";".join(parts))


def _str_lit(e):
    e = peel(e) if isinstance(e, dict) else e
    if kind(e) == "Expr::Lit" and kind(e["lit"]) == "Lit::Str":
        return e["lit"]["token"]["value"]
    return None


def _pat_strs(p):
    """string literals a pattern accepts (`"A"` / `"A" | "B"`), or None"""
    k = kind(p)
    if k == "Pat::Lit":
        v = _str_lit(p) if "lit" not in p else (p["lit"]["token"]["value"] if kind(p["lit"]) == "Lit::Str" else None)
        return [v] if v is not None else None
    if k == "Pat::Or":
        out = []
        for c in p["cases"]:
            s = _pat_strs(c)
            if s is None:
                return None
            out += s
        return out
    if k == "Pat::Paren":
        return _pat_strs(p["pat"])
    return None


def _eq_strs(cond):
    """string literals `X == "A"` / `X == "A" || X == "B"` / `matches!(X, "A" | "B")` compares with, or None"""
    cond = peel(cond)
    k = kind(cond)
    if k == "Expr::Binary":
        op = kind(cond["op"])
        if op == "BinOp::Eq":
            for a in (cond["left"], cond["right"]):
                v = _str_lit(a)
                if v is not None:
                    return [v]
            return None
        if op == "BinOp::Or":
            l, r = _eq_strs(cond["left"]), _eq_strs(cond["right"])
            return l + r if l is not None and r is not None else None
    if k == "Expr::Macro" and path_last(cond["mac"]["path"]) == "matches":
        vs = [t["lit"]["value"] for t in cond["mac"]["tokens"] if kind(t) == "Literal" and isinstance(t.get("lit"), dict) and t["lit"].get("kind") == "str"]
        return vs or None
    return None


def _tail_str(e):
    """the string literal an arm body / block evaluates to"""
    e = peel(e)
    if kind(e) == "Expr::Block" and len(e["block"]["stmts"]) == 1 and kind(e["block"]["stmts"][0]) == "Stmt::Expr":
        return _tail_str(e["block"]["stmts"][0]["0"])
    if kind(e) == "Block" and len(e["stmts"]) == 1 and kind(e["stmts"][0]) == "Stmt::Expr":
        return _tail_str(e["stmts"][0]["0"])
    if kind(e) == "Expr::Return" and e.get("expr") is not None:
        return _tail_str(e["expr"])
    return _str_lit(e)


def string_table(fn, files=None):
    """A function that maps string keys to string literals, read as a table {key: value}: `match x { "A" => "a", .. }`,
    `match () { _ if x == "A" => "a", .. }`, `if x == "A" { "a" } else if ..`, early `if x == "A" { return "a" }`, or a
    table of `("A", "a")` pairs (in the function or in a const / static of the same file that it names).
    First binding of a key wins (arm order). None when no such shape is found."""
    out = {}

    def put(keys, val):
        if keys is None or val is None:
            return
        for k_ in keys:
            out.setdefault(k_, val)

    for x, ps in walk(fn.block):
        k = kind(x)
        if k == "Expr::Match":
            for arm in x["arms"]:
                keys = _pat_strs(arm["pat"])
                if keys is None and arm.get("guard") is not None:
                    g = arm["guard"]
                    g = g[1] if isinstance(g, list) else g.get("1", g) if isinstance(g, dict) and "1" in g else g
                    keys = _eq_strs(g)
                put(keys, _tail_str(arm["body"]))
        elif k == "Expr::If" and kind(x["cond"]) != "Expr::Let":
            put(_eq_strs(x["cond"]), _tail_str(x["then_branch"]))
        elif k == "Expr::Tuple" and len(x["elems"]) == 2:
            a, b = _str_lit(x["elems"][0]), _str_lit(x["elems"][1])
            if a is not None and b is not None:
                put([a], b)
    # tables in consts / statics the function names
    names = {path_str(p).split("::")[-1] for p, _ in find(fn.block, "Expr::Path") if path_str(p)}
    for it, mods, cfgs in iter_items(fn.file.ast["items"]):
        if kind(it) in ("Item::Const", "Item::Static") and it["ident"]["sym"] in names:
            for x, _ in find(it["expr"], "Expr::Tuple"):
                if len(x["elems"]) == 2:
                    a, b = _str_lit(x["elems"][0]), _str_lit(x["elems"][1])
                    if a is not None and b is not None:
                        put([a], b)
    for st, _ in find(fn.block, ("Stmt::Item",)):
        pass
    return out or None



def ident_ctor(e):
    """An expression that builds an identifier from a name pattern, whichever way it is spelled:
    `format_ident!("p_{}", a, span = s)`, `format_ident!("p_{a}")`, `Ident::new(&format!("p_{a}"), s)`,
    `Ident::new("lit", Span::call_site())` -> {"pattern": "p_{}", "args": [rendered args in hole order], "span": rendered
    span expression or None (call site), "via": "format_ident" | "Ident::new", "inline": [names captured inline]}.
    (`format_ident!` strips `r#` from positional identifier arguments, the other spellings do not: RAW-ID looks at
    that; here only the name pattern matters.) None for anything else."""
    import re as _re

    e = peel(e)
    k = kind(e)

    def split(toks):
        parts, cur = [], []
        for t in toks:
            if kind(t) == "Punct" and punct_char(t) == ",":
                parts.append(cur)
                cur = []
            else:
                cur.append(t)
        parts.append(cur)
        return [p for p in parts if p]

    def from_tokens(toks, via, span):
        parts = split(toks)
        if not parts or kind(parts[0][0]) != "Literal" or not isinstance(parts[0][0].get("lit"), dict) or parts[0][0]["lit"].get("kind") != "str":
            return None
        val = parts[0][0]["lit"].get("value") or ""
        pos, named = [], {}
        for p in parts[1:]:
            if len(p) >= 3 and kind(p[0]) == "Ident" and kind(p[1]) == "Punct" and punct_char(p[1]) == "=":
                named[p[0]["sym"]] = tokens_compact(p[2:])
            else:
                pos.append(tokens_compact(p))
        if "span" in named:
            span = named.pop("span")
        args, inline = [], []
        it = iter(pos)

        def repl(m):
            name = m.group(1)
            if name == "":
                args.append(next(it, "?"))
            elif name in named:
                args.append(named[name])
            else:
                args.append(name)
                inline.append(name)
            return "{}"

        pat = _re.sub(r"(?<!\{)\{([A-Za-z_0-9]*)(?::[^{}]*)?\}(?!\})", repl, val)
        return {"pattern": pat, "args": args, "span": span, "via": via, "inline": inline}

    if k == "Expr::Macro" and path_last(e["mac"]["path"]) == "format_ident":
        return from_tokens(e["mac"]["tokens"], "format_ident", None)
    if k == "Expr::Call" and (path_str(e["func"]) or "").split("::")[-2:] == ["Ident", "new"] and len(e["args"]) == 2:
        a0, a1 = peel(e["args"][0]), e["args"][1]
        sp = render(a1)
        sp = None if sp.replace("proc_macro2::", "").replace(" ", "") == "Span::call_site()" else sp
        if kind(a0) == "Expr::Macro" and path_last(a0["mac"]["path"]) == "format":
            return from_tokens(a0["mac"]["tokens"], "Ident::new", sp)
        if kind(a0) == "Expr::Lit" and kind(a0["lit"]) == "Lit::Str":
            return {"pattern": a0["lit"]["token"]["value"], "args": [], "span": sp, "via": "Ident::new", "inline": []}
        if kind(a0) == "Expr::Path" and "::" not in (path_str(a0) or "::"):
            return {"pattern": "{}", "args": [path_str(a0)], "span": sp, "via": "Ident::new", "inline": [path_str(a0)]}
    return None


def ident_ctors(node):
    """every identifier-building expression below `node`: [(expr node, description)]"""
    out = []
    for x, _ in walk(node):
        if kind(x) in ("Expr::Macro", "Expr::Call"):
            d = ident_ctor(x)
            if d is not None:
                out.append((x, d))
    return out


def referenced_consts(fn):
    """constants / statics of the function's file (any module or impl, or local to the function) that it names:
    {name: initialiser expression}. A literal table moved into a `const` is still part of what the function says."""
    names = {path_str(p).split("::")[-1] for p, _ in find(fn.block, "Expr::Path") if path_str(p)}
    out = {}
    for x, _ in walk(fn.file.ast):
        if kind(x) in ("Item::Const", "ImplItem::Const", "Item::Static") and x.get("expr") is not None and x["ident"]["sym"] in names:
            out[x["ident"]["sym"]] = x["expr"]
    return out
