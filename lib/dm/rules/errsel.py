"""C09 / C14 / C11 - definitions of the enabled views and the Error source selection."""
import re

from .. import ast as A
from .. import tpl as T

UTILS = "impl/src/utils.rs"
ERR = "impl/src/error.rs"

V = r"\$\d+"
FILTER_VIEW = re.compile(
    r"self\.(?P<src>\w+(?:\(\))?)\.(?:iter|into_iter)\(\)\.zip\(self\.full_meta_infos\.iter\(\)\.map\(\|(?P<a>%s)\|(?P=a)\.enabled\)\)\.filter\(\|\(_,(?P<b>%s)\)\|\*(?P=b)\)\.map\(\|\((?P<c>%s),_\)\|\*?(?P=c)\)\.collect\(\)" % (V, V, V)
)
INDEX_VIEW = re.compile(r"self\.full_meta_infos\.iter\(\)\.map\(\|(?P<a>%s)\|(?P=a)\.enabled\)\.enumerate\(\)\.filter\(\|\(_,(?P<b>%s)\)\|\*(?P=b)\)\.map\(\|\((?P<c>%s),_\)\|(?P=c)\)\.collect\(\)" % (V, V, V))
INFO_VIEW = re.compile(r"self\.full_meta_infos\.iter\(\)\.filter\(\|(?P<a>%s)\|(?P=a)\.enabled\)\.cloned\(\)\.collect\(\)" % V)

VIEWS = {
    "enabled_variants": ("filter", "variants"),
    "enabled_variant_states": ("filter", "variant_states"),
    "enabled_fields": ("filter", "fields"),
    "enabled_fields_idents": ("filter", "field_idents()"),
    "enabled_fields_indexes": ("index", None),
    "enabled_infos": ("info", None),
}


def _view_by_interpretation(ctx, fn, name, kind_, src):
    """True (holds for all flag vectors) | str (counterexample) | None (not interpretable: fall back to the shape)"""
    import itertools

    from .. import iterpipe as IP

    helpers = {g.name: g for g in A.functions(fn.file) if g.qual.startswith("State::") and g.name != name and g.block is not None and g.name not in ("field_idents",)}
    n = 3
    for flags in itertools.product([True, False], repeat=n):
        infos = [{"enabled": b, "id": f"info#{i}"} for i, b in enumerate(flags)]
        fields = {k: [f"{k}#{i}" for i in range(n)] for k in ("variants", "variant_states", "fields")}
        fields["full_meta_infos"] = infos
        it = IP.Interp(fields, {"field_idents": [f"field_idents()#{i}" for i in range(n)]}, helpers)
        try:
            got = it.block(fn.block, {})
        except IP.Unsupported:
            return None
        except Exception:
            return None
        if kind_ == "filter":
            want = [f"{src}#{i}" for i in range(n) if flags[i]]
        elif kind_ == "index":
            want = [i for i in range(n) if flags[i]]
        else:
            want = [infos[i] for i in range(n) if flags[i]]
        if got != want:
            return f"with enabled = {list(flags)} it yields {got} instead of {want}"
    return True


def rule_view_defs(ctx):
    """VIEW-DEF: each `State::enabled_*` view is the corresponding full collection filtered by the per-field `enabled` flag, element order preserved; `enabled_fields_indexes` maps the enabled position to the *original* position, `field_idents()` names tuple fields by their original index, and `MultiFieldData::matcher` puts `_` at every position that is not listed. Derives that select one field (Deref, Index, IntoIterator, AsRef ..) and TryInto's patterns rely on it."""
    for name, (kind_, src) in VIEWS.items():
        fn = A.get_fn(ctx.files, UTILS, f"State::{name}")
        st = fn.block["stmts"]
        txt = A.render_norm(st[-1]["0"]) if len(st) == 1 and A.kind(st[0]) == "Stmt::Expr" else A.fn_text(fn)
        where = ctx.where(fn.file, fn.node)
        # decide by interpretation first: the view evaluated on symbolic lists for every flag vector of length 3 must be
        # 'the elements whose flag is set, in order' - whatever the spelling (helpers of the impl are entered)
        verdict = _view_by_interpretation(ctx, fn, name, kind_, src)
        ctx.instance(f"State::{name}", sample={"view": name, "definition": txt[:200], "decided by": "interpretation on 8 flag vectors" if verdict is not None else "shape"})
        if verdict is True:
            continue
        if isinstance(verdict, str):
            ctx.report(f"view:{name}", where, f"`State::{name}` does not yield the enabled elements in order: {verdict}; the view's elements / positional names no longer correspond to the fields the user enabled (e.g. a tuple struct whose selected field is not the first one is accessed as `.0`; patterns built by `matcher` bind the wrong fields)", {})
            continue
        if kind_ == "filter":
            m = FILTER_VIEW.fullmatch(txt)
            if not m or m.group("src") != src:
                ctx.report(
                    f"view:{name}",
                    where,
                    f"`State::{name}` is no longer `self.{src}` zipped with the `enabled` flags, filtered, in order (now `{txt[:160]}`): the view's elements / positional names no longer correspond to the fields the user enabled "
                    "(e.g. a tuple struct whose selected field is not the first one is accessed as `.0`)",
                    {},
                )
        elif kind_ == "index":
            if not INDEX_VIEW.fullmatch(txt):
                ctx.report(f"view:{name}", where, f"`State::{name}` no longer returns the original positions of the enabled fields (now `{txt[:160]}`): patterns built by `matcher` bind the wrong fields when an ignored field lies between two kept ones", {})
        else:
            if not INFO_VIEW.fullmatch(txt):
                ctx.report(f"view:{name}", where, f"`State::{name}` changed: `{txt[:160]}`", {})
    fn = A.get_fn(ctx.files, UTILS, "State::field_idents")
    txt = A.render_norm(A.norm_ast(fn.block["stmts"][-1]["0"]))
    ctx.instance("State::field_idents", sample=txt)
    ok = re.fullmatch(
        r'if self\.derive_type==DeriveType::Named\{self\.fields\.iter\(\)\.map\(\|(%s)\|\1\.ident\.as_ref\(\)\.expect\("[^"]*"\)\.to_token_stream\(\)\)\.collect\(\)\}else \{let count=self\.fields\.len\(\);\(0\.\.count\)\.map\(\|(%s)\|Index::from\(\2\)\.to_token_stream\(\)\)\.collect\(\)\}' % (V, V),
        txt,
    )
    if not ok:
        ctx.report("view:field_idents", ctx.where(fn.file, fn.node), f"`State::field_idents` no longer names fields by identifier / original index 0..len: `{txt[:200]}`", {})
    # members = self.<ident> per enabled ident; assert_single_enabled_field takes element 0 of each view
    efd = A.get_fn(ctx.files, UTILS, "State::enabled_fields_data")
    t = A.fn_text(efd)
    ctx.instance("enabled_fields_data:members")
    mem_ok = "field_idents.iter().map(|ident|quote!(self.#ident)).collect()" in t
    if not mem_ok:
        # the same template with `self` hoisted (`#receiver.#ident`)
        mem_ok = A.wsearch(t, "field_idents.iter().map(|ident|quote!(#receiver.#ident)).collect()") is not None and any(
            T.ir_text(T.compose(efd, tt_.ir)).replace(" ", "") == "self.#ident" for tt_ in T.templates_of(efd)
        )
    if not mem_ok:
        ctx.report("view:members", ctx.where(efd.file, efd.node), "`members` are no longer `self.#ident` for each enabled field identifier", {"text": t[:300]})
    # VIEW-CONSISTENT: the per-field vectors of MultiFieldData are parallel arrays over the *enabled* fields
    lit = next((x for x, _ in A.find(efd.block, "Expr::Struct") if A.path_last(x["path"]) == "MultiFieldData"), None)
    if lit is None:
        raise A.AnchorLost(f"{UTILS}::State::enabled_fields_data", "MultiFieldData literal")
    lets = {}
    for st, _ in A.find(efd.block, "Stmt::Local"):
        ns = A.pat_idents(st["pat"])
        if len(ns) == 1 and st.get("init"):
            lets[ns[0]] = st["init"]["expr"]

    def origin(e, depth=0):
        """('enabled', view) | ('other', text) for the collection an expression is derived from 1:1"""
        root, ops = A.chain(e)
        for o in ops:
            if o[0] == "m" and o[1] in ("filter", "filter_map", "skip", "take", "rev", "skip_while", "take_while", "flat_map", "chain", "zip"):
                return ("other", f"uses `.{o[1]}(..)`")
        k = A.kind(root)
        if k == "Expr::Reference":
            return origin(root["expr"], depth)
        if k == "Expr::Path":
            nm = A.path_str(root)
            if nm == "self":
                first = ops[-1] if ops else None
                if first and first[0] == "m" and first[1].startswith("enabled_"):
                    return ("enabled", first[1])
                return ("other", A.render(e)[:80])
            if nm in lets and depth < 6:
                return origin(lets[nm], depth + 1)
        return ("other", A.render(e)[:80])

    parallel = ("fields", "field_types", "field_indexes", "members", "infos", "field_idents", "casted_traits")
    seen = set()
    for fv in lit["fields"]:
        nm = fv["member"]["0"]["sym"] if A.kind(fv["member"]) == "Member::Named" else None
        if nm not in parallel:
            continue
        seen.add(nm)
        o = origin(fv["expr"])
        ctx.instance(f"enabled_fields_data:{nm}", sample={"vector": nm, "derived_from": o})
        if o[0] != "enabled":
            ctx.report(
                f"view:parallel:{nm}",
                ctx.where(efd.file, fv["expr"]),
                f"`MultiFieldData::{nm}` is built from `{o[1]}` and not 1:1 from one of the `enabled_*` views: it is no longer parallel to `fields` - consumers that zip / index it by enabled position "
                "(Error reads each field's `source` / `backtrace` attributes from `infos[i]`) look at a neighbour's entry as soon as an ignored field precedes",
                {},
            )
    if set(parallel) - seen:
        raise A.AnchorLost(f"{UTILS}::State::enabled_fields_data", f"per-field vectors missing in the literal: {sorted(set(parallel) - seen)}")
    # the same for the per-variant vectors of MultiVariantData (Unwrap / TryUnwrap / IsVariant / TryInto zip them)
    evd = A.get_fn(ctx.files, UTILS, "State::enabled_variant_data")
    vlit = next((x for x, _ in A.find(evd.block, "Expr::Struct") if A.path_last(x["path"]) == "MultiVariantData"), None)
    if vlit is None:
        raise A.AnchorLost(f"{UTILS}::State::enabled_variant_data", "MultiVariantData literal")
    lets.clear()
    for st, _ in A.find(evd.block, "Stmt::Local"):
        ns = A.pat_idents(st["pat"])
        if len(ns) == 1 and st.get("init"):
            lets[ns[0]] = st["init"]["expr"]
    vparallel = ("variants", "variant_states", "infos")
    vseen = set()
    for fv in vlit["fields"]:
        nm = fv["member"]["0"]["sym"] if A.kind(fv["member"]) == "Member::Named" else None
        if nm not in vparallel:
            continue
        vseen.add(nm)
        o = origin(fv["expr"])
        ctx.instance(f"enabled_variant_data:{nm}", sample={"vector": nm, "derived_from": o})
        if o[0] != "enabled":
            ctx.report(
                f"view:parallel-variants:{nm}",
                ctx.where(evd.file, fv["expr"]),
                f"`MultiVariantData::{nm}` is built from `{o[1]}` and not 1:1 from one of the `enabled_*` views: it is no longer parallel to `variants` - consumers that zip it with the enabled variants "
                "(Unwrap / TryUnwrap read each variant's owned / ref / ref_mut selection from `infos`) give every variant after an ignored one the selection of its predecessor: accessors silently appear / disappear",
                {},
            )
    if set(vparallel) - vseen:
        raise A.AnchorLost(f"{UTILS}::State::enabled_variant_data", f"per-variant vectors missing in the literal: {sorted(set(vparallel) - vseen)}")
    asf = A.get_fn(ctx.files, UTILS, "State::assert_single_enabled_field")
    t = A.fn_text(asf)
    ctx.instance("assert_single_enabled_field")
    for part in ("data.fields.len()!=1", "field:data.fields[0]", "field_type:data.field_types[0]", "member:data.members[0].clone()", "casted_trait:data.casted_traits[0].clone()", "info:data.infos[0].clone()"):
        if part not in t:
            ctx.report(f"single-field:{part}", ctx.where(asf.file, asf.node), f"`assert_single_enabled_field` no longer has `{part}`: the delegating derives may pick a field other than the single enabled one", {})
    mfn = A.get_fn(ctx.files, UTILS, "MultiFieldData::matcher")
    t = A.render_norm({"_": "Expr::Block", "block": mfn.block}) if False else A.fn_text(mfn)
    ctx.instance("matcher")
    if "indexes.iter().position(|index|i==*index).map_or_else(||quote!(_),|found_index|bindings[found_index].to_token_stream())" not in t:
        ctx.report("matcher", ctx.where(mfn.file, mfn.node), "`matcher` no longer emits `_` for unlisted positions and `bindings[k]` at the k-th listed position", {"text": t[:300]})


def rule_error_selection(ctx):
    """ERR-SEL: the source/backtrace field is chosen as documented: a field explicitly marked (`Some(true)`) beats an inferred one, `not(..)` (`Some(false)`) never qualifies, two candidates at either level are an error, inference uses the documented defaults (named: field called `source`; tuple: the sole field unless Backtrace-typed; two-field tuple: the non-backtrace one), ignored variants produce no arm, and only the selected expression is converted with `.as_dyn_error()`."""
    f = ctx.files[ERR]
    fn = A.get_fn(ctx.files, ERR, "parse_field_impl")
    where = ctx.where(f, fn.node)
    t = A.fn_text(fn)
    checks = [
        ("explicit-filter", ["let explicit=iter.clone().filter(|(_,_,info)|matches!(value(info),Some(true)))", "let explicit=iter.clone().filter(|(_,_,info)|value(info)==Some(true))"], "explicit candidates are exactly the fields whose attribute value is `Some(true)`"),
        ("inferred-filter", ["let inferred=iter.filter(|(_,field,info)|match value(info){None=>is_valid_default_field_for_attr(attr,field,len),_=>false})", "let inferred=iter.filter(|(_,field,info)|value(info).is_none()&&is_valid_default_field_for_attr(attr,field,len))", "let inferred=iter.filter(|(_,field,info)|{value(info).is_none()&&is_valid_default_field_for_attr(attr,field,len)})"], "inferred candidates are the un-annotated (`None`) fields accepted by the layout's default predicate; `Some(false)` never qualifies"),
        ("explicit-unique", ["let first=assert_iter_contains_zero_or_one_item(explicit,"], "two explicit candidates are an error"),
        ("precedence", ["let chosen=match first{first@Some(_)=>first,None=>assert_iter_contains_zero_or_one_item(inferred,"], "explicit beats inferred; two inferred candidates are an error"),
    ]
    # roles instead of names: the first parameter is the layout's default predicate, the last one reads the attribute's
    # value, and the helper that turns "at most one candidate" into an error is whatever both candidate lists go through
    prm = [A.pat_idents(p_["0"]["pat"]) for p_ in fn.node["sig"]["inputs"] if A.kind(p_) == "FnArg::Typed"]
    if len(prm) != 5 or any(len(x) != 1 for x in prm):
        raise A.AnchorLost(f"{ERR}::parse_field_impl", f"parameters {prm}")
    p_default, p_value = prm[0][0], prm[4][0]
    helpers = re.findall(r"=(\w+)\((?:explicit|inferred|\w+),&?(?:format!|\")", t)
    hm = re.findall(r"(\w+)\(\w+,(?:&format!\(|\")", t)
    helper = max(set(hm), key=hm.count) if hm else None
    if helper is None or hm.count(helper) != 2:
        raise A.AnchorLost(f"{ERR}::parse_field_impl", f"'at most one candidate' helper (calls found: {hm})")

    def canon(x):
        return x.replace(p_value + "(", "VALUE(").replace(p_default + "(", "DEFAULT(").replace(helper + "(", "ATMOSTONE(")

    tc = canon(t)
    checks = [(k_, [pp.replace("value(", "VALUE(").replace("is_valid_default_field_for_attr(", "DEFAULT(").replace("assert_iter_contains_zero_or_one_item(", "ATMOSTONE(") for pp in pats], w_) for k_, pats, w_ in checks]
    for key, pats, what in checks:
        ctx.instance(f"parse_field_impl:{key}")
        if not any(A.wsearch(tc, p_) for p_ in pats):
            ctx.report(f"errsel:{key}", where, f"`parse_field_impl` lost the rule: {what}", {"text": t[:500]})
    az = A.get_fn(ctx.files, ERR, helper)
    t = A.fn_text(az)
    ctx.instance("zero-or-one")
    if A.wsearch(t, "let Some(item)=iter.next() else {return Ok(None)}") is None:
        ctx.report("errsel:zero-or-one", ctx.where(f, az.node), f"`{helper}` no longer returns `Ok(None)` for an empty candidate list", {})
    if A.wsearch(t, "if let Some((_,field,_))=iter.next(){return Err(Error::new(field.span(),error_msg))}") is None:
        ctx.report("errsel:ambiguity-error", ctx.where(f, az.node), "a second candidate no longer produces a compile error (an arbitrary field would be chosen)", {"text": t})
    # default predicates
    pf = A.get_fn(ctx.files, ERR, "parse_fields")
    t = A.fn_text(pf)
    tags = role_tags(ctx)
    S_, B_ = tags["source"], tags["backtrace"]
    ctx.note(f"role tags of the Error derive: source = {S_}, backtrace = {B_}")
    preds = [
        ("named-source", ['"source"=>ident=="source"'], "named: the field called `source`"),
        ("named-backtrace", ['"backtrace"=>{ident=="backtrace"||is_type_path_ends_with_segment(&field.ty,"Backtrace")}', '"backtrace"=>ident=="backtrace"||is_type_path_ends_with_segment(&field.ty,"Backtrace")'], "named: the field called `backtrace` or Backtrace-typed"),
        ("tuple-source", ['"source"=>{len==1&&!is_type_path_ends_with_segment(&field.ty,"Backtrace")}', '"source"=>len==1&&!is_type_path_ends_with_segment(&field.ty,"Backtrace")'], "tuple: the sole field, unless it is Backtrace-typed"),
        ("tuple-backtrace", ['"backtrace"=>{is_type_path_ends_with_segment(&field.ty,"Backtrace")}', '"backtrace"=>is_type_path_ends_with_segment(&field.ty,"Backtrace")'], "tuple: a Backtrace-typed field"),
        ("two-field", ["parsed.source=parsed.source.or_else(||infer_source_field("], "tuple: explicit/inferred source first, else the two-field inference"),
    ]
    # the arms are keyed by the role tag (a string, or a variant of a private enum): `"source" =>` / `FieldAttr::Source =>`
    preds = [(k_, [re.sub(r'^"source"=>', S_ + "=>", re.sub(r'^"backtrace"=>', B_ + "=>", p_)) for p_ in pats], w_) for k_, pats, w_ in preds]
    for key, pats, what in preds:
        ctx.instance(f"default:{key}")
        if not any(A.wsearch(t, p_) for p_ in pats):
            ctx.report(f"errsel:default:{key}", ctx.where(f, pf.node), f"default source/backtrace inference changed ({what})", {})
    # 'Backtrace-typed': the type is a path whose LAST segment is the name, without generic arguments - however the path
    # is qualified (`std::backtrace::Backtrace`, `::std::backtrace::Backtrace`, `bt::Backtrace`)
    seg = A.get_fn(ctx.files, ERR, "is_type_path_ends_with_segment")
    st_ = A.fn_text(seg)
    sprm = [A.pat_idents(p_["0"]["pat"]) for p_ in seg.node["sig"]["inputs"] if A.kind(p_) == "FnArg::Typed"]
    tailp = sprm[1][0] if len(sprm) == 2 and sprm[1] else "tail"
    ctx.instance("backtrace-type:last-segment", sample=st_[:300])
    last_seg = re.search(r"\.segments\.(last\(\)|iter\(\)\.(last|next_back)\(\))", st_) is not None
    whole_path = re.search(r"\.(is_ident|get_ident|require_ident)\(|segments\.(first\(\)|len\(\))|segments\[0\]", st_) is not None
    cmp_tail = re.search(r"\.ident\s*==\s*%s\b|%s\s*==\s*\w+\.ident\b" % (re.escape(tailp), re.escape(tailp)), st_) is not None
    no_args = re.search(r"PathArguments::None|\.arguments\.is_(none|empty)\(\)", st_) is not None
    if not (last_seg and cmp_tail and no_args) or whole_path:
        ctx.report(
            "errsel:backtrace-type:last-segment",
            ctx.where(seg.file, seg.node),
            "`is_type_path_ends_with_segment` no longer compares the *last* path segment (without generic arguments) with the name: a test on the whole path (`Path::is_ident`) "
            "needs a single segment, so `std::backtrace::Backtrace` stops counting as a backtrace type - the two-field inference `Q(Inner, std::backtrace::Backtrace)` is lost and `source()` returns `None` instead of field 0",
            {"body": st_[:300]},
        )
    inf = A.get_fn(ctx.files, ERR, "infer_source_field")
    # OPT-ALG: the two-field inference is evaluated on every combination of its observations and compared with the
    # documented table: exactly two fields, no source yet, a backtrace field at position b -> the *other* field,
    # unless that field is marked `not(source)`
    from .. import optalg as O

    prm = [A.pat_idents(p_["0"]["pat"]) for p_ in inf.node["sig"]["inputs"] if A.kind(p_) == "FnArg::Typed"]
    if len(prm) not in (1, 2) or any(len(x) != 1 for x in prm):
        raise A.AnchorLost(f"{ERR}::infer_source_field", f"parameters {prm}")
    # (the field slice and the parsed fields; or the parsed fields alone, the slice read through `.data.fields`)
    P2 = prm[-1][0]
    P1 = prm[0][0] if len(prm) == 2 else f"{P2}.data.fields"
    bad = []
    n_cases = 0
    for n_ in (1, 2, 3):
        for src in (O.NONE, O.some(0)):
            for bt in (O.NONE, O.some(0), O.some(1)):
                for s0 in (O.NONE, O.some(True), O.some(False)):
                    for s1 in (O.NONE, O.some(True), O.some(False)):
                        env = {f"{P1}.len()": n_, f"{P2}.source": src, f"{P2}.backtrace": bt, f"{P2}.data.infos[0].info.source": s0, f"{P2}.data.infos[1].info.source": s1}
                        _e, out = O.run_fn_body(inf.block["stmts"], env)
                        got = out[1]
                        if n_ != 2 or src != O.NONE or bt == O.NONE:
                            want = O.NONE
                        else:
                            other = (bt[1] + 1) % 2
                            want = O.NONE if (s0, s1)[other] == O.some(False) else O.some(other)
                        n_cases += 1
                        if got != want:
                            bad.append(({"fields": n_, "source": src, "backtrace": bt, "not(source)": (s0, s1)}, got, want))
    ctx.cur.instances += n_cases
    ctx.instance("infer_source_field", sample={"cases": n_cases, "disagreements": len(bad)})
    if bad:
        c0, got, want = bad[0]
        ctx.report(
            "errsel:two-field",
            ctx.where(f, inf.node),
            f"the two-field inference `infer_source_field` disagrees with the documented table in {len(bad)} of {n_cases} cases, e.g. {c0}: it yields {got} instead of {want} "
            "(exactly two fields, no source selected yet, backtrace at position b -> the other field unless that field is `not(source)`)",
            {"cases": [str(b[0]) for b in bad[:6]]},
        )
    # ignored variants: the loop runs over the enabled variants only
    re_fn = A.get_fn(ctx.files, ERR, "render_enum")
    loops = [x for x, _ in A.find(re_fn.block, "Expr::ForLoop")]
    ctx.instance("render_enum:loop")
    if len(loops) != 1 or A.render(loops[0]["expr"]) != "state.enabled_variant_data().variants":
        ctx.report(
            "errsel:ignored-variants",
            ctx.where(f, re_fn.node),
            f"`render_enum` iterates over `{A.render(loops[0]['expr']) if loops else '?'}` instead of the enabled variants (`state.enabled_variant_data().variants`): "
            "an `#[error(ignore)]`d variant whose field carries its own `#[error(..)]` attribute gets a `source()` arm",
            {},
        )
    t = A.fn_text(re_fn)
    ctx.instance("render_enum:fallthrough")
    # where is the wildcard arm `_ => <unmatched>` pushed, and under which condition? (closure or helper function,
    # template written in one piece or assembled)
    from . import reject as RJ

    found = []
    for g in [re_fn] + [h for h in A.functions(f) if h.block is not None and h is not re_fn and h.impl is None and re.search(r"\b%s\(" % re.escape(h.name), t)]:
        wild_vars = {tt_.node["path"]["segments"][0]["ident"]["sym"] for tt_ in T.built_templates(g) if A.TTxt(T.ir_text(tt_.ir).replace(" ", "")).same("_=>#unmatched")}
        for mc, ps in A.find(g.block, "Expr::MethodCall"):
            if mc["method"]["sym"] != "push" or not mc["args"]:
                continue
            a = mc["args"][0]
            toks = T._quote_tokens(a, g)
            is_wild = toks is not None and A.TTxt(T.ir_text(T.compose(g, T.to_ir(toks))).replace(" ", "")).same("_=>#unmatched")
            if not is_wild and A.kind(a) == "Expr::Path" and A.path_str(a) in wild_vars:
                is_wild = True
            if not is_wild:
                continue
            chain = RJ.guard_chain(g, mc, ps, RJ._lets(g))
            cond = chain[-1] if chain else ""
            m_ = re.fullmatch(r"if !\((\w+)\.is_empty\(\)\)&&\1\.len\(\)<(.+)", cond)
            total = m_.group(2) if m_ else None
            ok_total = False
            if total is not None:
                if re.fullmatch(r"\w+\.variants\.len\(\)", total):
                    ok_total = True
                elif re.fullmatch(r"\w+", total) and g is not re_fn:
                    # a parameter of the helper: every call must hand over the number of *all* variants
                    prm = [A.pat_idents(p_["0"]["pat"]) for p_ in g.node["sig"]["inputs"] if A.kind(p_) == "FnArg::Typed"]
                    idx = next((i for i, x in enumerate(prm) if x == [total]), None)
                    calls = [c for c, _ in A.find(re_fn.block, "Expr::Call") if A.kind(c["func"]) == "Expr::Path" and A.path_str(c["func"]) == g.name]
                    lets_ = RJ._lets(re_fn)
                    ok_total = idx is not None and bool(calls) and all(re.fullmatch(r"\(?\w+\.variants\.len\(\)\)?", RJ._inline(A.render(c["args"][idx]), lets_)) for c in calls)
            found.append((cond, ok_total))
    if len(found) != 1 or not found[0][1]:
        ctx.report("errsel:fallthrough", ctx.where(f, re_fn.node), f"the `_ => None` arm is no longer added exactly when fewer arms than (all) variants exist (pushed under {[c for c, _ in found]})", {})
    # struct path: members[source]; as_dyn_error on the selected expression only
    rs = A.get_fn(ctx.files, ERR, "render_some")
    ts = T.templates_both(rs)
    ctx.instance("render_some")
    if len(ts) != 1 or not T.ir_text(ts[0].ir).replace(" ", "").endswith("Option::Some(#expr.as_dyn_error())"):
        ctx.report("errsel:render_some", ctx.where(f, rs.node), "`render_some` no longer yields `Some(<selected>.as_dyn_error())`", {})
    st = A.get_fn(ctx.files, ERR, "ParsedFields::render_source_as_struct")
    t = A.fn_text(st)
    ctx.instance("render_source_as_struct")
    if "let source=self.source?;let ident=&self.data.members[source];Some(render_some(quote!(#ident)))" not in t:
        ctx.report("errsel:struct-member", ctx.where(f, st.node), "struct `source()` no longer returns the member at the selected (enabled) position", {"text": t})



def role_tags(ctx):
    """How the Error derive names the two roles internally: the values `parse_fields_impl` hands to `parse_field_impl`
    for the source and the backtrace search - string literals on the pinned tree, possibly variants of a private enum.
    {"source": rendered expr, "backtrace": rendered expr}"""
    fn = A.get_fn(ctx.files, ERR, "parse_fields_impl")
    out = {}
    for c, _ in A.find(fn.block, "Expr::Call"):
        if A.kind(c["func"]) == "Expr::Path" and A.path_str(c["func"]).split("::")[-1] == "parse_field_impl":
            for a in c["args"]:
                r = A.render(a)
                low = r.strip('"').split("::")[-1].lower()
                if low in ("source", "backtrace") and (r.startswith('"') or "::" in r):
                    out[low] = r
    if set(out) != {"source", "backtrace"}:
        raise A.AnchorLost(f"{ERR}::parse_fields_impl", f"role tags handed to parse_field_impl: {out}")
    return out
