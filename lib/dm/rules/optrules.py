"""OPT-ALG rules: attribute merging / inheritance written with Option combinators, decided by evaluating the source on
all None/Some combinations (lib/dm/optalg.py) and comparing with the documented table."""
import re

from .. import ast as A
from .. import optalg as O

DISPLAY = "impl/src/fmt/display.rs"
MOD = "impl/src/fmt/mod.rs"

# (file, fn-qual suffix, field): two attributes on one item are merged; a field given twice is an error, a field given
# once (by either attribute, in either order) is kept
MERGES = [
    (DISPLAY, "<ContainerAttributes as ParseMultiple>::merge_attrs", "rename_all"),
    (MOD, "<ContainerAttributes as ParseMultiple>::merge_attrs", "fmt"),
]


def _fn(ctx, rel, qual):
    f = ctx.files.get(rel)
    if f is None:
        raise A.AnchorLost(rel, "file missing")
    c = [fn for fn in A.functions(f) if fn.qual == qual or fn.qual.endswith(qual)]
    if len(c) != 1:
        raise A.AnchorLost(f"{rel}::{qual}", f"{len(c)} definitions found")
    return c[0]


def _show(v):
    if v == O.NONE:
        return "None"
    if v == O.TOP:
        return "<unknown>"
    if isinstance(v, tuple) and v and v[0] == "Some":
        return f"Some({v[1] if isinstance(v[1], str) else _show(v[1])})"
    return str(v)


def rule_option_flow(ctx):
    """OPT-ALG: (merge) when two attributes on one item are merged, a singular field (`rename_all`, the format literal) given by both is a definite error, and given by one of them - in either order - it survives in the merged value; (inherit) a variant's own `rename_all` wins and the enum's is used only as the fallback. The code is evaluated on all four None/Some combinations and compared with that table."""
    for rel, qual, field in MERGES:
        fn = _fn(ctx, rel, qual)
        w = ctx.where(fn.file, fn.node)
        params = [A.render_pat(p["0"]["pat"]) for p in fn.node["sig"]["inputs"] if A.kind(p) == "FnArg::Typed"]
        if len(params) < 2:
            raise A.AnchorLost(f"{rel}::{qual}", f"parameters {params}")
        prev, new = params[0], params[1]
        for P in (O.NONE, O.some("first")):
            for N in (O.NONE, O.some("second")):
                case = f"{_show(P)}+{_show(N)}"
                ctx.instance(f"merge:{rel}:{field}:{case}", sample={"fn": f"{rel}::{fn.qual}", "case": case})
                env, out = O.run_fn_body(fn.block["stmts"], {f"{prev}.{field}": P, f"{new}.{field}": N})
                got = env.get(f"{prev}.{field}")
                is_err = out[0] == "return" and out[1] == ("Err",)
                if P != O.NONE and N != O.NONE:
                    if not is_err:
                        ctx.report(f"merge:{rel}:{field}:dup", w, f"`{fn.qual}`: `{field}` given by both attributes is not a definite `return Err(..)` (evaluated outcome: {out[0]}, merged value {_show(got)}): a duplicate is silently accepted", {"case": case})
                    continue
                want = P if P != O.NONE else N
                if is_err:
                    ctx.report(f"merge:{rel}:{field}:spurious-error:{case}", w, f"`{fn.qual}` rejects `{field}` given once ({case})", {})
                elif got != want:
                    ctx.report(
                        f"merge:{rel}:{field}:lost:{case}",
                        w,
                        f"`{fn.qual}`: with `{field}` = {_show(P)} on the first and {_show(N)} on the second attribute the merged value is {_show(got)} instead of {_show(want)}: "
                        f"`{field}` is dropped depending on the order in which independent attributes are written",
                        {"case": case},
                    )
    # inheritance of rename_all from the enum to its variants
    fn = _fn(ctx, DISPLAY, "expand_enum")
    cl = [c for c, ps in A.find(fn.block, "Expr::Closure") if any(A.kind(p) == "Expr::MethodCall" and p["method"]["sym"] in ("try_fold", "fold", "map", "try_for_each", "for_each") and A.render(p["receiver"]).endswith(".variants.iter()") for p in ps[-2:])]
    bodies = [(c["inputs"], c["body"]) for c in cl]
    for fl, _ in A.find(fn.block, "Expr::ForLoop"):
        if A.render(fl["expr"]).rstrip(")").endswith(".variants") or ".variants.iter()" in A.render(fl["expr"]):
            bodies.append(([fl["pat"]], fl["body"]))
    if len(bodies) != 1:
        raise A.AnchorLost(f"{DISPLAY}::expand_enum", f"per-variant loop bodies found: {len(bodies)}")
    body = bodies[0][1]
    stmts = body["block"]["stmts"] if A.kind(body) == "Expr::Block" else body["stmts"]

    def is_expansion(st):
        return any(A.path_last(x["path"]) == "Expansion" for x, _ in A.find(st, "Expr::Struct"))

    exp = next((st for st in stmts if is_expansion(st)), None)
    if exp is None:
        raise A.AnchorLost(f"{DISPLAY}::expand_enum", "`Expansion { .. }` literal in the per-variant body")
    lit = next(x for x, _ in A.find(exp, "Expr::Struct") if A.path_last(x["path"]) == "Expansion")
    # which places feed the Expansion's own attributes / the parsed container attributes
    own = None
    for fv in lit["fields"]:
        nm = fv["member"]["0"]["sym"] if A.kind(fv["member"]) == "Member::Named" else None
        if nm == "attrs":
            own = O._place(fv["expr"])
    # the container attributes parameter: the one whose `.rename_all` is read in the body
    txt = ";".join(A.render_stmt(s) for s in stmts)
    cands = set(re.findall(r"\b(\w+)\.rename_all\b", txt)) - {own}
    if own is None or len(cands) != 1:
        raise A.AnchorLost(f"{DISPLAY}::expand_enum", f"own attrs place {own}, container candidates {sorted(cands)}")
    cont = cands.pop()
    w = ctx.where(fn.file, exp)
    for V in (O.NONE, O.some("variant")):
        for C in (O.NONE, O.some("enum")):
            case = f"variant={_show(V)},enum={_show(C)}"
            ctx.instance(f"inherit:rename_all:{case}", sample={"fn": f"{DISPLAY}::expand_enum", "case": case})
            env, out = O.run_fn_body(stmts, {f"{own}.rename_all": V, f"{cont}.rename_all": C}, stop_at=is_expansion)
            got = env.get(f"{own}.rename_all")
            want = V if V != O.NONE else C
            if out[0] == "return":
                ctx.report(f"inherit:rename_all:return:{case}", w, f"`expand_enum` returns before expanding a variant with {case}", {})
            elif got != want:
                ctx.report(
                    f"inherit:rename_all:{case}",
                    w,
                    f"`expand_enum`: with {case} the variant is expanded with `rename_all` = {_show(got)} instead of {_show(want)}: the variant's own `rename_all` must win and the enum's is only the fallback",
                    {},
                )


def rule_meta_defaults(ctx):
    """OPT-ALG(meta): `MetaInfo::into_full` resolves every legacy attribute flag (`enabled`, `forward`, `owned`, `ref`, `ref_mut`) the same way: the item's own setting wins - also an explicit `not(..)`, i.e. `Some(false)` - and the inherited default is used only when the item says nothing; no flag reads another flag's slot. Each field initialiser is evaluated on own in {None, Some(true), Some(false)} x default in {true, false} with every *other* slot unknown."""
    fn = _fn(ctx, "impl/src/utils.rs", "MetaInfo::into_full")
    lit = next((x for x, _ in A.find(fn.block, "Expr::Struct") if A.path_last(x["path"]) == "FullMetaInfo"), None)
    if lit is None:
        raise A.AnchorLost("impl/src/utils.rs::MetaInfo::into_full", "FullMetaInfo literal")
    params = [A.render_pat(p["0"]["pat"]) for p in fn.node["sig"]["inputs"] if A.kind(p) == "FnArg::Typed"]
    if len(params) != 1:
        raise A.AnchorLost("impl/src/utils.rs::MetaInfo::into_full", f"parameters {params}")
    dflt = params[0]
    flags = []
    for fv in lit["fields"]:
        nm = fv["member"]["0"]["sym"] if A.kind(fv["member"]) == "Member::Named" else None
        if nm is None:
            continue
        if A.render(fv["expr"]) == "self":
            continue
        flags.append((nm, fv))
    ctx.floor("legacy attribute flags", len(flags), 5)
    for nm, fv in flags:
        for own in (O.NONE, O.some(True), O.some(False)):
            for d in (True, False):
                case = f"own={_show(own)},default={d}"
                ctx.instance(f"meta:{nm}:{case}", sample={"flag": nm, "case": case, "expr": A.render(fv["expr"])})
                env = O.Env({f"self.{nm}": own, f"{dflt}.{nm}": d})
                try:
                    got = O.ev(fv["expr"], env)
                except O.Return:
                    got = O.TOP
                want = own[1] if own != O.NONE else d
                if got is not want and got != want or isinstance(got, tuple):
                    ctx.report(
                        f"meta:{nm}:{case}",
                        ctx.where(fn.file, fv["expr"]),
                        f"`MetaInfo::into_full`: `{nm}` is computed as `{A.render(fv['expr'])}`; with {case} it yields {_show(got) if isinstance(got, tuple) else got} instead of {want}: "
                        + ("it reads another flag's slot" if got == O.TOP else "an explicit setting of the item (e.g. `not(forward)`) no longer overrides the inherited default")
                        + " - the derives that consult this flag (forwarding of Deref/Index/Mul.., reference kinds of Unwrap/TryInto/IntoIterator, `ignore`) decide for the wrong kind of impl",
                        {},
                    )


class _FieldEnv(O.Env):
    """an environment in which `<anything>.<field>` reads the seeded field value (closure parameters may have any name)"""

    def __init__(self, places, fields):
        super().__init__(places)
        self.fields = fields

    def get(self, name):
        if "." in name:
            tail = name.rsplit(".", 1)[1]
            if tail in self.fields:
                return self.fields[tail]
        return super().get(name)


def _let(fn, name):
    for st, _ in A.find(fn.block, "Stmt::Local"):
        pat = st["pat"]
        if A.kind(pat) == "Pat::Type":
            pat = pat["pat"]
        if A.kind(pat) == "Pat::Ident" and pat["ident"]["sym"] == name and st.get("init"):
            return st["init"]["expr"]
    return None


def rule_enabled_default(ctx):
    """ENABLED-DEFAULT: the legacy attribute state (`State::new_impl`, 16 derives) decides which un-annotated fields / variants take part from the *first* field or variant that says anything about enabling - `#[x]`/`#[x(forward)]` (enabled = Some(true)) switches the others off, `#[x(ignore)]` (Some(false)) leaves them on - and, for `Error`, never switches anything off (its fields are inferred). The selecting closure is evaluated on enabled in {None, Some(true), Some(false)}, the default on trait in {Error, other} x first match in {none, Some(true), Some(false)}."""
    fn = _fn(ctx, "impl/src/utils.rs", "State::new_impl")
    w = ctx.where(fn.file, fn.node)
    fm = _let(fn, "first_match")
    de = _let(fn, "default_enabled")
    if fm is None or de is None:
        raise A.AnchorLost("impl/src/utils.rs::State::new_impl", "`first_match` / `default_enabled`")
    root, ops = A.chain(fm)
    calls = [o for o in ops if o[0] == "m"]
    if not calls or calls[-1][1] not in ("find_map", "find") or [o[1] for o in calls[:-1]] != ["iter"]:
        raise A.AnchorLost("impl/src/utils.rs::State::new_impl", f"`first_match` is not a forward search: {A.render(fm)[:80]}")
    last = fm
    while A.kind(last) != "Expr::MethodCall":
        last = last["expr"]
    cl = last["args"][0] if last["args"] else None
    for en in (O.NONE, O.some(True), O.some(False)):
        case = f"enabled={_show(en)}"
        ctx.instance(f"first_match:{case}", sample={"closure": A.render(cl) if cl else None, "case": case})
        env = _FieldEnv({}, {"enabled": en})
        try:
            got = O._call_closure(cl, ["INFO"], env) if cl is not None and A.kind(cl) == "Expr::Closure" else O.TOP
        except O.Return:
            got = O.TOP
        sel = (got != O.NONE) if (calls[-1][1] == "find_map" and O._is_opt(got)) else got if isinstance(got, bool) and calls[-1][1] == "find" else None
        want = en != O.NONE
        if sel is not want:
            ctx.report(f"enabled-default:first_match:{case}", ctx.where(fn.file, fm), f"`first_match` (`{A.render(fm)[:90]}`) {'selects' if sel else 'skips' if sel is False else 'cannot be shown to ' + ('select' if want else 'skip')} an item with {case}: the default of un-annotated fields / variants must follow the *first* item that says anything about enabling (`#[x(ignore)]` first: the others stay enabled; `#[x]` first: the others are switched off)", {})
    for tn in ('"Error"', '"Display"'):
        for first in (None, True, False):
            case = f"trait={tn},first={'none' if first is None else 'Some(' + str(first).lower() + ')'}"
            ctx.instance(f"default_enabled:{case}", sample={"expr": A.render(de)[:120], "case": case})
            env = _FieldEnv({"trait_name": ("lit", tn), "first_match": O.NONE if first is None else O.some("INFO")}, {"enabled": O.TOP if first is None else O.some(first)})
            try:
                got = O.ev(de, env)
            except O.Return:
                got = O.TOP
            want = True if tn == '"Error"' else (True if first is None else not first)
            if got is not want:
                ctx.report(f"enabled-default:default:{case}", ctx.where(fn.file, de), f"`default_enabled` (`{A.render(de)[:90]}`) is {got if isinstance(got, bool) else 'not determined'} for {case}, expected {want}: " + ("derive(Error) infers its fields and must keep un-annotated ones enabled" if tn == '"Error"' else "un-annotated items are enabled exactly when the first annotated one does not enable itself"), {})
