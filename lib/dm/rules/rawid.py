"""RAW-ID: identifiers taken from the user's item are rendered without `r#` (C06, C13, C11, C12, C18).

Engine M lists every Ident -> text conversion rustc resolved (`<Ident as ToString>::to_string`,
`Argument::new_display::<Ident>` under format!/format_ident!). Engine S finds the expression at that
position, decides whether the identifier comes from the user's item (a `.ident` field of the input /
variant / field, directly or through lets), whether `IdentExt::unraw` was applied, and what the text
feeds: a `format_ident!` (an `r#` inside makes the macro panic), a template literal (generated code
shows the wrong name), a lookup, or a diagnostic.
"""
import re

from .. import ast as A
from .. import tpl as T
from .. import types as TY


def _is_user_ident_expr(fn, e, depth=0):
    """True/False/None: does `e` denote an identifier of the user's item?"""
    if depth > 5:
        return None
    root, ops = A.chain(e)
    names = [o[1] for o in ops if o[0] in ("m", "f")]
    # strip adaptor calls
    core = [o for o in ops if not (o[0] == "m" and o[1] in ("clone", "as_ref", "unwrap", "unwrap_or_else", "to_owned", "cloned", "expect"))]
    if core and core[-1][0] == "f" and core[-1][1] == "ident":
        return True
    if core and core[-1][0] == "m" and core[-1][1] == "unraw":
        return True  # unraw of something: still the user's identifier (and already fine)
    if not core and A.kind(root) == "Expr::Path":
        nm = A.path_str(root)
        if nm and "::" not in nm:
            sp = A.span_of(root)
            b = TY.resolve(fn, nm, sp[0] if sp else 0)
            if b is None:
                return None
            if b["kind"] in ("param", "closure", "arm", "for"):
                # parameters named like the user's identifiers
                if nm in ("variant_ident", "field_ident", "ident", "variant", "input_type", "enum_name"):
                    return True
                # for-loop / closure over collections of user idents
                if b["kind"] == "for" and b.get("init") is not None:
                    return None
                return None
            for fp, _ in A.find(b["pat"], "FieldPat"):
                m = fp["member"]
                mn = m["0"]["sym"] if A.kind(m) == "Member::Named" else None
                if nm in A.pat_idents(fp["pat"]):
                    return mn == "ident"
            if b.get("init") is not None:
                return _is_user_ident_expr(fn, b["init"], depth + 1)
    return None


def _has_unraw(e):
    root, ops = A.chain(e)
    ms = [o[1] for o in ops if o[0] == "m"]
    return "unraw" in ms


def _enclosing(ps, kinds):
    for p in reversed(ps):
        if A.kind(p) in kinds:
            return p
    return None


def _destination(fn, node, ps):
    """what the produced text feeds"""
    # inside the arguments of Error::new / new_spanned / panic / a `return Err(` -> diagnostic
    for p in reversed(ps):
        k = A.kind(p)
        if k == "Expr::Call":
            f = A.path_str(p["func"]) or ""
            if f.endswith("Error::new") or f.endswith("Error::new_spanned") or f.endswith("::error"):
                return "diagnostic"
            if f.endswith("Ident::new") or f.endswith("Ident::new_raw"):
                return "ident-new"
        if k == "Expr::Match":
            sc = p["expr"]
            sp, sn = A.span_of(sc), A.span_of(node)
            if sp and sn and sp[0] <= sn[0] and sn[1] <= sp[1]:
                return "lookup"
        if k == "Expr::Macro":
            nm = A.path_last(p["mac"]["path"])
            if nm in ("matches",):
                return "lookup"
    st = _enclosing(ps, ("Stmt::Local",))
    if st is not None:
        names = A.pat_idents(st["pat"])
        if len(names) == 1:
            var = names[0]
            sp = A.span_of(st)
            return _uses_of(fn, var, sp[1] if sp else 0)
    # expression statement feeding a method call such as `.push(..)` / `.entry(..)`
    for p in reversed(ps):
        if A.kind(p) == "Expr::MethodCall" and p["method"]["sym"] in ("entry", "push", "insert"):
            return "collection-key"
        if A.kind(p) == "Expr::Binary" and A.kind(p["op"]) in ("BinOp::Eq", "BinOp::Ne"):
            return "lookup"
    return "unknown"


def _uses_of(fn, var, after_off):
    dests = set()
    for t in T.templates_of(fn):
        sp = A.span_of(t.node["path"])
        if sp and sp[0] < after_off:
            continue
        if var in T.ir_vars(t.ir):
            # doc attributes are not code: `#[doc = #x]`
            if _only_in_doc_attr(t.ir, var):
                dests.add("doc")
            else:
                dests.add("template")
    for fi in T.format_idents_of(fn):
        if fi["span"][0] < after_off:
            continue
        for a in fi["args"]:
            if var in A.token_idents(a):
                dests.add("format_ident")
        if fi["pattern"] and ("{" + var + "}") in fi["pattern"]:
            dests.add("format_ident")
    for m, ps in A.macros(fn.block, ("format", "panic")):
        sp = A.span_of(m["path"])
        if sp and sp[0] < after_off:
            continue
        toks = A.token_idents(m["tokens"])
        pat = m["tokens"][0]["lit"].get("value") if m["tokens"] and A.kind(m["tokens"][0]) == "Literal" else ""
        if var in toks or (pat and "{" + var + "}" in pat):
            dests.add("message")
    if not dests:
        # compared with / matched against other names?
        for bn, _ in A.find(fn.block, "Expr::Binary"):
            if A.kind(bn["op"]) in ("BinOp::Eq", "BinOp::Ne") and var in A.idents_used(bn):
                return "lookup"
        for mc, _ in A.method_calls(fn.block, ("strip_prefix", "starts_with", "contains", "find")):
            if var in A.idents_used(mc):
                return "lookup"
        return "unknown"
    for d in ("format_ident", "template", "message", "doc"):
        if d in dests:
            return d
    return "unknown"


def _only_in_doc_attr(ir, var):
    """every splice of `var` stands in a message position: a `#[doc = ..]` attribute, the arguments of
    `panic!(..)` or of an `..Error::new(..)` / `..Error::<_>::new(..)` constructor (text shown to a human,
    no behaviour depends on it)"""
    ok_all = True
    found = False

    def msg_group(seq, gi):
        # group at seq[gi] is `( .. )`; is it preceded by `panic !` or `<X>Error [::<..>] :: new`?
        j = gi - 1
        if j >= 1 and seq[j]["t"] == "p" and seq[j]["c"] == "!" and seq[j - 1]["t"] == "id" and seq[j - 1]["s"] == "panic":
            return True
        if j >= 0 and seq[j]["t"] == "id" and seq[j]["s"] == "new":
            k = j - 1
            while k >= 0 and not (seq[k]["t"] == "id" and seq[k]["s"].endswith("Error")):
                if seq[k]["t"] == "id" and seq[k]["s"] not in ("_",):
                    return False
                k -= 1
            return k >= 0
        return False

    def walk(seq, in_msg):
        nonlocal ok_all, found
        for i, x in enumerate(seq):
            if x["t"] == "var" and x["s"] == var:
                found = True
                ok_all = ok_all and in_msg
            elif x["t"] in ("grp", "rep"):
                m = in_msg
                if x["t"] == "grp" and x["d"] == "[" and x["body"] and x["body"][0]["t"] == "id" and x["body"][0]["s"] == "doc":
                    m = True
                if x["t"] == "grp" and x["d"] == "(" and msg_group(seq, i):
                    m = True
                walk(x["body"], m)

    walk(ir, False)
    return found and ok_all


def conversions(ctx):
    """[(fn, expr-node, parents, kind)] for every Ident->text conversion rustc resolved, located in the tree"""
    m = ctx.mir
    sites = {}
    for b in m.bodies:
        for c in b["calls"]:
            is_ts = c["callee"].endswith("ToString::to_string") and c["self_ty"].replace("&", "") in ("syn::Ident", "proc_macro2::Ident")
            is_disp = c["callee"].endswith("Argument::<'_>::new_display") and any(a.replace("&", "").replace("'_ ", "") in ("syn::Ident", "proc_macro2::Ident") for a in c["args"])
            if is_ts or is_disp:
                sites.setdefault((c["rel"], c["line"]), []).append(("to_string" if is_ts else "display", c))
    return sites


def rule_raw_id(ctx):
    """RAW-ID: every conversion of a user identifier to text that feeds generated code (a template literal, a `format_ident!`) or a field lookup takes the result of `IdentExt::unraw`."""
    sites = conversions(ctx)
    fns = {}
    for fn in A.all_functions(ctx.files):
        fns.setdefault(fn.file.rel, []).append(fn)
    n = 0
    seen_keys = {}

    def okey(k):
        seen_keys[k] = seen_keys.get(k, -1) + 1
        return f"{k}#{seen_keys[k]}"

    for (rel, line), lst in sorted(sites.items()):
        f = ctx.files.get(rel)
        if f is None:
            continue
        for fn in fns.get(rel, []):
            lo, hi = TY.fn_span_lines(fn)
            if not (lo <= line <= hi):
                continue
            kinds = {k for k, _ in lst}
            # (a) `.to_string()` method calls on this line
            if "to_string" in kinds:
                for mc, ps in A.method_calls(fn.block, "to_string"):
                    if f.line(mc["method"]["span"][0]) != line:
                        continue
                    recv = mc["receiver"]
                    user = _is_user_ident_expr(fn, recv)
                    unraw = _has_unraw(recv)
                    dest = _destination(fn, mc, ps)
                    n += 1
                    construct = f"{rel}::{fn.qual}:{A.expr_text(f, recv)}.to_string()->{dest}"
                    ctx.instance(construct, nontrivial=bool(user), sample={"site": construct, "user_ident": user, "unraw": unraw})
                    if user and not unraw and dest in ("format_ident", "template", "lookup", "collection-key"):
                        ctx.report(
                            okey(f"{rel}::{fn.qual}:{A.expr_text(f, recv)}.to_string:{dest}"),
                            f"{rel}:{line}",
                            f"`{A.expr_text(f, recv)}.to_string()` in `{fn.qual}` renders a user identifier with its `r#` prefix and feeds a {dest}: "
                            + {"format_ident": "`format_ident!` panics on `r#` inside a name", "template": "generated code shows `r#name` instead of `name`", "lookup": "the name never matches the un-raw field / argument name", "collection-key": "the key differs from the un-raw name"}[dest],
                            {},
                        )
            # (b) inline captures `{ident}` in format_ident!/format!
            if "display" in kinds:
                for mac, ps in A.macros(fn.block, ("format_ident", "format")):
                    spn = A.span_of(mac["path"])
                    if not spn:
                        continue
                    toks = mac["tokens"]
                    if not toks or A.kind(toks[0]) != "Literal":
                        continue
                    msp = toks[0]["span"]
                    if not (f.line(spn[0]) <= line <= f.line(msp[1]) + 3):
                        continue
                    pat = toks[0]["lit"].get("value") or ""
                    import re as _re

                    caps = _re.findall(r"\{([A-Za-z_][A-Za-z0-9_]*)(?::[^}]*)?\}", pat)
                    macname = A.path_last(mac["path"])
                    if macname == "format":
                        # positional arguments that are plain variables: `format!("__{}", ident)`
                        arg, args_ = [], []
                        for t_ in toks[1:]:
                            if A.kind(t_) == "Punct" and A.punct_char(t_) == ",":
                                args_.append(arg)
                                arg = []
                            else:
                                arg.append(t_)
                        args_.append(arg)
                        for a_ in args_:
                            if len(a_) == 1 and A.kind(a_[0]) == "Ident" and a_[0]["sym"] not in caps:
                                caps.append(a_[0]["sym"])
                    for cap in caps:
                        b = TY.resolve(fn, cap, spn[0])
                        ty = TY.binding_type(ctx, fn, b) or ""
                        if ty.replace("&", "") not in ("syn::Ident", "proc_macro2::Ident"):
                            continue
                        fake = {"_": "Expr::Path", "attrs": [], "qself": None, "path": {"_": "Path", "leading_colon": None, "segments": [{"ident": {"_": "Ident", "sym": cap, "span": [spn[0], spn[0]]}, "arguments": "PathArguments::None"}]}}
                        user = _is_user_ident_expr(fn, fake)
                        dest = "format_ident" if macname == "format_ident" else _destination(fn, mac, ps)
                        n += 1
                        construct = f"{rel}::{fn.qual}:{macname}!({{{cap}}})->{dest}"
                        ctx.instance(construct, nontrivial=bool(user), sample={"site": construct, "user_ident": user})
                        if user and dest in ("format_ident", "template", "ident-new"):
                            ctx.report(
                                f"{rel}::{fn.qual}:{macname}!{{{cap}}}:{dest}",
                                f"{rel}:{f.line(spn[0])}",
                                f"`{macname}!(\"{pat}\")` in `{fn.qual}` captures the user identifier `{cap}` through `Display` (keeps `r#`): "
                                + ("`format_ident!` then panics for a raw identifier (inline captures bypass IdentFragment)" if dest == "format_ident" else "`Ident::new` panics on a name containing `r#` (\"not a valid Ident\")" if dest == "ident-new" else "generated code shows `r#name`"),
                                {},
                            )
    # (c) conversions written inside the token arguments of format_ident! (not parsed as expressions)
    for fn in A.all_functions(ctx.files):
        if not fn.file.rel.startswith("impl/src"):
            continue
        for fi in T.format_idents_of(fn):
            for a in fi["args"]:
                ids = A.token_idents(a)
                if "to_string" not in ids:
                    continue
                n += 1
                txt = A.tokens_text(a)
                user = "ident" in ids  # `.ident` of a variant / field / input
                construct = f"{fn.file.rel}::{fn.qual}:format_ident!({fi['pattern']!r}, {txt})"
                ctx.instance(construct, nontrivial=user, sample={"site": construct, "user_ident": user, "unraw": "unraw" in ids})
                if user and "unraw" not in ids:
                    ctx.report(
                        okey(f"{fn.file.rel}::{fn.qual}:format_ident!({fi['pattern']}):to_string-arg"),
                        f"{fn.file.rel}:{fi['line']}",
                        f"`format_ident!({fi['pattern']!r}, {txt})` in `{fn.qual}` builds an identifier from the text of a user identifier without `unraw()`: "
                        "for a raw identifier (`r#type`) the text contains `r#` and `format_ident!` panics (\"not a valid identifier\")",
                        {},
                    )
    # (d) an identity `format_ident!("{}", ident)` / `format_ident!("{ident}")` of an *identifier-typed* value copies the
    # identifier but strips its `r#` prefix (IdentFragment for Ident): the keyword itself is emitted
    nid = 0
    for fn in A.all_functions(ctx.files):
        if not fn.file.rel.startswith("impl/src"):
            continue
        for fi in T.format_idents_of(fn):
            pat = fi["pattern"] or ""
            m = re.fullmatch(r"\{(\w*)\}", pat)
            if not m:
                continue
            nid += 1
            var = m.group(1)
            if not var:
                a = fi["args"][0] if fi["args"] else []
                ids = A.token_idents(a)
                var = ids[0] if len(a) == 1 and ids else None
            if not var:
                continue
            ty, _b = TY.var_type_at(ctx, fn, var, fi["span"][0])
            ctx.instance(f"{fn.file.rel}::{fn.qual}:format_ident!({pat!r}):{var}", sample={"site": f"{fn.file.rel}:{fi['line']}", "argument": var, "type": ty})
            if ty and re.search(r"\bIdent\b", ty):
                ctx.report(
                    okey(f"{fn.file.rel}::{fn.qual}:format_ident!({pat}):identity-of-ident:{var}"),
                    f"{fn.file.rel}:{fi['line']}",
                    f"`format_ident!({pat!r}, ..)` in `{fn.qual}` re-creates the identifier `{var}` (type `{ty}`): `format_ident!` strips the `r#` prefix of identifier arguments, "
                    "so a raw field / variant name (`r#type`) is emitted as the bare keyword `type` and the expansion does not parse; use the identifier itself",
                    {},
                )
    ctx.floor("identity format_ident! sites", nid, 15)
    ctx.floor("Ident->text conversions located", n, 25)
