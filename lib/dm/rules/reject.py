"""REJECT-LEDGER: the conditions under which a derive refuses its input are a closed, audited set.

A derive either expands or reports a diagnostic. Both directions are properties: a *new* or *widened* refusal makes a
supported input fail (C01, C12, C13 ..: "every supported input is accepted"), a *removed* or *narrowed* one lets a
contradictory / meaningless attribute through silently (C17, C07, C09). Every diagnostic site (`syn::Error::new`,
`Error::new_spanned`, `input.error(..)`, `panic!`/`assert!` with a message) is located in the syntax tree together with
the chain of conditions (if / if-let / match-arm / guard, with polarity) that leads to it inside its function; local
`let` aliases are inlined and local names alpha-renamed so that behaviour-preserving rewrites keep the chain. The chain
is compared with the ledger rules/reject_ledger.json (frozen from the audited tree; regenerate with bin/mkledger after
a *reviewed* change of behaviour). No ledger row is ever written at check time.
"""
import json
import os
import re

from .. import ast as A
from .. import guardf as GF

LEDGER = os.environ.get("DM_LEDGER") or os.path.join(os.path.dirname(os.path.dirname(os.path.dirname(os.path.dirname(os.path.abspath(__file__))))), "rules", "reject_ledger.json")
PANIC_MACROS = {"panic", "assert", "assert_eq", "assert_ne"}


def _first_str(node):
    """first string literal below node (through format!(..) token lists)"""
    for x, _ in A.walk(node):
        k = A.kind(x)
        if k == "Lit::Str":
            return x["token"]["value"]
        if k == "Literal" and isinstance(x.get("lit"), dict) and x["lit"].get("kind") == "str":
            return x["lit"]["value"]
    return None


UNWRAPPING_ADAPTORS = {"and_then", "map", "is_some_and", "is_ok_and", "map_or", "map_or_else", "inspect"}


ITER_SOURCES = {"iter", "into_iter", "iter_mut", "chars", "char_indices", "enumerate", "zip", "filter", "filter_map", "skip", "rev", "chain", "values", "keys", "drain", "lines", "split", "bytes", "type_params", "lifetimes", "const_params", "pairs"}


def _lets(fn):
    """single-assignment immutable `let name = init;` bindings of a function (for inlining)"""
    count = {}
    inits = {}
    for st, _ in A.find(fn.block, "Stmt::Local"):
        pat = st["pat"]
        if A.kind(pat) == "Pat::Type":
            pat = pat["pat"]
        for n in A.pat_idents(st["pat"]):
            count[n] = count.get(n, 0) + 1
        if A.kind(pat) == "Pat::Ident" and not pat.get("mutability") and not pat.get("by_ref") and st.get("init") and not st["init"].get("diverge"):
            inits[pat["ident"]["sym"]] = st["init"]["expr"]
    # the parameter of a closure given to an Option / Result adaptor stands for the value inside the receiver:
    # `r.and_then(|p| f(p))` tests the same thing as `let p = r?; f(p)`
    for mc, _ in A.find(fn.block, "Expr::MethodCall"):
        if mc["method"]["sym"] in UNWRAPPING_ADAPTORS and len(mc["args"]) >= 1 and A.kind(mc["args"][-1]) == "Expr::Closure":
            # (an iterator's `.map(|elem| ..)` is not an unwrapping: its parameter is one element, a plain local name)
            if {o[1] for o in A.chain(mc["receiver"])[1] if o[0] == "m"} & ITER_SOURCES:
                continue
            cl = mc["args"][-1]
            if len(cl["inputs"]) == 1:
                cp = cl["inputs"][0]
                if A.kind(cp) == "Pat::Type":
                    cp = cp["pat"]
                if A.kind(cp) == "Pat::Ident" and not cp.get("by_ref"):
                    inits.setdefault(cp["ident"]["sym"], {"_": "Expr::Try", "attrs": [], "expr": mc["receiver"]})
    # `for x in xs.map(|p| E)`: the loop variable stands for `E` (of one element `p`)
    for fl, _ in A.find(fn.block, "Expr::ForLoop"):
        lp = fl["pat"]
        it = A.peel(fl["expr"])
        if A.kind(lp) == "Pat::Ident" and not lp.get("by_ref") and A.kind(it) == "Expr::MethodCall" and it["method"]["sym"] == "map" and len(it["args"]) == 1 and A.kind(it["args"][0]) == "Expr::Closure":
            cl = it["args"][0]
            if len(cl["inputs"]) == 1 and A.kind(cl["inputs"][0]) == "Pat::Ident" and A.kind(cl["body"]) != "Expr::Block":
                inits.setdefault(lp["ident"]["sym"], cl["body"])
    # names also bound by closures / patterns elsewhere are ambiguous
    for x, _ in A.walk(fn.block):
        k = A.kind(x)
        if k == "Expr::Closure":
            for p in x["inputs"]:
                for n in A.pat_idents(p):
                    count[n] = count.get(n, 0) + 1
        elif k in ("Arm", "Expr::Let", "Expr::ForLoop"):
            # `if let Ok(x) = x` re-binds the name from its own earlier value: the scrutinee still means the `let`
            scr = A.render(A.peel(x["expr"])) if k == "Expr::Let" else None
            for n in A.pat_idents(x["pat"]):
                if scr == n:
                    continue
                count[n] = count.get(n, 0) + 1
    for p in fn.node["sig"]["inputs"]:
        if A.kind(p) == "FnArg::Typed":
            for n in A.pat_idents(p["0"]["pat"]):
                count[n] = count.get(n, 0) + 1
    return {n: e for n, e in inits.items() if count.get(n, 0) == 1}


def _r(e):
    return A.render(A.norm_ast(e))


def _inline(text, lets, depth=0):
    if depth > 3 or not lets:
        return text

    def sub(m):
        w = m.group(0)
        if w in lets and text[m.start() - 1 : m.start()] == "|" and text[m.end() : m.end() + 1] == "|":
            return w  # the closure's own parameter list
        if w in lets:
            r = _r(lets[w])
            if len(r) > 400:
                return w
            inner = _inline(r, {k: v for k, v in lets.items() if k != w}, depth + 1)
            if A.kind(lets[w]) in ("Expr::Path", "Expr::Call", "Expr::MethodCall", "Expr::Field", "Expr::Try", "Expr::Macro", "Expr::Index", "Expr::Lit", "Expr::Paren"):
                return inner
            return "(" + inner + ")"
        return w

    return re.sub(r"(?<![A-Za-z0-9_.#:\"])\b[a-z_][a-z0-9_]*\b(?![A-Za-z0-9_(!:\"])", sub, text)


def _within(node, part):
    if part is None:
        return False
    a, b = A.span_of(part) or (None, None)
    s = A.span_of(node)
    return a is not None and s is not None and a <= s[0] and s[1] <= b


def _atomic(c):
    """no top-level `&&` / `||` / comparison: safe to strip a leading `!` from"""
    depth = 0
    for i, ch in enumerate(c):
        if ch in "([{":
            depth += 1
        elif ch in ")]}":
            depth -= 1
        elif depth == 0 and (c.startswith("&&", i) or c.startswith("||", i) or c.startswith("==", i) or c.startswith("!=", i) or ch in "<>"):
            return False
    return True


def _split_top(c, op):
    parts, depth, cur, i = [], 0, "", 0
    in_str = False
    while i < len(c):
        ch = c[i]
        if ch == '"' and (i == 0 or c[i - 1] != "\\"):
            in_str = not in_str
        if not in_str:
            if ch in "([{":
                depth += 1
            elif ch in ")]}":
                depth -= 1
            if depth == 0 and c.startswith(op, i):
                parts.append(cur)
                cur = ""
                i += len(op)
                continue
        cur += ch
        i += 1
    parts.append(cur)
    return parts


def _whole_parens(c):
    if not (c.startswith("(") and c.endswith(")")):
        return False
    depth = 0
    for i, ch in enumerate(c):
        depth += ch == "("
        depth -= ch == ")"
        if depth == 0 and i < len(c) - 1:
            return False
    return True


def canon_bool(c, positive=True):
    """negation normal form of a rendered boolean condition: `!` pushed to the atoms (De Morgan), `a != b` written
    `!(a==b)`, `.is_none()` written `!(..is_some())`, redundant parentheses dropped; operand order is kept"""
    c = c.strip()
    while _whole_parens(c):
        c = c[1:-1].strip()
    ors = _split_top(c, "||")
    if len(ors) > 1:
        parts = [canon_bool(x, positive) for x in ors]
        return ("||" if positive else "&&").join(f"({x})" if ("||" in x and not positive) or ("&&" in x and False) else x for x in parts)
    ands = _split_top(c, "&&")
    if len(ands) > 1:
        parts = [canon_bool(x, positive) for x in ands]
        return ("&&" if positive else "||").join(f"({x})" if "||" in x and positive else x for x in parts)
    if c.startswith("!") and not c.startswith("!="):
        return canon_bool(c[1:], not positive)
    if c.endswith(".is_none()") and _atomic(c):
        return canon_bool(c[: -len(".is_none()")] + ".is_some()", not positive)
    ne = _split_top(c, "!=")
    if len(ne) == 2 and len(_split_top(c, "==")) == 1:
        return canon_bool(f"{ne[0]}=={ne[1]}", not positive)
    return c if positive else f"!({c})"


def _polar(cond, positive):
    return "if " + canon_bool(cond, positive)


def _polar_old(cond, positive):
    """`if C` / `if !(C)` with double negations removed, so that `if c {..} else {X}` and `if !c {X}` read alike"""
    c = cond.strip()
    while True:
        if c.startswith("(") and c.endswith(")") and _atomic(c[1:-1]) and c.count("(") == c.count(")"):
            inner = c[1:-1]
            # only strip a pair that encloses the whole condition
            depth = 0
            whole = True
            for i, ch in enumerate(c):
                depth += ch == "("
                depth -= ch == ")"
                if depth == 0 and i < len(c) - 1:
                    whole = False
                    break
            if whole:
                c = inner
                continue
        if c.startswith("!") and not c.startswith("!=") and _atomic(c[1:]):
            c = c[1:]
            positive = not positive
            continue
        if c.endswith(".is_none()") and _atomic(c):
            c = c[: -len(".is_none()")] + ".is_some()"
            positive = not positive
            continue
        m = re.fullmatch(r"([^!=<>&|]+)!=([^!=<>&|]+)", c)
        if m:
            c = f"{m.group(1)}=={m.group(2)}"
            positive = not positive
            continue
        break
    return f"if {c}" if positive else f"if !({c})"


def _diverges(block):
    """does a block always leave (its last statement is return / continue / break / a panic macro)?"""
    st = block.get("stmts") if isinstance(block, dict) else None
    if not st:
        return False
    last = st[-1]
    e = last.get("0") if A.kind(last) == "Stmt::Expr" else None
    if e is not None and A.kind(e) in ("Expr::Return", "Expr::Continue", "Expr::Break"):
        return True
    if A.kind(last) in ("Stmt::Macro",) and A.path_last(last["mac"]["path"]) in ("panic", "unreachable", "unimplemented"):
        return True
    if e is not None and A.kind(e) == "Expr::Macro" and A.path_last(e["mac"]["path"]) in ("panic", "unreachable", "unimplemented"):
        return True
    return False


def _is_catch_all(pat):
    k = A.kind(pat)
    return k == "Pat::Wild" or (k == "Pat::Ident" and not pat.get("subpat"))


def guard_chain(fn, site, parents, lets):
    """canonical conditions leading to `site`: enclosing if / if-let / match arms, plus - for every enclosing block -
    the negated conditions of earlier `if C { <always leaves> }` statements (so `if C { X }` and `if !C { return } X`
    read alike). `if let P = E` and `match E { P => .. }` read alike (`E ~ P` / `E !~ P`); a catch-all or last arm is
    the complement of the earlier unguarded patterns."""
    chain = []
    for i, p in enumerate(parents):
        k = A.kind(p)
        if k == "Block":
            # earlier early-exit statements of this block
            nxt = parents[i + 1] if i + 1 < len(parents) else site
            for st in p["stmts"]:
                if st is nxt or (A.kind(st) == "Stmt::Expr" and st.get("0") is nxt) or _within(site, st):
                    break
                e = st.get("0") if A.kind(st) == "Stmt::Expr" else None
                if e is not None and A.kind(e) == "Expr::If" and not e.get("else_branch") and _diverges(e["then_branch"]):
                    # an early *failure* exit is itself a refusal with its own ledger row; only neutral exits
                    # (`return Ok(..)`, `continue`, `return None`) shape what follows
                    tail = A.render_stmt(e["then_branch"]["stmts"][-1])
                    if tail.startswith("return Err(") or "panic!" in tail:
                        continue
                    c = e["cond"]
                    if A.kind(c) == "Expr::Let":
                        chain.append(f"{_inline(_r(c['expr']), lets)} !~ {A.render_pat(c['pat'])}")
                    else:
                        chain.append(_polar(_inline(_r(c), lets), False))
        elif k == "Expr::If":
            if _within(site, p["cond"]):
                continue
            c = p["cond"]
            pos = _within(site, p["then_branch"])
            if A.kind(c) == "Expr::Let":
                chain.append(f"{_inline(_r(c['expr']), lets)} {'~' if pos else '!~'} {A.render_pat(c['pat'])}")
            else:
                chain.append(_polar(_inline(_r(c), lets), pos))
        elif k == "Arm":
            mt = parents[i - 1] if i and A.kind(parents[i - 1]) == "Expr::Match" else None
            if mt is None:
                for q in reversed(parents[:i]):
                    if A.kind(q) == "Expr::Match":
                        mt = q
                        break
            g = p.get("guard")
            gexpr = g[1] if isinstance(g, list) and len(g) > 1 else g
            if gexpr is not None and isinstance(gexpr, dict) and _within(site, gexpr):
                continue
            gtxt = (" if " + _inline(_r(gexpr), lets)) if isinstance(gexpr, dict) else ""
            scr = _inline(_r(mt["expr"]), lets) if mt else "?"
            earlier_guarded, earlier_plain = [], []
            is_last = False
            if mt:
                for a in mt["arms"]:
                    if a is p:
                        break
                    ag = a.get("guard")
                    agx = ag[1] if isinstance(ag, list) and len(ag) > 1 else ag
                    if isinstance(agx, dict):
                        earlier_guarded.append(A.render_pat(a["pat"]) + " if " + _inline(_r(agx), lets))
                    else:
                        earlier_plain.append(A.render_pat(a["pat"]))
                is_last = mt["arms"][-1] is p
            if not gtxt and earlier_plain and (_is_catch_all(p["pat"]) or (is_last and len(mt["arms"]) == 2)):
                # complement of what the earlier unguarded arms take (`Err(_)` after `Ok(x)`, `_`, a binding)
                txt = f"{scr} !~ {'|'.join(sorted(earlier_plain))}"
            else:
                txt = f"{scr} ~ {A.render_pat(p['pat'])}"
            if earlier_guarded:
                txt += f" [after {' | '.join(earlier_guarded)}]"
            chain.append(txt)
            if gtxt:
                # `P if g => ..` reads like `P => if g { .. }`
                chain.append(_polar(gtxt[4:], True))
        elif k == "Expr::While":
            chain.append(f"while {_inline(_r(p['cond']), lets)}")
    return chain


def _helper_components(fn):
    """{helper name: {tuple position or field name: text}} for the argument-less same-impl helpers whose result is a tuple
    or struct literal: each component as text with the helper's own single-assignment locals inlined - so that
    `let (a, b) = self.h();` and `let S { x: a, y: b } = self.h();` / `self.h().x` all read as what `h` computes"""
    out = {}
    for g in A.functions(fn.file):
        if g.block is None or g is fn or g.self_ty != fn.self_ty or not g.block["stmts"]:
            continue
        if any(A.kind(p_) == "FnArg::Typed" for p_ in g.node["sig"]["inputs"]):
            continue
        last = g.block["stmts"][-1]
        e = A.peel(last["0"]) if A.kind(last) == "Stmt::Expr" else None
        comps = {}
        if e is not None and A.kind(e) == "Expr::Tuple":
            comps = {str(i): x for i, x in enumerate(e["elems"])}
        elif e is not None and A.kind(e) == "Expr::Struct":
            comps = {fv["member"]["0"]["sym"]: fv["expr"] for fv in e["fields"] if A.kind(fv["member"]) == "Member::Named"}
        if len(comps) < 2:
            continue
        gl = _lets(g)
        out[g.name] = {k_: "(" + _inline(_r(x), gl) + ")" for k_, x in comps.items()}
    return out


def _projection_lets(fn):
    """text bindings for names destructured from such a helper's result, and a rewriter for `self.h().<component>`"""
    comps = _helper_components(fn)
    texts = {}
    if not comps:
        return texts, (lambda t: t)
    for st, _ in A.find(fn.block, "Stmt::Local"):
        init = st.get("init")
        if not init:
            continue
        m = re.fullmatch(r"self\.(\w+)\(\)", A.render(init["expr"]))
        if not m or m.group(1) not in comps:
            continue
        c = comps[m.group(1)]
        pat = st["pat"]
        if A.kind(pat) == "Pat::Tuple":
            for i, el in enumerate(pat["elems"]):
                ids = A.pat_idents(el)
                if len(ids) == 1 and str(i) in c:
                    texts[ids[0]] = c[str(i)]
        elif A.kind(pat) == "Pat::Struct":
            for fp in pat["fields"]:
                mn = fp["member"]["0"]["sym"] if A.kind(fp["member"]) == "Member::Named" else None
                ids = A.pat_idents(fp["pat"])
                if mn in c and len(ids) == 1:
                    texts[ids[0]] = c[mn]

    def rewrite(t):
        for h, c in comps.items():
            for k_, v in c.items():
                t = re.sub(r"self\.%s\(\)\.%s\b(?!\()" % (re.escape(h), re.escape(k_)), lambda _m: v, t)
        return t

    return texts, rewrite


def site_formula(fn, node, parents):
    """the condition under which `node` is reached inside `fn`, as a guardf formula (aliases resolved, names `$`)"""
    lets = _lets(fn)
    ptexts, rewrite = _projection_lets(fn)
    lt = {n_: _r(e_) for n_, e_ in lets.items()}
    lt.update(ptexts)
    f = GF.guard_formula(fn, node, parents, lt, lets)
    if ptexts or rewrite:
        f = GF.map_text(f, rewrite)
    return GF.alpha_formula(f)


def collect(ctx):
    out = []
    for rel, f in sorted(ctx.files.items()):
        if not rel.startswith("impl/src/"):
            continue
        for fn in A.functions(f):
            if fn.block is None:
                continue
            lets = None
            proj = None
            per = {}
            for x, ps in A.walk(fn.block):
                k = A.kind(x)
                kind_ = msg = None
                if k == "Expr::Call" and A.kind(x["func"]) == "Expr::Path":
                    p = A.path_str(x["func"])
                    if p.endswith("Error::new") or p.endswith("Error::new_spanned"):
                        kind_ = "syn::Error"
                        msg = _first_str(x["args"][1]) if len(x["args"]) > 1 else None
                elif k == "Expr::MethodCall" and x["method"]["sym"] == "error" and x["args"]:
                    kind_ = "parse error"
                    msg = _first_str(x["args"][0])
                elif k in ("Expr::Macro", "Stmt::Macro"):
                    mac = x["mac"]
                    nm = A.path_last(mac["path"])
                    if nm in PANIC_MACROS:
                        kind_ = nm + "!"
                        toks = mac["tokens"]
                        msg = next((t["lit"]["value"] for t in toks if A.kind(t) == "Literal" and isinstance(t.get("lit"), dict) and t["lit"].get("kind") == "str"), None)
                        if nm != "panic":
                            msg = (msg or "") + " :: " + A.tokens_compact(toks)[:80]
                if kind_ is None:
                    continue
                if k == "Stmt::Macro" and any(A.kind(p) == "Expr::Macro" for p in ps[-1:]):
                    continue
                if lets is None:
                    lets = _lets(fn)
                chain = guard_chain(fn, x, ps, lets)
                try:
                    if proj is None:
                        proj = _projection_lets(fn)
                    lt_ = {n_: _r(e_) for n_, e_ in lets.items()}
                    lt_.update(proj[0])
                    formula = GF.map_text(GF.guard_formula(fn, x, ps, lt_, lets), proj[1])
                except Exception as ex_:  # the formula is an aid for matching; the textual chain stays authoritative
                    formula = ("atom", f"<unreadable: {type(ex_).__name__}>")
                raised = True
                if kind_ == "syn::Error":
                    raised = any(
                        A.kind(p) == "Expr::Return"
                        or (A.kind(p) == "Expr::Call" and A.kind(p["func"]) == "Expr::Path" and A.path_str(p["func"]).split("::")[-1] == "Err")
                        or (A.kind(p) == "Expr::MethodCall" and p["method"]["sym"] in ("ok_or_else", "ok_or", "map_err", "or_else", "unwrap_or_else", "map_or", "map_or_else", "combine", "push"))
                        for p in ps
                    )
                    if not raised:
                        # the value a helper returns (`fn legacy_error(..) -> syn::Error`)
                        ret = fn.node["sig"].get("output")
                        rtxt = " ".join(A.path_str(t) or "" for t, _ in A.find(ret, "Type::Path")) if ret else ""
                        st = fn.block["stmts"]
                        raised = "Error" in rtxt and "Result" not in rtxt and bool(st) and A.kind(st[-1]) == "Stmt::Expr" and _within(x, st[-1])
                base = f"{rel}::{fn.qual}:{kind_}:{(msg or '<no message>')[:70]}"
                per[base] = per.get(base, 0) + 1
                key = base if per[base] == 1 else f"{base}#{per[base]}"
                ch2 = []
                for c in chain:
                    mf = re.fullmatch(r"(.*)\.filter\(\|_\|(.*)\) ~ Some\((.*)\)", c)
                    if mf:
                        ch2 += [f"{mf.group(1)} ~ Some({mf.group(3)})", _polar(mf.group(2), True)]
                    else:
                        ch2.append(c)
                chain = ch2
                raw_chain = list(chain)
                canon = A.alpha(" && ".join(chain), numbered=False)
                out.append({"key": key, "file": rel, "fn": fn.qual, "kind": kind_, "message": msg, "guard": canon, "formula": formula, "chain": raw_chain, "node": x, "parents": ps, "fnobj": fn, "raised": raised, "where": ctx.where(f, x) if hasattr(ctx, "where") else ""})
    # a private helper referenced exactly once in its file is read in the context of that reference: extracting a
    # piece of a function into a helper (or inlining it back) leaves the chain unchanged
    by_file = {}
    for s_ in out:
        by_file.setdefault(s_["file"], []).append(s_)
    for rel, sites in by_file.items():
        f = ctx.files[rel]
        fns = {fn.qual: fn for fn in A.functions(f)}
        refs = {}  # fn name -> [(containing fn, node, parents)]
        for fn in fns.values():
            if fn.block is None:
                continue
            for x, ps in A.walk(fn.block):
                k = A.kind(x)
                nm = None
                if k == "Expr::Path":
                    nm = A.path_str(x).split("::")[-1]
                elif k == "Expr::MethodCall":
                    nm = x["method"]["sym"]
                if nm:
                    refs.setdefault(nm, []).append((fn, x, ps))
        for _round in range(2):
            for s_ in sites:
                fn = s_["fnobj"]
                if s_.get("prefixed", 0) > _round:
                    continue
                same_name = [g for g in fns.values() if g.name == fn.name]
                r = [t for t in refs.get(fn.name, []) if t[0] is not fn]
                vis = fn.node.get("vis")
                private = vis in (None, "Visibility::Inherited") or A.kind(vis) in (None, "Visibility::Inherited")
                if len(same_name) == 1 and len(r) == 1 and private and fn.trait_ is None:
                    g, node, ps = r[0]
                    lets_g = _lets(g)
                    pre = guard_chain(g, node, ps, lets_g)
                    # the helper's parameters stand for the arguments of that one reference
                    params = []
                    for a in fn.node["sig"]["inputs"]:
                        if A.kind(a) == "FnArg::Typed":
                            pp = a["0"]["pat"]
                            params.append(pp["ident"]["sym"] if A.kind(pp) == "Pat::Ident" else None)
                    rebound = set()
                    for x_, _p in A.walk(fn.block):
                        if A.kind(x_) in ("Stmt::Local", "Arm", "Expr::Let", "Expr::ForLoop"):
                            rebound.update(A.pat_idents(x_["pat"]))
                        elif A.kind(x_) == "Expr::Closure":
                            for ci in x_["inputs"]:
                                rebound.update(A.pat_idents(ci))
                    sub = {}
                    parent = ps[-1] if ps else None
                    if A.kind(node) == "Expr::MethodCall":
                        args = node["args"]
                    elif A.kind(parent) == "Expr::Call" and parent["func"] is node:
                        args = parent["args"]
                    elif A.kind(parent) == "Expr::MethodCall" and parent["method"]["sym"] in UNWRAPPING_ADAPTORS and any(a is node for a in parent["args"]) and len(params) == 1:
                        args = [{"_": "Expr::Try", "attrs": [], "expr": parent["receiver"]}]
                    else:
                        args = []
                    if len(args) == len(params):
                        for pn, a in zip(params, args):
                            if pn and pn not in rebound:
                                sub[pn] = a
                    if sub:
                        s_["chain"] = [_inline(_inline(c, sub), lets_g) for c in s_["chain"]]
                    try:
                        lg_txt = {n_: _r(e_) for n_, e_ in lets_g.items()}
                        sub_txt = {n_: _r(e_) for n_, e_ in sub.items()}
                        pre_f = GF.guard_formula(g, node, ps, lg_txt, lets_g)
                        s_["formula"] = GF.f_and([pre_f, GF.map_text(s_["formula"], lambda t_: GF.subst_text(GF.subst_text(t_, sub_txt), lg_txt))])
                    except Exception as ex_:
                        s_["formula"] = ("atom", f"<unreadable: {type(ex_).__name__}>")
                    s_["chain"] = pre + s_["chain"]
                    s_["fnobj"] = g
                    s_["prefixed"] = s_.get("prefixed", 0) + 1
                    s_["guard"] = A.alpha(" && ".join(s_["chain"]), numbered=False)
    for s_ in out:
        for k_ in ("node", "parents", "fnobj", "chain", "prefixed"):
            s_.pop(k_, None)
        s_["formula"] = GF.to_json(GF.alpha_formula(s_["formula"]))
    return out


# functions whose refusal condition is decided semantically by another rule (the ledger only counts their sites)
SEMANTIC = {
    ("impl/src/fmt/display.rs", "<ContainerAttributes as ParseMultiple>::merge_attrs"): "OPT-ALG (optrules.rule_option_flow) evaluates the merge on all None/Some cases",
    ("impl/src/fmt/mod.rs", "<ContainerAttributes as ParseMultiple>::merge_attrs"): "OPT-ALG (optrules.rule_option_flow)",
}


def rule_reject_ledger(ctx):
    """REJECT-LEDGER: every diagnostic site of the derives (syn::Error / parse error / panic!-with-message) is reached under exactly the chain of conditions recorded for its function in rules/reject_ledger.json (sites are matched by condition, not by message text; local aliases inlined, local names alpha-renamed); no site is missing, none is new. A new or widened refusal rejects inputs the documentation supports; a removed or narrowed one silently accepts what must be rejected."""
    if not os.path.exists(LEDGER):
        raise A.AnchorLost("rules/reject_ledger.json", "ledger missing")
    led = json.load(open(LEDGER))["sites"]
    cur = collect(ctx)
    by_f_cur, by_f_led = {}, {}
    for s in cur:
        if not s["raised"]:
            ctx.report(
                f"reject:not-raised:{s['file']}::{s['fn']}:{s['guard'][:60]}",
                s["where"],
                f"`{s['fn']}` constructs the diagnostic `{(s['message'] or '')[:70]}` but neither returns it, wraps it in `Err(..)` nor hands it to an error combinator: the refusal is silently dropped",
                {},
            )
    sem_fns = {fk for fk in SEMANTIC}
    for s in cur:
        by_f_cur.setdefault(s["file"], []).append(s)
    for key, row in led.items():
        by_f_led.setdefault(row["file"], []).append(dict(row, key=key))
    for rel in sorted(set(by_f_cur) | set(by_f_led)):
        c = by_f_cur.get(rel, [])
        l = by_f_led.get(rel, [])
        ctx.instance(f"reject:{rel}", sample={"file": rel, "sites": len(c), "guards": [x["guard"][:120] for x in c][:3]})
        # sites decided semantically elsewhere are only counted
        cs = [x for x in c if (rel, x["fn"]) in sem_fns]
        ls = [x for x in l if (rel, x["fn"]) in sem_fns]
        if len(cs) != len(ls):
            ctx.report(f"reject:count:{rel}", cs[0]["where"] if cs else rel, f"{rel}: {len(cs)} diagnostic sites in the semantically decided merge functions, the ledger has {len(ls)}", {})
        c = [x for x in c if (rel, x["fn"]) not in sem_fns]
        l = [x for x in l if (rel, x["fn"]) not in sem_fns]
        cg = sorted(x["guard"] for x in c)
        lg = sorted(x["guard"] for x in l)
        if cg == lg:
            continue
        extra = list(cg)
        missing = []
        for g in lg:
            if g in extra:
                extra.remove(g)
            else:
                missing.append(g)
        cur_left = []
        pool = list(extra)
        for x in c:
            if x["guard"] in pool:
                pool.remove(x["guard"])
                cur_left.append(x)
        led_left = []
        pool = list(missing)
        for x in l:
            if x["guard"] in pool:
                pool.remove(x["guard"])
                led_left.append(x)
        # conditions written differently but equivalent as formulas (nested match vs nested pattern, De Morgan,
        # `==` vs `matches!`, early return vs nesting ..) are the same refusal
        for a in list(cur_left):
            fa = GF.from_json(a["formula"]) if a.get("formula") else None
            if fa is None:
                continue
            for b in list(led_left):
                if not b.get("formula") or b.get("kind") != a.get("kind"):
                    continue
                try:
                    eq, _cex = GF.equivalent(fa, GF.from_json(b["formula"]))
                except Exception:
                    eq = False
                if eq:
                    cur_left.remove(a)
                    led_left.remove(b)
                    ctx.note(f"{rel}: `{a['fn']}` reaches `{(a['message'] or '')[:40]}` under a condition written differently from the audited one but equivalent to it")
                    break
        while cur_left and led_left:
            a = cur_left.pop(0)
            b = next((x for x in led_left if x.get("message") == a["message"]), None) or next((x for x in led_left if x.get("fn") == a["fn"]), led_left[0])
            led_left.remove(b)
            ctx.report(
                f"reject:changed:{rel}::{b['fn']}:{b['guard'][:80]}",
                a["where"],
                f"the condition under which `{a['fn']}` reports `{(a['message'] or '')[:70]}` changed: audited `{b['guard'][:240] or 'always'}`, now `{a['guard'][:240] or 'always'}`: "
                "inputs that were rejected are now accepted silently, or supported inputs are now refused (if intended and reviewed: bin/mkledger)",
                {"ledger": b["guard"], "now": a["guard"]},
            )
        for a in cur_left:
            ctx.report(
                f"reject:new:{rel}::{a['fn']}:{a['guard'][:80]}",
                a["where"],
                f"`{a['fn']}` has a diagnostic site the ledger does not know (`{(a['message'] or '')[:70]}`, reached under `{a['guard'][:240] or 'always'}`): a new refusal - inputs the documentation supports may now be rejected",
                {"guard": a["guard"]},
            )
        for b in led_left:
            ctx.report(
                f"reject:gone:{rel}::{b['fn']}:{b['guard'][:80]}",
                rel,
                f"the diagnostic `{(b.get('message') or '')[:70]}` of `{b['fn']}` (condition `{b['guard'][:240] or 'always'}`) no longer exists: what it refused (a contradictory, duplicated or unsupported attribute / shape) is now silently accepted or handled elsewhere",
                {},
            )
    ctx.floor("diagnostic sites", len(cur), 80)
