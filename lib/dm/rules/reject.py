"""REJECT-LEDGER: the conditions under which a derive refuses its input are a closed, audited set.

A derive either expands or reports a diagnostic. Both directions are properties: a *new* or *widened* refusal makes a
supported input fail (C01, C12, C13 ..: "every supported input is accepted"), a *removed* or *narrowed* one lets a
contradictory / meaningless attribute through silently (C17, C07, C09). Every diagnostic site (`syn::Error::new`,
`Error::new_spanned`, `input.error(..)`, `panic!`/`assert!` with a message) is located in the syntax tree together with
the chain of conditions (if / if-let / match-arm / guard, with polarity) that leads to it inside its function; local
`let` aliases are inlined and local names alpha-renamed so that behaviour-preserving rewrites keep the chain. The chain
is compared with the ledger rules/reject_ledger.json (frozen from the audited tree; regenerate with bin/mkledger after
a *reviewed* change of behaviour). No ledger row is ever written at check time.
"""
import json
import os
import re

from .. import ast as A

LEDGER = os.path.join(os.path.dirname(os.path.dirname(os.path.dirname(os.path.dirname(os.path.abspath(__file__))))), "rules", "reject_ledger.json")
PANIC_MACROS = {"panic", "assert", "assert_eq", "assert_ne"}


def _first_str(node):
    """first string literal below node (through format!(..) token lists)"""
    for x, _ in A.walk(node):
        k = A.kind(x)
        if k == "Lit::Str":
            return x["token"]["value"]
        if k == "Literal" and isinstance(x.get("lit"), dict) and x["lit"].get("kind") == "str":
            return x["lit"]["value"]
    return None


def _lets(fn):
    """single-assignment immutable `let name = init;` bindings of a function (for inlining)"""
    count = {}
    inits = {}
    for st, _ in A.find(fn.block, "Stmt::Local"):
        pat = st["pat"]
        if A.kind(pat) == "Pat::Type":
            pat = pat["pat"]
        for n in A.pat_idents(st["pat"]):
            count[n] = count.get(n, 0) + 1
        if A.kind(pat) == "Pat::Ident" and not pat.get("mutability") and not pat.get("by_ref") and st.get("init") and not st["init"].get("diverge"):
            inits[pat["ident"]["sym"]] = st["init"]["expr"]
    # names also bound by closures / patterns elsewhere are ambiguous
    for x, _ in A.walk(fn.block):
        k = A.kind(x)
        if k == "Expr::Closure":
            for p in x["inputs"]:
                for n in A.pat_idents(p):
                    count[n] = count.get(n, 0) + 1
        elif k in ("Arm", "Expr::Let", "Expr::ForLoop"):
            for n in A.pat_idents(x["pat"]):
                count[n] = count.get(n, 0) + 1
    for p in fn.node["sig"]["inputs"]:
        if A.kind(p) == "FnArg::Typed":
            for n in A.pat_idents(p["0"]["pat"]):
                count[n] = count.get(n, 0) + 1
    return {n: e for n, e in inits.items() if count.get(n, 0) == 1}


def _inline(text, lets, depth=0):
    if depth > 3 or not lets:
        return text

    def sub(m):
        w = m.group(0)
        if w in lets:
            r = A.render(lets[w])
            if len(r) > 400:
                return w
            inner = _inline(r, {k: v for k, v in lets.items() if k != w}, depth + 1)
            if A.kind(lets[w]) in ("Expr::Path", "Expr::Call", "Expr::MethodCall", "Expr::Field", "Expr::Try", "Expr::Macro", "Expr::Index", "Expr::Lit", "Expr::Paren"):
                return inner
            return "(" + inner + ")"
        return w

    return re.sub(r"(?<![A-Za-z0-9_.#:\"])\b[a-z_][a-z0-9_]*\b(?![A-Za-z0-9_(!:\"])", sub, text)


def _within(node, part):
    if part is None:
        return False
    a, b = A.span_of(part) or (None, None)
    s = A.span_of(node)
    return a is not None and s is not None and a <= s[0] and s[1] <= b


def guard_chain(fn, site, parents, lets):
    chain = []
    for i, p in enumerate(parents):
        k = A.kind(p)
        if k == "Expr::If":
            if _within(site, p["cond"]):
                continue
            cond = _inline(A.render(p["cond"]), lets)
            if _within(site, p["then_branch"]):
                chain.append(f"if {cond}")
            else:
                chain.append(f"if !({cond})")
        elif k == "Arm":
            mt = parents[i - 1] if i and A.kind(parents[i - 1]) == "Expr::Match" else None
            if mt is None:
                for q in reversed(parents[:i]):
                    if A.kind(q) == "Expr::Match":
                        mt = q
                        break
            g = p.get("guard")
            gexpr = g[1] if isinstance(g, list) and len(g) > 1 else g
            if gexpr is not None and isinstance(gexpr, dict) and _within(site, gexpr):
                continue
            pat = A.render_pat(p["pat"])
            gtxt = (" if " + _inline(A.render(gexpr), lets)) if isinstance(gexpr, dict) else ""
            scr = _inline(A.render(mt["expr"]), lets) if mt else "?"
            # earlier arms with a guard narrow this arm: record them too
            earlier = []
            if mt:
                for a in mt["arms"]:
                    if a is p:
                        break
                    ag = a.get("guard")
                    agx = ag[1] if isinstance(ag, list) and len(ag) > 1 else ag
                    if isinstance(agx, dict):
                        # only a *guarded* earlier arm takes inputs away from a later arm with a disjoint pattern
                        earlier.append(A.render_pat(a["pat"]) + " if " + _inline(A.render(agx), lets))
            chain.append(f"match {scr} [after {' | '.join(earlier)}] => {pat}{gtxt}" if earlier else f"match {scr} => {pat}{gtxt}")
        elif k == "Expr::While":
            chain.append(f"while {_inline(A.render(p['cond']), lets)}")
    return chain


def collect(ctx):
    out = []
    for rel, f in sorted(ctx.files.items()):
        if not rel.startswith("impl/src/"):
            continue
        for fn in A.functions(f):
            if fn.block is None:
                continue
            lets = None
            per = {}
            for x, ps in A.walk(fn.block):
                k = A.kind(x)
                kind_ = msg = None
                if k == "Expr::Call" and A.kind(x["func"]) == "Expr::Path":
                    p = A.path_str(x["func"])
                    if p.endswith("Error::new") or p.endswith("Error::new_spanned"):
                        kind_ = "syn::Error"
                        msg = _first_str(x["args"][1]) if len(x["args"]) > 1 else None
                elif k == "Expr::MethodCall" and x["method"]["sym"] == "error" and x["args"]:
                    kind_ = "parse error"
                    msg = _first_str(x["args"][0])
                elif k in ("Expr::Macro", "Stmt::Macro"):
                    mac = x["mac"]
                    nm = A.path_last(mac["path"])
                    if nm in PANIC_MACROS:
                        kind_ = nm + "!"
                        toks = mac["tokens"]
                        msg = next((t["lit"]["value"] for t in toks if A.kind(t) == "Literal" and isinstance(t.get("lit"), dict) and t["lit"].get("kind") == "str"), None)
                        if nm != "panic":
                            msg = (msg or "") + " :: " + A.tokens_compact(toks)[:80]
                if kind_ is None:
                    continue
                if k == "Stmt::Macro" and any(A.kind(p) == "Expr::Macro" for p in ps[-1:]):
                    continue
                if lets is None:
                    lets = _lets(fn)
                chain = guard_chain(fn, x, ps, lets)
                raised = True
                if kind_ == "syn::Error":
                    raised = any(
                        A.kind(p) == "Expr::Return"
                        or (A.kind(p) == "Expr::Call" and A.kind(p["func"]) == "Expr::Path" and A.path_str(p["func"]).split("::")[-1] == "Err")
                        or (A.kind(p) == "Expr::MethodCall" and p["method"]["sym"] in ("ok_or_else", "ok_or", "map_err", "or_else", "unwrap_or_else", "map_or", "map_or_else", "combine", "push"))
                        for p in ps
                    )
                    if not raised:
                        # the value a helper returns (`fn legacy_error(..) -> syn::Error`)
                        ret = fn.node["sig"].get("output")
                        rtxt = " ".join(A.path_str(t) or "" for t, _ in A.find(ret, "Type::Path")) if ret else ""
                        st = fn.block["stmts"]
                        raised = "Error" in rtxt and "Result" not in rtxt and bool(st) and A.kind(st[-1]) == "Stmt::Expr" and _within(x, st[-1])
                base = f"{rel}::{fn.qual}:{kind_}:{(msg or '<no message>')[:70]}"
                per[base] = per.get(base, 0) + 1
                key = base if per[base] == 1 else f"{base}#{per[base]}"
                canon = A.alpha(" && ".join(chain))
                out.append({"key": key, "file": rel, "fn": fn.qual, "kind": kind_, "message": msg, "guard": canon, "raised": raised, "where": ctx.where(f, x) if hasattr(ctx, "where") else ""})
    return out


# functions whose refusal condition is decided semantically by another rule (the ledger only counts their sites)
SEMANTIC = {
    ("impl/src/fmt/display.rs", "<ContainerAttributes as ParseMultiple>::merge_attrs"): "OPT-ALG (optrules.rule_option_flow) evaluates the merge on all None/Some cases",
    ("impl/src/fmt/mod.rs", "<ContainerAttributes as ParseMultiple>::merge_attrs"): "OPT-ALG (optrules.rule_option_flow)",
}


def rule_reject_ledger(ctx):
    """REJECT-LEDGER: every diagnostic site of the derives (syn::Error / parse error / panic!-with-message) is reached under exactly the chain of conditions recorded for its function in rules/reject_ledger.json (sites are matched by condition, not by message text; local aliases inlined, local names alpha-renamed); no site is missing, none is new. A new or widened refusal rejects inputs the documentation supports; a removed or narrowed one silently accepts what must be rejected."""
    if not os.path.exists(LEDGER):
        raise A.AnchorLost("rules/reject_ledger.json", "ledger missing")
    led = json.load(open(LEDGER))["sites"]
    cur = collect(ctx)
    by_fn_cur, by_fn_led = {}, {}
    for s in cur:
        if not s["raised"]:
            ctx.report(
                f"reject:not-raised:{s['file']}::{s['fn']}:{s['guard'][:60]}",
                s["where"],
                f"`{s['fn']}` constructs the diagnostic `{(s['message'] or '')[:70]}` but neither returns it, wraps it in `Err(..)` nor hands it to an error combinator: the refusal is silently dropped",
                {},
            )
    for s in cur:
        by_fn_cur.setdefault((s["file"], s["fn"]), []).append(s)
    for key, row in led.items():
        by_fn_led.setdefault((row["file"], row["fn"]), []).append(dict(row, key=key))
    for fk in sorted(set(by_fn_cur) | set(by_fn_led)):
        c = by_fn_cur.get(fk, [])
        l = by_fn_led.get(fk, [])
        ctx.instance(f"reject:{fk[0]}::{fk[1]}", sample={"fn": f"{fk[0]}::{fk[1]}", "sites": len(c), "guards": [x["guard"][:120] for x in c][:3]})
        if fk in SEMANTIC:
            if len(c) != len(l):
                ctx.report(f"reject:count:{fk[0]}::{fk[1]}", c[0]["where"] if c else fk[0], f"`{fk[1]}` has {len(c)} diagnostic sites, the ledger has {len(l)}", {})
            continue
        cg = sorted(x["guard"] for x in c)
        lg = sorted(x["guard"] for x in l)
        if cg == lg:
            continue
        extra = list(cg)
        missing = []
        for g in lg:
            if g in extra:
                extra.remove(g)
            else:
                missing.append(g)
        # pair what is left: same count -> "changed", else new / gone
        cur_left = [x for x in c if x["guard"] in extra]
        led_left = [x for x in l if x["guard"] in missing]
        while cur_left and led_left:
            a = cur_left.pop(0)
            # the ledger row with the same message if any, else the first
            b = next((x for x in led_left if x.get("message") == a["message"]), led_left[0])
            led_left.remove(b)
            ctx.report(
                f"reject:changed:{fk[0]}::{fk[1]}:{A.alpha(b['guard'])[:80]}",
                a["where"],
                f"the condition under which `{fk[1]}` reports `{(a['message'] or '')[:70]}` changed: audited `{b['guard'][:240] or 'always'}`, now `{a['guard'][:240] or 'always'}`: "
                "inputs that were rejected are now accepted silently, or supported inputs are now refused (if intended and reviewed: bin/mkledger)",
                {"ledger": b["guard"], "now": a["guard"]},
            )
        for a in cur_left:
            ctx.report(
                f"reject:new:{fk[0]}::{fk[1]}:{a['guard'][:80]}",
                a["where"],
                f"`{fk[1]}` has a diagnostic site the ledger does not know (`{(a['message'] or '')[:70]}`, reached under `{a['guard'][:240] or 'always'}`): a new refusal - inputs the documentation supports may now be rejected",
                {"guard": a["guard"]},
            )
        for b in led_left:
            ctx.report(
                f"reject:gone:{fk[0]}::{fk[1]}:{b['guard'][:80]}",
                fk[0],
                f"the diagnostic `{(b.get('message') or '')[:70]}` of `{fk[1]}` (condition `{b['guard'][:240] or 'always'}`) no longer exists: what it refused (a contradictory, duplicated or unsupported attribute / shape) is now silently accepted or handled elsewhere",
                {},
            )
    ctx.floor("diagnostic sites", len(cur), 80)
