"""C08 - From, Into and Constructor preserve field order and invert each other."""
import re

from .. import ast as A
from .. import tpl as T
from .. import types as TY

FROM = "impl/src/from.rs"
INTO = "impl/src/into.rs"
CTOR = "impl/src/constructor.rs"


def tx(t):
    return A.TTxt(T.ir_text(t.ir).replace(" ", ""))


def _path_after_root(e):
    """(root, 'a.b.c') for a field chain"""
    root, ops = A.chain(e)
    if A.kind(root) != "Expr::Path":
        return None, None
    return A.path_str(root), ".".join(str(o[1]) for o in ops if o[0] == "f")


def merge_effects(ctx, fn, depth=0):
    """[(lhs field path, rhs field path, op)] of a merge function combining `prev`/`self` with `new`/`other`"""
    out = []
    roots_l = ("prev", "self")
    roots_r = ("new", "other")
    for x, ps in A.walk(fn.block):
        k = A.kind(x)
        if k == "Expr::Binary" and (A.kind(x["op"]) or "").endswith("Assign"):
            lr, lp = _path_after_root(x["left"])
            rr, rp = _path_after_root(x["right"])
            if lr in roots_l and rr in roots_r:
                out.append((lp, rp, A.kind(x["op"])))
        elif k == "Expr::Assign":
            lr, lp = _path_after_root(x["left"])
            rr, rp = _path_after_root(x["right"])
            if lr in roots_l and rr in roots_r:
                out.append((lp, rp, "="))
        elif k == "Expr::MethodCall" and x["args"]:
            lr, lp = _path_after_root(x["receiver"])
            rr, rp = _path_after_root(x["args"][0])
            if lr in roots_l and rr in roots_r:
                m = x["method"]["sym"]
                if m in ("extend", "append", "push", "extend_from_slice"):
                    out.append((lp, rp, m))
                elif depth < 2:
                    # a helper method of the crate: inline its effects under the receiver's path
                    helpers = [g for g in A.functions(fn.file) if g.name == m and g.impl is not None]
                    for g in helpers:
                        for a, b, op in merge_effects(ctx, g, depth + 1):
                            out.append(((lp + "." + a).strip("."), (rp + "." + b).strip("."), op))
    return out


def struct_fields(ctx, rel, name):
    it = A.get_item(ctx.files, rel, "Item::Struct", name)
    fl = it["fields"]
    if "0" in fl:
        fl = fl["0"]
    return [x["ident"]["sym"] for x in fl["named"]]


def rule_merge_symmetry(ctx):
    """MERGE-SYM: merging repeated `#[into(..)]` attributes combines every field of every conversion kind with the *same* field of the same kind of the other attribute (`prev.K.F op= new.K.F` for K in owned/ref/ref_mut, F in Conversions' fields): a crossed or forgotten pair makes the set of generated impls depend on the order the attributes are written in."""
    kinds = struct_fields(ctx, INTO, "ConversionsAttribute")
    flds = struct_fields(ctx, INTO, "Conversions")
    fn = A.get_fn(ctx.files, INTO, "<ConversionsAttribute as ParseMultiple>::merge_attrs")
    eff = merge_effects(ctx, fn)
    got = {}
    for l, r, op in eff:
        ctx.instance(f"merge:{l}<-{r}", sample={"lhs": l, "rhs": r, "op": op})
        if l != r:
            ctx.report(f"merge:crossed:{l}<-{r}", ctx.where(fn.file, fn.node), f"`merge_attrs` combines `prev.{l}` with `new.{r}`: a different field / conversion kind (copy-paste slip): `#[into(owned)] #[into(ref)]` then also enables `{l.split('.')[0]}`", {})
        got[l] = op
    for k in kinds:
        for f_ in flds:
            key = f"{k}.{f_}"
            if key not in got:
                ctx.report(f"merge:missing:{key}", ctx.where(fn.file, fn.node), f"`merge_attrs` never merges `{key}`: the value of a later attribute is dropped (e.g. `#[into(i64)] #[into(owned)]` loses the plain field-type conversion)", {})
    ctx.floor("merge effects", len(eff), len(kinds) * len(flds))
    # every merge of a sub-attribute inside a `merge_attrs` happens for *all* pairs of attributes: a shortcut that
    # skips it for some combination (`skip` present ..) silently drops what the skipped side had accumulated
    from . import reject as RJ
    from .. import guardf as GF

    n_sub = 0
    for rel_, f_ in sorted(ctx.files.items()):
        if not rel_.startswith("impl/src"):
            continue
        for g in A.functions(f_):
            if g.name != "merge_attrs" or g.block is None or not (g.trait_ or "").endswith("ParseMultiple"):
                continue
            for c_, ps_ in A.find(g.block, "Expr::Call"):
                nm_ = (A.path_str(c_["func"]) or "").split("::")[-1] if A.kind(c_["func"]) == "Expr::Path" else ""
                if nm_ in ("merge_opt_attrs", "merge_attrs"):
                    n_sub += 1
                    fm = RJ.site_formula(g, c_, ps_)
                    ctx.instance(f"merge:sub:{rel_}::{g.qual}:{A.render(c_['func'])}")
                    atoms_, places_ = set(), {}
                    GF._collect(fm, atoms_, places_)
                    # a sum-typed attribute (`Either`, `ReprConversion`) merges like with like: a dispatch on the two
                    # items' own variants is not a shortcut
                    dispatch = not atoms_ and all(re.fullmatch(r"[$\w.]*\.item", p_) for p_ in places_)
                    if fm != GF.T and not dispatch:
                        ctx.report(f"merge:conditional:{rel_}::{g.qual}:{A.render(c_['func'])}", ctx.where(f_, c_), f"`{g.qual}` merges a sub-attribute through `{A.render(c_['func'])}` only under `{GF.canon_text(fm)[:160]}`: for the other combinations of repeated attributes one side's value is taken as is and what the other had accumulated is lost (e.g. `#[into(skip)] #[into(ref)] #[into(ref_mut)]` loses `ref`)", {})
    ctx.floor("sub-attribute merges", n_sub, 5)
    # Types::merge_attrs concatenates in order
    tf = A.get_fn(ctx.files, "impl/src/utils.rs", "attr::types::<Types as ParseMultiple>::merge_attrs")
    t = A.fn_text(tf)
    ctx.instance("Types::merge_attrs")
    if "prev.item.0.extend(new.item.0)" not in t:
        ctx.report("merge:types", ctx.where(tf.file, tf.node), "`Types::merge_attrs` no longer appends the later attribute's types to the earlier ones (one attribute with several types != several attributes)", {})


def rule_from_table(ctx):
    """FROM-TABLE: `From`'s impl set follows the documented table: per listed type one impl (`Types`), the field tuple for `#[from]` or for an un-annotated item that is not skipped, a blanket forward impl, nothing for `skip` and for un-annotated variants once *any* variant (before or after) is annotated or when the variant has no fields; `has_explicit_from` is complete before the first variant is expanded."""
    fn = A.get_fn(ctx.files, FROM, "Expansion::expand")
    f = fn.file
    body = A.fn_text(fn)
    ctx.instance("skip_variant")
    if "let skip_variant=self.has_explicit_from||(self.variant.is_some()&&self.fields.is_empty())" not in body:
        ctx.report("from:skip_variant", ctx.where(f, fn.node), "`skip_variant` is no longer `has_explicit_from || (is a variant && has no fields)`", {})
    mt = next((m for m, _ in A.find(fn.block, "Expr::Match") if A.wfull(A.render(m["expr"]), "(self.attrs,skip_variant)")), None)
    if mt is None:
        raise A.AnchorLost(f"{FROM}::Expansion::expand", "match (self.attrs, skip_variant)")
    arms = [A.render_pat(a["pat"]) for a in mt["arms"]]
    ctx.instance("decision-arms", sample=arms)
    want = [
        "(Some(VariantAttribute::Types(tys)),_)",
        "(Some(VariantAttribute::Empty(_)),_)|(None,false)",
        "(Some(VariantAttribute::Forward(_)),_)",
        "(Some(VariantAttribute::Skip(_)),_)|(None,true)",
    ]
    if arms != want:
        ctx.report("from:table", ctx.where(f, mt["expr"]), f"the impl-set decision `match (self.attrs, skip_variant)` has arms {arms}; documented table: {want}", {})
    else:
        last = A.render(A.unblock(mt["arms"][3]["body"]))
        if last != "Ok(TokenStream::new())":
            ctx.report("from:skip-arm", ctx.where(f, mt["arms"][3]["pat"]), f"skipped / implicit-but-suppressed items generate `{last}` instead of nothing", {})
    # has_explicit_from: computed in a complete first pass
    ex = A.get_fn(ctx.files, FROM, "expand")
    writes = []
    uses = []
    for x, ps in A.walk(ex.block):
        if (A.kind(x) == "Expr::Assign" or (A.kind(x) == "Expr::Binary" and (A.kind(x["op"]) or "").endswith("Assign"))) and A.render(x["left"]) == "has_explicit_from":
            st = next((p for p in ps if A.kind(p) == "Stmt::Local" or (A.kind(p) == "Stmt::Expr")), None)
            top = _top_stmt(ex, x)
            writes.append(top)
        if A.kind(x) == "Stmt::Local" and A.pat_idents(x["pat"]) == ["has_explicit_from"] and x.get("init") is not None and A.render(x["init"]["expr"]) not in ("false", "true"):
            # computed as a whole (`let has_explicit_from = attrs.iter().any(..)`)
            writes.append(x)
        if A.kind(x) == "Expr::Struct" and A.path_last(x["path"]) == "Expansion":
            for fv in x["fields"]:
                if fv["member"]["0"]["sym"] == "has_explicit_from" and A.render(fv["expr"]) == "has_explicit_from":
                    uses.append(_top_stmt(ex, x))
    ctx.instance("has_explicit_from:two-pass", sample={"writes": len(writes), "uses": len(uses)})
    if not writes or not uses:
        raise A.AnchorLost(f"{FROM}::expand", "writes/uses of has_explicit_from")
    if any(w is u for w in writes for u in uses) or any(w is None for w in writes):
        ctx.report(
            "from:has_explicit_from:fused",
            ctx.where(ex.file, ex.node),
            "`has_explicit_from` is still being computed while variants are already expanded (one fused pass): un-annotated variants declared *before* the first `#[from]` variant wrongly get an impl",
            {},
        )
    t = A.fn_text(ex)
    ctx.instance("has_explicit_from:set-by")
    if "if matches!(attr,Some(VariantAttribute::Empty(_)|VariantAttribute::Types(_)|VariantAttribute::Forward(_)),){has_explicit_from=true}" not in t.replace(" ", "").replace("ifmatches", "if matches") and "VariantAttribute::Empty(_)|VariantAttribute::Types(_)|VariantAttribute::Forward(_)" not in t.replace(" ", ""):
        ctx.report("from:has_explicit_from:set", ctx.where(ex.file, ex.node), "`has_explicit_from` is no longer set by exactly `#[from]`, `#[from(types)]` and `#[from(forward)]`", {})


def _top_stmt(fn, node):
    """the statement (of the innermost block that is a direct match-arm / fn body) containing node"""
    best = None
    for x, ps in A.walk(fn.block):
        if x is node:
            for p in ps:
                if A.kind(p) in ("Stmt::Local", "Stmt::Expr", "Stmt::Macro"):
                    best = p
            # we want the outermost statement inside the Enum arm: take the first statement whose parent chain contains an Arm
            chain = list(ps)
            for i, p in enumerate(chain):
                if A.kind(p) == "Arm":
                    for q in chain[i + 1 :]:
                        if A.kind(q) in ("Stmt::Local", "Stmt::Expr"):
                            return q
                    # expression-bodied arm: the arm itself is the unit
                    return p
            return best
    return None


def _into_carrier(it):
    """How `into::expand` carries (index, field, skip) of one field from the parsing pass to the expansion pass: the
    triple `(i, f, skip)`, or a private struct whose three members are filled from exactly those three values.
    Returns (closing-text of the Ok value, regex for the skip filter, regex for the single-field list) or None."""
    if "Ok(((i,f,skip),convs))" in it:
        return (
            "Ok(((i,f,skip),convs))",
            re.escape("fields.into_iter().filter_map(|(i,f,skip)|(!skip).then_some((i,f))).collect()"),
            re.escape("fields:vec!((i,field))"),
        )
    m = re.search(r"let (\w+)=(\w+)\{(\w+):i,(\w+):f,(?:(\w+):)?skip,?\};Ok\(\(\1,convs\)\)", it) or re.search(r"Ok\(\((\w+)\{(\w+):i,(\w+):f,(?:(\w+):)?skip,?\},convs\)\)", it)
    if not m:
        return None
    g = m.groups()
    ni, nf, ns = (g[2], g[3], g[4] or "skip") if len(g) == 5 else (g[1], g[2], g[3] or "skip")
    return (
        m.group(0),
        r"fields\.into_iter\(\)\.filter_map\(\|(\w+)\|\(!\1\.%s\)\.then_some\(\(\1\.%s,\1\.%s\)\)\)\.collect\(\)" % (ns, ni, nf),
        r"fields:vec!\(\((\w+)\.%s,\1\.%s\)\)" % (ni, nf),
    )


def rule_field_order(ctx):
    """IDX-ALIGN(conv): the i-th tuple component initialises the i-th declared field and nothing else: `expand_fields` hands (ident, type, index) of the same `(i, field)` to the wrapper; each per-field template contains exactly one conversion (`<Ty as From<..>>::from(value.i)` for types/forward, none for the plain tuple); listed types pass `validate_type`; Into extracts non-skipped fields under their original index in declaration order for the three reference kinds; Constructor's parameters, types and initialisers come from one field list."""
    fn = A.get_fn(ctx.files, FROM, "Expansion::expand_fields")
    t = A.fn_text(fn)
    ctx.instance("expand_fields:enumerate")
    if "self.fields.iter().enumerate().map(|(i,field)|{wrap(field.ident.as_ref(),&field.ty,Some(i.into()))}).collect()" not in t.replace("|(i,field)|wrap(", "|(i,field)|{wrap(").replace("Some(i.into())))", "Some(i.into()))})") and "wrap(field.ident.as_ref(),&field.ty,Some(i.into()))" not in t:
        ctx.report("order:expand_fields", ctx.where(fn.file, fn.node), "`expand_fields` no longer passes identifier, type and index of the same enumerated field to the initialiser", {})
    if "wrap(field.ident.as_ref(),&field.ty,None)" not in t or "if self.fields.len()==1{" not in t:
        ctx.report("order:expand_fields:single", ctx.where(fn.file, fn.node), "the single-field case (`value` itself, no index) changed", {})
    ex = A.get_fn(ctx.files, FROM, "Expansion::expand")
    ts = T.templates_both(ex)
    texts = A.TList(tx(x) for x in ts)
    per_field = {
        "types": "#(#ident:)*<#tyasderive_more::core::convert::From<#from_ty>>::from(value#(.#index)*),",
        "plain": "#(#ident:)*value#(.#index)*,",
        "forward": "#(#ident:)*<#tyasderive_more::core::convert::From<#gen_ident>>::from(value#(.#index)*),",
    }
    for k, s in per_field.items():
        ctx.instance(f"from:per-field:{k}", sample=s)
        if s not in texts:
            near = [x for x in texts if x.startswith("#(#ident:)*")]
            ctx.report(f"order:from:{k}", ctx.where(ex.file, ex.node), f"the per-field initialiser of the `{k}` form is no longer `{s}` (exactly one `From::from` applied to `value.i`, or none for the plain form); found {near}", {})
    body = A.fn_text_with_helpers(ex)
    ctx.instance("from:validate_type")
    if "let mut from_tys=self.fields.validate_type(ty)?" not in body or "let from_ty=from_tys.next().unwrap_or_else(||unreachable!())" not in body:
        ctx.report("order:from:validate", ctx.where(ex.file, ex.node), "listed types are no longer validated against the field count and consumed one per field in order", {})
    ctx.instance("from:forward-counter")
    # numbered by a counter bumped once per pushed parameter, or by the length of the list pushed to
    gi = [d for x_, d in A.ident_ctors(ex.block) if d["pattern"] == "__FromT{}" and len(d["args"]) == 1 and d["span"] is None]
    ix_ = gi[0]["args"][0].replace(" ", "") if len(gi) == 1 else None
    idx_ok = ix_ is not None and ((ix_ == "gen_idents.len()" and "gen_idents.push(gen_ident)" in body) or (re.fullmatch(r"\w+", ix_) is not None and f"gen_idents.push(gen_ident);{ix_}+=1" in body and f"let mut {ix_}=0" in body))
    if not idx_ok or not ("for (ty,ident) in field_tys.iter().zip(&gen_idents)" in body or "for (ty,ident) in field_tys.iter().zip(gen_idents)" in body):
        ctx.report("order:from:forward", ctx.where(ex.file, ex.node), "forward impl: the fresh parameter `__FromT{i}` is no longer created once per field in order and zipped with the field types", {})
    # Into
    ie = A.get_fn(ctx.files, INTO, "expand")
    it = A.fn_text(ie)
    ctx.instance("into:fields-list")
    car = _into_carrier(it)
    for part, why, rx in (
        ("data.fields.iter().enumerate().map(|(i,f)|", "fields are enumerated with their original index", None),
        ("Ok(((i,f,skip),convs))", "index, field and skip flag of one field stay together", re.escape(car[0]) if car else None),
        ("fields.into_iter().filter_map(|(i,f,skip)|(!skip).then_some((i,f))).collect()", "skipped fields are filtered out keeping index and order", car[1] if car else None),
        ("fields:vec!((i,field))", "a field-level attribute expands that very field", car[2] if car else None),
    ):
        if part not in it and not (rx and re.search(rx, it)):
            ctx.report(f"order:into:{part[:30]}", ctx.where(ie.file, ie.node), f"Into: {why} - no longer found (`{part}`)", {})
    ix = A.get_fn(ctx.files, INTO, "Expansion::expand")
    xt = A.fn_text(ix)
    ctx.instance("into:member-index")
    if "fields.iter().map(|(i,f)|{f.ident.as_ref().map_or_else(||Either::Left(syn::Index::from(*i)),Either::Right)}).collect()" not in xt.replace("|(i,f)|f.ident", "|(i,f)|{f.ident").replace("Either::Right)).collect()", "Either::Right)}).collect()") and "map_or_else(||Either::Left(syn::Index::from(*i)),Either::Right)" not in xt:
        ctx.report("order:into:member", ctx.where(ix.file, ix.node), "Into reads positional fields under an index other than their original one: with a skipped field before them the wrong field is extracted", {})
    ctx.instance("into:ref-kinds")
    if "[(&convs.owned,false,false),(&convs.r#ref,true,false),(&convs.ref_mut,true,true)]" not in xt:
        ctx.report("order:into:kinds", ctx.where(ix.file, ix.node), "the (conversion list, is-reference, is-mutable) table of owned / ref / ref_mut changed", {})
    if "let tys=fields_tys.validate_type(out_ty)?.collect()" not in xt:
        ctx.report("order:into:validate", ctx.where(ix.file, ix.node), "Into no longer validates each listed type against the (non-skipped) field count", {})
    its = A.TList(tx(x) for x in T.templates_both(ix))
    ctx.instance("into:template")
    if not any("(#(<#r#m#tysasderive_more::core::convert::From<_>>::from(#r#mvalue.#fields_idents)),*)" in x_ for x_ in its):
        ctx.report("order:into:template", ctx.where(ix.file, ix.node), "Into's body is no longer one `<Ty as From<_>>::from(value.field)` per (type, field) pair in order", {})
    # Constructor
    ce = A.get_fn(ctx.files, CTOR, "expand")
    ct = A.fn_text(ce)
    ctx.instance("constructor")
    for part in ("(tuple_body(input_type,&field_vec),field_vec)", "(struct_body(input_type,&field_vec),field_vec)", "let original_types=&get_field_types(&fields)"):
        if part not in ct:
            ctx.report(f"order:ctor:{part[:24]}", ctx.where(ce.file, ce.node), f"Constructor: parameters, their types and the initialisers no longer come from one field list (`{part}`)", {})
    cts = A.TList(tx(x) for x in T.templates_of(ce, composed=True))
    if not any("pubconstfnnew(#(#vars:#original_types),*)->#input_type#ty_generics{#body}" in c for c in cts):
        ctx.report("order:ctor:signature", ctx.where(ce.file, ce.node), "Constructor signature is no longer `new(#(#vars: #original_types),*) -> Self`", {})
    tb = A.get_fn(ctx.files, CTOR, "tuple_body")
    sb = A.get_fn(ctx.files, CTOR, "struct_body")
    if "#return_type(#(#vars),*)" not in [tx(x) for x in T.templates_of(tb, composed=True)] or A.wsearch(A.fn_text(tb), 'numbered_vars(fields.len(),"")') is None:
        ctx.report("order:ctor:tuple", ctx.where(tb.file, tb.node), "tuple constructor body changed", {})
    # `Ty { #(#name: #var),* }` where name and var are the same list (possibly through an alias), built from the
    # fields' own identifiers in order
    al = {n: e for n, (e, st, interp) in A.aliases(sb).items()}

    def root(n, depth=0):
        e = al.get(n)
        while e is not None and A.kind(e) in ("Expr::Reference", "Expr::Paren"):
            e = e["expr"]
        if e is not None and A.kind(e) == "Expr::MethodCall" and e["method"]["sym"] == "clone" and not e["args"]:
            e = e["receiver"]
        if e is not None and A.kind(e) == "Expr::Path" and "::" not in (A.path_str(e) or "::") and depth < 4:
            return root(A.path_str(e), depth + 1)
        return n

    ok_struct = False
    for x in T.templates_both(sb):
        m = re.fullmatch(r"#(\w+)\{#\(#(\w+):#(\w+)\),\*\}", tx(x))
        if m and root(m.group(2)) == root(m.group(3)):
            r0 = root(m.group(2))
            inits = [A.render(st["init"]["expr"]) for st, _ in A.find(sb.block, "Stmt::Local") if st.get("init") and A.pat_idents(st["pat"]) == [r0]]
            if inits and all("field_idents(fields)" in i_ for i_ in inits):
                ok_struct = True
    if not ok_struct:
        ctx.report("order:ctor:struct", ctx.where(sb.file, sb.node), "struct constructor body changed (`field: field` for each field in order)", {})


def _definitely_returns_err(body):
    """the arm body is (a block whose last statement is) `return Err(..)`"""
    b = A.unblock(body)
    if A.kind(b) == "Expr::Return":
        return A.render(b).startswith("return Err(")
    if A.kind(body) == "Expr::Block":
        st = body["block"]["stmts"]
        if st and A.kind(st[-1]) == "Stmt::Expr":
            return A.render(st[-1]["0"]).startswith("return Err(")
    return False


def rule_validate_arity(ctx):
    """ARITY: `FieldsExt::validate_type` hands out the element types of a listed tuple type (`#[from((A, B))]`, `#[into((A, B))]`) for a per-field zip only when their number equals the number of fields: for more than one field, both a shorter and a longer tuple are definite errors (zip would silently drop the surplus component / leave fields unconverted), a non-tuple is an error, and only `Ordering::Equal` falls through."""
    fn = A.get_fn(ctx.files, "impl/src/utils.rs", "fields_ext::FieldsExt::validate_type")
    f = fn.file
    w = ctx.where(f, fn.node)
    cmpm = None
    als_ = A.aliases(fn)
    for mt, ps in A.find(fn.block, "Expr::Match"):
        # a cached `let n = self.len();` is read as what it stands for
        r = A.inline_text(A.render(mt["expr"]), als_)
        if re.fullmatch(r"self\.len\(\)\.cmp\(&\w+\.len\(\)\)", r) or re.fullmatch(r"\w+\.len\(\)\.cmp\(&self\.len\(\)\)", r):
            cmpm = (mt, ps, r)
    ctx.instance("arity:compare")
    if cmpm is None:
        # accepted alternative: `if self.len() != elems.len() { return Err(..) }`
        t = A.fn_text(fn, inline=True)
        if A.wsearch(t, "if self.len()!=elems.len(){return Err(") is None and A.wsearch(t, "if elems.len()!=self.len(){return Err(") is None:
            ctx.report("arity:compare", w, "`validate_type` no longer compares the number of fields with the number of listed tuple elements before handing the elements out for a per-field zip", {})
        return
    mt, ps, r = cmpm
    seen = {}
    for arm in mt["arms"]:
        pats = arm["pat"]["cases"] if A.kind(arm["pat"]) == "Pat::Or" else [arm["pat"]]
        for p in pats:
            nm = A.render_pat(p).split("::")[-1]
            seen[nm] = (arm, len(pats))
    for v in ("Greater", "Less"):
        ctx.instance(f"arity:{v}")
        a = seen.get(v) or seen.get("_")
        if a is None or not _definitely_returns_err(a[0]["body"]):
            which = "longer" if (v == "Less") == r.startswith("self.len()") else "shorter"
            ctx.report(
                f"arity:{v}",
                ctx.where(f, (a[0]["pat"] if a else mt["expr"])),
                f"`validate_type`: a listed tuple type {which} than the field list (`{r}` is `{v}`) is not a definite `return Err(..)`: "
                + ("`#[from((i8, i16, i32))] struct Pair(i32, i64)` is accepted and `Pair::from((1, 2, 3))` silently drops the third component" if which == "longer" else "fields are left without a listed type"),
                {},
            )
    ctx.instance("arity:Equal")
    a = seen.get("Equal")
    if a is None or a[1] != 1 or A.render(A.unblock(a[0]["body"])) not in ("{}", "()", ""):
        if not (a and a[1] == 1):
            ctx.report("arity:Equal", w, "`Ordering::Equal` no longer stands alone as the only accepted case", {})
    # the comparison guards the zip: it sits in the `Tuple` arm taken for more than one field
    ctx.instance("arity:scope")
    arm = next((p for p in reversed(ps) if A.kind(p) == "Arm"), None)
    if arm is None or "Type::Tuple" not in A.render_pat(arm["pat"]) or A.render(arm["guard"][1] if isinstance(arm.get("guard"), list) else arm.get("guard") or {}) not in ("self.len()>1",):
        g = arm.get("guard") if arm else None
        gr = A.render(g[1]) if isinstance(g, list) and len(g) > 1 else (A.render(g) if isinstance(g, dict) else None)
        gr = A.inline_text(gr, als_) if gr else gr
        if arm is None or "Type::Tuple" not in A.render_pat(arm["pat"]) or gr != "self.len()>1":
            ctx.report("arity:scope", w, f"the arity comparison no longer covers every tuple type listed for a multi-field item (arm guard `{gr}`)", {})


def rule_into_impl_set(ctx):
    """IMPL-SET(Into): without a struct-level `#[into(..)]` the whole-struct (tuple) conversion is generated iff *no* field carries a conversion list of its own (a `skip` does not count as one and does not excuse one): the fallback is `<per-field conversions>.iter().all(Option::is_none).then(ConversionsAttribute::default)`, the per-field conversions being the `attr.convs` of each field in order; each field-level list yields one expansion for that very field."""
    fn = A.get_fn(ctx.files, INTO, "expand")
    f = fn.file
    t = A.fn_text(fn)
    w = ctx.where(f, fn.node)
    ctx.instance("into-set:convs-source")
    m = A.wsearch(t, "let convs=field_attr.and_then(|attr|attr.convs);Ok(((i,f,skip),convs))")
    if m is None:
        car = _into_carrier(t)
        if car and A.wsearch(t, "let convs=field_attr.and_then(|attr|attr.convs);") is not None and t.index(car[0]) > t.index("let convs=field_attr.and_then("):
            m = True
    u = re.search(r"let \((\w+),(\w+)\)(?::[^=]*)?=(\w+)\.into_iter\(\)\.unzip\(\)", t)
    if m is None or u is None:
        ctx.report("into-set:convs-source", w, "the per-field conversion lists are no longer `field_attr.and_then(|attr| attr.convs)` collected in field order and unzipped from the field triples", {})
        return
    fields_v, convs_v = u.group(1), u.group(2)
    ctx.instance("into-set:fallback")
    oe = None
    for mc, _ in A.method_calls(fn.block, "or_else"):
        if mc["args"] and A.kind(mc["args"][0]) == "Expr::Closure":
            oe = A.render(A.unblock(mc["args"][0]["body"]))
            recv = A.render(mc["receiver"])
    ok_forms = [
        rf"{convs_v}\.iter\(\)\.all\(Option::is_none\)",
        rf"{convs_v}\.iter\(\)\.all\(\|(\w+)\|\1\.is_none\(\)\)",
        rf"!{convs_v}\.iter\(\)\.any\(Option::is_some\)",
        rf"!{convs_v}\.iter\(\)\.any\(\|(\w+)\|\1\.is_some\(\)\)",
    ]
    if oe is None or not any(re.fullmatch(p + r"\.then\(ConversionsAttribute::default\)\.map\(Either::Right\)", oe) for p in ok_forms):
        ctx.report(
            "into-set:fallback",
            w,
            f"the implicit whole-struct conversion is decided by `{oe}` instead of 'every field's conversion list is None' (`{convs_v}.iter().all(Option::is_none)`): "
            "an impl outside the documented set appears (e.g. `From<Foo> for (String, f64)` although a field has its own `#[into(..)]`) or the documented one disappears",
            {},
        )
    ctx.instance("into-set:per-field")
    if A.wsearch(t, f"{fields_v}.iter().zip({convs_v}).filter_map(|(&(i,field,_),convs)|{{convs.map(|convs|Expansion{{") is None and A.wsearch(t, f"{fields_v}.iter().zip({convs_v}).filter_map(|(&(i,field,_),convs)|convs.map(|convs|Expansion{{") is None and re.search(
        rf"{fields_v}\.iter\(\)\.zip\({convs_v}\)\.filter_map\(\|\(\w+,convs\)\|\{{?convs\.map\(\|convs\|Expansion\{{", t
    ) is None:
        ctx.report("into-set:per-field", w, "field-level conversion lists no longer yield exactly one expansion each (zip of fields and their lists, `convs.map(..)`)", {})
    # the whole-struct expansion is added exactly when a struct-level list exists (explicit or the fallback): no further condition
    pushes = [(mc, ps) for mc, ps in A.method_calls(fn.block, "push") if mc["args"] and "Expansion" in A.render(mc["args"][0])]
    ctx.instance("into-set:struct-push", sample=len(pushes))
    if len(pushes) != 1:
        ctx.report("into-set:struct-push", w, f"the whole-struct expansion is pushed at {len(pushes)} places (expected one, under `if let Some(attr) = struct_attr`)", {})
    else:
        from . import reject as RJ
        from .. import guardf as GF

        mc, ps = pushes[0]
        fm = RJ.site_formula(fn, mc, ps)
        want = ("is", "struct_attr", "Some")
        ok = False
        try:
            ok = GF.equivalent(fm, GF.alpha_formula(want))[0]
        except Exception:
            ok = False
        if not ok:
            ctx.report("into-set:struct-push", ctx.where(f, mc), f"the whole-struct conversion is generated under `{GF.canon_text(fm)}` instead of 'a struct-level conversion list exists' (`struct_attr` is Some): the documented impl for the tuple of non-skipped fields is missing for some inputs (or appears without a list)", {})


def rule_merge_no_shortcut(ctx):
    """MERGE-DUP: when two attributes of one item are merged (`ParseMultiple::merge_attrs` / `merge_opt_attrs`), a part that both of them give is never resolved by `Option::or` / `or_else` / `xor` / `unwrap_or` / `get_or_insert*` on the two sides - those keep one value and drop the other silently, so `#[into(skip)] #[into(ignore)]`, two `rename_all`s or two literals stop being the documented 'only one allowed' error. A repeated part goes through the sub-attribute's own merge (which refuses it) or an explicit both-present test."""
    SHORT = {"or", "or_else", "xor", "unwrap_or", "unwrap_or_else", "unwrap_or_default", "get_or_insert", "get_or_insert_with", "max", "min", "and"}
    n = 0
    for rel, f in sorted(ctx.files.items()):
        if not rel.startswith("impl/src/"):
            continue
        for fn in A.functions(f):
            if fn.block is None or fn.name not in ("merge_attrs", "merge_opt_attrs"):
                continue
            prm = [x for p_ in fn.node["sig"]["inputs"] if A.kind(p_) == "FnArg::Typed" for x in A.pat_idents(p_["0"]["pat"])]
            sides = set(prm[:2])
            # names destructured / aliased from the two sides
            for st, _ in A.find(fn.block, "Stmt::Local"):
                if st.get("init") and any(re.search(r"\b%s\b" % re.escape(s_), A.render(st["init"]["expr"])) for s_ in list(sides)):
                    sides |= set(A.pat_idents(st["pat"]))
            n += 1
            ctx.instance(f"merge-dup:{rel}::{fn.qual}")
            for mc, _ in A.find(fn.block, "Expr::MethodCall"):
                if mc["method"]["sym"] not in SHORT:
                    continue
                root, ops = A.chain(mc["receiver"])
                rn = A.path_str(root) if A.kind(root) == "Expr::Path" else None
                args_txt = " ".join(A.render(a) for a in mc["args"])
                other = any(re.search(r"\b%s\b" % re.escape(s_), args_txt) for s_ in sides if s_ != rn)
                if rn in sides and other:
                    # fine when the both-present case was refused before: evaluate the body with both sides' part present
                    # (Option interpreter) - a definite `Err` means the shortcut only ever sees at most one value
                    from .. import optalg as O

                    fld = A.render(mc["receiver"]).replace(" ", "")
                    m2 = re.search(r"\b(%s)\.([\w.]+)" % "|".join(re.escape(s_) for s_ in sides if s_ != rn), args_txt)
                    refused = False
                    if m2:
                        try:
                            _e, out_ = O.run_fn_body(fn.block["stmts"], {fld: O.some("a"), f"{m2.group(1)}.{m2.group(2)}": O.some("b")})
                            refused = out_[1] == ("Err",)
                        except Exception:
                            refused = False
                    if refused:
                        continue
                    ctx.report(f"merge-dup:{rel}::{fn.qual}:{mc['method']['sym']}", ctx.where(f, mc["method"]), f"`{fn.qual}` resolves a part given by both attributes with `{A.render(mc)[:80]}`: one value is kept and the other dropped without a diagnostic (a duplicated `skip` / list / literal is accepted), instead of the sub-attribute's own merge refusing it", {})
    ctx.floor("attribute merge functions", n, 8)
