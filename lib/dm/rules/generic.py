"""Crate-wide generic rules (ARG-SWAP, ORDER): cheap shape rules whose expected number of findings is zero; each keeps a
positive control under rules/positive/ that must be reported on every run."""
import collections
import os
import re

from .. import ast as A

POS = os.path.join(os.path.dirname(os.path.dirname(os.path.dirname(os.path.dirname(os.path.abspath(__file__))))), "rules", "positive")


def _argname(e):
    while A.kind(e) in ("Expr::Reference", "Expr::Paren", "Expr::Group", "Expr::Unary"):
        e = e["expr"]
    k = A.kind(e)
    if k == "Expr::Path":
        s = A.path_str(e)
        return s if s and "::" not in s else None
    if k == "Expr::Field":
        m = e["member"]
        return m["0"]["sym"] if A.kind(m) == "Member::Named" else None
    if k == "Expr::MethodCall" and e["method"]["sym"] in ("clone", "as_ref", "as_mut", "iter", "to_owned", "cloned", "copied", "into_iter", "as_deref"):
        return _argname(e["receiver"])
    return None


def _swaps(files):
    """(file, fn, call node, callee name, argument names, parameter names, i) for arguments named like *another* parameter"""
    by_name = collections.defaultdict(list)
    for rel, f in files.items():
        for fn in A.functions(f):
            params = []
            for p in fn.node["sig"]["inputs"]:
                if A.kind(p) == "FnArg::Typed":
                    ns = A.pat_idents(p["0"]["pat"])
                    params.append(ns[0] if len(ns) == 1 else None)
            by_name[fn.name].append((fn, params))
    n = same = 0
    out = []
    for rel, f in sorted(files.items()):
        for fn in A.functions(f):
            if fn.block is None:
                continue
            for x, _ in A.walk(fn.block):
                k = A.kind(x)
                if k == "Expr::Call" and A.kind(x["func"]) == "Expr::Path":
                    nm = A.path_str(x["func"]).split("::")[-1]
                elif k == "Expr::MethodCall":
                    nm = x["method"]["sym"]
                else:
                    continue
                c = by_name.get(nm)
                if not c or len(c) != 1:
                    continue
                callee, params = c[0]
                args = x["args"]
                if len(params) != len(args) or len(params) < 2:
                    continue
                n += 1
                names = [_argname(a) for a in args]
                for i, (a, p) in enumerate(zip(names, params)):
                    if a and p and a == p:
                        same += 1
                    if a and a != p and a in params and params.index(a) != i and names[params.index(a)] != a:
                        out.append((f, fn, x, nm, names, params, i))
    return n, same, out


def rule_arg_order(ctx):
    """ARG-SWAP: at every call of a crate-local function (unique by name, >= 2 parameters) an argument that is literally named like one of the callee's parameters sits at that parameter's position. Two arguments of equal type in exchanged positions (`merge(new, prev)`, `(lhs, rhs)` reversed, field and type lists exchanged) compile and pass every test that happens to use symmetric inputs."""
    files = {rel: f for rel, f in ctx.files.items() if rel.startswith("impl/src/") or rel.startswith("src/")}
    n, same, out = _swaps(files)
    ctx.cur.instances += n
    ctx.note(f"{n} calls of crate-local functions with >= 2 parameters, {same} arguments named like their parameter")
    for f, fn, x, nm, names, params, i in out:
        ctx.report(
            f"argswap:{f.rel}::{fn.qual}:{nm}:{names[i]}",
            ctx.where(f, x),
            f"`{fn.qual}` calls `{nm}({', '.join(str(a) for a in names)})` but the callee's parameters are `({', '.join(str(p) for p in params)})`: the argument `{names[i]}` is passed where `{params[i]}` is expected (and vice versa): operands / lists of equal type are exchanged",
            {},
        )
    ctx.floor("calls with named arguments", same, 150)
    # positive control
    pc = A.load_files([os.path.join(POS, "argswap.rs")])
    _, _, o2 = _swaps(pc)
    ctx.instance("argswap:positive-control")
    if len(o2) != 2:
        ctx.report("argswap:positive-control", "rules/positive/argswap.rs", f"the positive control yields {len(o2)} reports instead of 2: the rule no longer sees exchanged arguments", {})


ORDER_METHODS = {"rev", "sort", "sort_by", "sort_by_key", "sort_unstable", "sort_unstable_by", "sort_unstable_by_key", "reverse", "dedup", "dedup_by", "dedup_by_key", "swap", "rotate_left", "rotate_right", "swap_remove", "shuffle", "next_back", "rfold", "rfind", "rposition"}
# order-changing operations that are part of the documented behaviour (one reason each)
ORDER_ALLOWED = {}


def _order_sites(files):
    out = []
    for rel, f in sorted(files.items()):
        for fn in A.functions(f):
            if fn.block is None:
                continue
            for mc, _ in A.find(fn.block, "Expr::MethodCall"):
                if mc["method"]["sym"] in ORDER_METHODS:
                    out.append((f, fn, mc))
    return out


def rule_order_adaptors(ctx):
    """ORDER: the derives process fields, variants, attribute arguments and listed types strictly in source order; nothing in impl/src reverses, sorts, rotates, de-duplicates or swaps a sequence (closed set, expected empty). Declaration order is what `From`/`Into`/`Constructor`, operators, accessors, `Debug` output and the order of generated impls / arms / predicates promise (C08, C10, C11, C06, C19)."""
    files = {rel: f for rel, f in ctx.files.items() if rel.startswith("impl/src/")}
    n = 0
    for f, fn, mc in _order_sites(files):
        n += 1
        key = (f.rel, fn.qual, mc["method"]["sym"])
        ctx.instance(f"order:{f.rel}::{fn.qual}:{mc['method']['sym']}")
        if key in ORDER_ALLOWED:
            continue
        ctx.report(
            f"order:{f.rel}::{fn.qual}:.{mc['method']['sym']}()",
            ctx.where(f, mc["method"]),
            f"`{fn.qual}` applies `.{mc['method']['sym']}(..)` to `{A.render(mc['receiver'])[:100]}`: the sequence is no longer processed in source order (fields end up in other positions, impls / arms / predicates are emitted in another order)",
            {},
        )
    fns = sum(len(A.functions(f)) for f in files.values())
    ctx.cur.instances += fns
    ctx.note(f"{fns} functions scanned, {n} order-changing operations")
    pc = A.load_files([os.path.join(POS, "order.rs")])
    ctx.instance("order:positive-control")
    got = len(_order_sites(pc))
    if got != 5:
        ctx.report("order:positive-control", "rules/positive/order.rs", f"the positive control yields {got} sites instead of 5", {})


CUT_METHODS = {"map_while", "take_while", "skip_while", "step_by", "take", "skip"}
# truncating adaptors that are part of the documented behaviour (one reason each)
CUT_ALLOWED = {}


def _cut_sites(files):
    out = []
    for rel, f in sorted(files.items()):
        for fn in A.functions(f):
            if fn.block is None:
                continue
            for mc, _ in A.find(fn.block, "Expr::MethodCall"):
                # (`Option::take()` / `mem::take` have no argument; the iterator adaptors all take one)
                if mc["method"]["sym"] in CUT_METHODS and len(mc["args"]) >= 1:
                    out.append((f, fn, mc))
    return out


def rule_truncating_adaptors(ctx):
    """CUT: the derives look at *every* field, variant, placeholder, attribute and listed type: no iterator pipeline in impl/src stops at, or starts after, an element chosen by its content or position (`map_while`, `take_while`, `skip_while`, `take`, `skip`, `step_by`; closed set, expected empty). A `filter_map` rewritten as `filter(..).map_while(..)` silently drops every element after the first non-matching one: `{:p} -> {target:p}` no longer dereferences `target`, predicates of later fields are not generated, later variants get no arm."""
    files = {rel: f for rel, f in ctx.files.items() if rel.startswith("impl/src/")}
    n = 0
    for f, fn, mc in _cut_sites(files):
        n += 1
        key = (f.rel, fn.qual, mc["method"]["sym"])
        ctx.instance(f"cut:{f.rel}::{fn.qual}:{mc['method']['sym']}")
        if key in CUT_ALLOWED:
            continue
        ctx.report(
            f"cut:{f.rel}::{fn.qual}:.{mc['method']['sym']}()",
            ctx.where(f, mc["method"]),
            f"`{fn.qual}` applies `.{mc['method']['sym']}(..)` to `{A.render(mc['receiver'])[:100]}`: the elements before / after the cut are not processed at all (a later placeholder, field, variant or attribute argument is silently ignored)",
            {},
        )
    fns = sum(len(A.functions(f)) for f in files.values())
    ctx.cur.instances += fns
    ctx.note(f"{fns} functions scanned, {n} truncating adaptors")
    pc = A.load_files([os.path.join(POS, "cut.rs")])
    ctx.instance("cut:positive-control")
    got = len(_cut_sites(pc))
    if got != 4:
        ctx.report("cut:positive-control", "rules/positive/cut.rs", f"the positive control yields {got} sites instead of 4", {})


SHRINKING = {"filter", "filter_map", "flatten", "flat_map", "skip", "take", "skip_while", "take_while", "map_while", "dedup", "chain", "step_by"}


def _zip_sites(files):
    out = []
    for rel, f in sorted(files.items()):
        for fn in A.functions(f):
            if fn.block is None:
                continue
            for mc, _ in A.find(fn.block, "Expr::MethodCall"):
                if mc["method"]["sym"] == "zip" and len(mc["args"]) == 1:
                    out.append((f, fn, mc, mc["receiver"], mc["args"][0]))
            for c, _ in A.find(fn.block, "Expr::Call"):
                if A.kind(c["func"]) == "Expr::Path" and (A.path_str(c["func"]) or "").split("::")[-1] == "zip" and len(c["args"]) == 2:
                    out.append((f, fn, c, c["args"][0], c["args"][1]))
    return out


def _zip_operand(fn, e, als):
    """(root variable, first projected member or None, shrinking adaptors in the chain) of a zip operand, single-use
    `let` aliases followed"""
    e = A.peel(e)
    while A.kind(e) in ("Expr::Reference", "Expr::Paren", "Expr::Group"):
        e = A.peel(e["expr"])
    root, ops = A.chain(e)
    while A.kind(root) in ("Expr::Reference", "Expr::Paren", "Expr::Group"):
        root = root["expr"]
        root, ops2 = A.chain(root)
        ops = ops + ops2
    shr = [o[1] for o in ops if o[0] == "m" and o[1] in SHRINKING]
    nm = A.path_str(root) if A.kind(root) == "Expr::Path" else None
    fs = [str(o[1]) for o in ops if o[0] == "f"]
    if nm in als and not fs:
        r2, m2, s2 = _zip_operand(fn, als[nm][0], {k: v for k, v in als.items() if k != nm})
        return r2, m2, s2 + shr
    return nm, (fs[-1] if fs else None), shr


def rule_zip_alignment(ctx):
    """ZIP-ALIGN: two sequences that are zipped element by element are the same *view* of the input: (a) neither operand is a filtered / flattened / truncated form of a sequence (`fields.iter().enumerate().zip(attrs.into_iter().flatten())` pairs the k present attributes with the first k fields instead of the fields they were written on); (b) when both operands are members of a value (`variant_data.variant_states`, `variant_data.infos`) they are members of the *same* value - `state.variant_states` (all variants) zipped with `variant_data.infos` (enabled variants) shifts every variant after an ignored one."""
    files = {rel: f for rel, f in ctx.files.items() if rel.startswith("impl/src/")}
    n = 0
    for f, fn, node, a, b in _zip_sites(files):
        n += 1
        als = A.aliases(fn)
        ra, ma, sa = _zip_operand(fn, a, als)
        rb, mb, sb = _zip_operand(fn, b, als)
        key = f"zip:{f.rel}::{fn.qual}:{ra}.{ma}~{rb}.{mb}"
        ctx.instance(key, sample={"site": f"{f.rel}::{fn.qual}", "left": A.render(a)[:80], "right": A.render(b)[:80]})
        if sa or sb:
            ctx.report(
                key + ":shrunk",
                ctx.where(f, node),
                f"`{fn.qual}` zips `{A.render(a)[:70]}` with `{A.render(b)[:70]}`, one of which is filtered / flattened / truncated (`.{(sa or sb)[0]}(..)`): the pairs no longer line up position by position - "
                "an attribute is applied to a field it was not written on",
                {},
            )
        elif ma is not None and mb is not None and ra != rb and "self" not in (ra, rb):
            ctx.report(
                key + ":views",
                ctx.where(f, node),
                f"`{fn.qual}` zips `{A.render(a)[:70]}` with `{A.render(b)[:70]}`: members of two different values (`{ra}` / `{rb}`), i.e. two different views of the input (all vs enabled items): "
                "after an ignored variant / field every later element is paired with its predecessor's data",
                {},
            )
    ctx.floor("zip sites", n, 12)
    pc = A.load_files([os.path.join(POS, "zip.rs")])
    ctx.instance("zip:positive-control")
    got = 0
    for f, fn, node, a, b in _zip_sites(pc):
        als = A.aliases(fn)
        ra, ma, sa = _zip_operand(fn, a, als)
        rb, mb, sb = _zip_operand(fn, b, als)
        if sa or sb or (ma is not None and mb is not None and ra != rb and "self" not in (ra, rb)):
            got += 1
    if got != 2:
        ctx.report("zip:positive-control", "rules/positive/zip.rs", f"the positive control yields {got} reports instead of 2", {})


def _field_corr(files):
    n = 0
    out = []
    for rel, f in sorted(files.items()):
        for fn in A.functions(f):
            if fn.block is None:
                continue
            for lit, _ in A.find(fn.block, "Expr::Struct"):
                names = [fv["member"]["0"]["sym"] for fv in lit["fields"] if A.kind(fv["member"]) == "Member::Named"]
                if len(names) < 2:
                    continue
                rows = []
                for fv in lit["fields"]:
                    if A.kind(fv["member"]) != "Member::Named":
                        continue
                    nm = fv["member"]["0"]["sym"]
                    per_root = {}
                    for x, _ in A.find(fv["expr"], "Expr::Field"):
                        m = x["member"]
                        if A.kind(m) != "Member::Named":
                            continue
                        # only the field read directly off the root variable counts (`defaults.ref_`, not `a.b.ref_`)
                        base = x["base"]
                        while A.kind(base) in ("Expr::Paren", "Expr::Reference", "Expr::Unary"):
                            base = base["expr"]
                        if A.kind(base) == "Expr::Path" and "::" not in (A.path_str(base) or "::"):
                            per_root.setdefault(A.path_str(base), set()).add(m["0"]["sym"])
                    if any(v & set(names) for v in per_root.values()):
                        n += 1
                    rows.append((fv, nm, per_root))
                # a root that fills >= 2 fields from its equally named fields is a "parallel source"
                parallel = collections.Counter()
                for fv, nm, per_root in rows:
                    for root, used in per_root.items():
                        if nm in used:
                            parallel[root] += 1
                for fv, nm, per_root in rows:
                    for root, used in sorted(per_root.items()):
                        others = (used & set(names)) - {nm}
                        if others and nm not in used and root != nm and parallel[root] >= 2:
                            out.append((f, fn, lit, fv, nm, [f"{root}.{o}" for o in sorted(others)]))
                            break
    return n, out


def rule_field_correspondence(ctx):
    """FIELD-CORR: when a struct literal fills its fields from equally named fields of other values (`FullMetaInfo { ref_mut: self.ref_mut.unwrap_or(defaults.ref_mut), .. }`, `Spanning { span: .., item: .. }`), no initialiser reads a *sibling's* name instead of its own (`ref_mut: .. defaults.ref_`): a copy-and-paste slip between fields of equal type that compiles and only shows for inputs setting the two fields differently."""
    files = {rel: f for rel, f in ctx.files.items() if rel.startswith("impl/src/") or rel.startswith("src/")}
    n, out = _field_corr(files)
    ctx.cur.instances += n
    ctx.note(f"{n} field initialisers reading equally named fields")
    for f, fn, lit, fv, nm, others in out:
        ctx.report(
            f"fieldcorr:{f.rel}::{fn.qual}:{A.path_last(lit['path'])}.{nm}",
            ctx.where(f, fv["expr"]),
            f"`{fn.qual}` fills `{A.path_last(lit['path'])}::{nm}` from `{A.render(fv['expr'])[:100]}`, which reads the sibling field(s) {others} and never `{nm}`: two slots of equal type are crossed",
            {},
        )
    ctx.floor("same-name field initialisers", n, 30)
    pc = A.load_files([os.path.join(POS, "fieldcorr.rs")])
    ctx.instance("fieldcorr:positive-control")
    _, o2 = _field_corr(pc)
    if len(o2) != 1:
        ctx.report("fieldcorr:positive-control", "rules/positive/fieldcorr.rs", f"the positive control yields {len(o2)} reports instead of 1", {})


def _pos_search_sites(files):
    """`xs.iter().position(|x| *x == y)` / `rposition` / `.iter().enumerate().find(|(_, x)| x == y)`: the position of an
    element recovered by comparing whole elements"""
    out = []
    for rel, f in sorted(files.items()):
        for fn in A.functions(f):
            if fn.block is None:
                continue
            for mc, _ in A.find(fn.block, "Expr::MethodCall"):
                if mc["method"]["sym"] not in ("position", "rposition") or len(mc["args"]) != 1 or A.kind(mc["args"][0]) != "Expr::Closure":
                    continue
                cl = mc["args"][0]
                ids = A.pat_idents(cl["inputs"][0]) if cl["inputs"] else []
                body = A.peel(cl["body"])
                if len(ids) != 1 or A.kind(body) != "Expr::Binary" or A.kind(body["op"]) != "BinOp::Eq":
                    continue

                def bare(e):
                    e = A.peel(e)
                    while A.kind(e) == "Expr::Unary" and A.kind(e["op"]) == "UnOp::Deref":
                        e = A.peel(e["expr"])
                    return A.path_str(e) if A.kind(e) == "Expr::Path" else None

                l, r = bare(body["left"]), bare(body["right"])
                # the closure parameter itself (not a field / key of it) compared with another whole value
                if (l == ids[0] and r and r != ids[0]) or (r == ids[0] and l and l != ids[0]):
                    other = r if l == ids[0] else l
                    on = body["right"] if l == ids[0] else body["left"]
                    out.append((f, fn, mc, other, on))
    return out


def rule_position_search(ctx):
    """POS-SEARCH: no derive recovers the position of a field / type / variant by searching for an *equal* element (`fields.iter().position(|f| *f == field)`): syn's equality is structural, so with two fields of the same type (and no names) the first one is found for both - the generated code then reads `self.0` twice. Positions come from `enumerate()` / the iteration itself. Closed set, expected empty (positive control: rules/positive/possearch.rs)."""
    files = {rel: f for rel, f in ctx.files.items() if rel.startswith("impl/src/")}
    from .. import types as TY

    sites = []
    for f, fn, mc, other, on in _pos_search_sites(files):
        sp = A.span_of(on)
        ty, _b = TY.var_type_at(ctx, fn, other, sp[0] if sp else 0)
        t_ = (ty or "").replace("&", "").replace("mut ", "").strip()
        # keys that identify an element uniquely (an index, a name) are fine; whole syntax nodes are not
        if re.fullmatch(r"(usize|u\d+|i\d+|isize|char|bool|str|std::string::String|syn::Ident|proc_macro2::Ident)", t_):
            ctx.instance(f"possearch:{f.rel}::{fn.qual}:by-key", sample={"key type": t_})
            continue
        sites.append((f, fn, mc))
    for f, fn, mc in sites:
        ctx.instance(f"possearch:{f.rel}::{fn.qual}")
        ctx.report(f"possearch:{f.rel}::{fn.qual}", ctx.where(f, mc["method"]), f"`{fn.qual}` finds an index with `{A.render(mc)[:100]}`: equality of syntax nodes is structural, two like-typed unnamed fields are equal, so every one of them gets the index of the first (`struct Pair(T, T)`: `-Pair(a, b)` becomes `Pair(-a, -a)`)", {})
    fns = sum(len(A.functions(f)) for f in files.values())
    ctx.cur.instances += fns
    ctx.note(f"{fns} functions scanned, {len(sites)} positions recovered by equality search")
    pc = A.load_files([os.path.join(POS, "possearch.rs")])
    ctx.instance("possearch:positive-control")
    got = len(_pos_search_sites(pc))
    if got != 3:
        ctx.report("possearch:positive-control", "rules/positive/possearch.rs", f"the positive control yields {got} sites instead of 3", {})
