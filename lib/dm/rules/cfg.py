"""C20 - every feature works on its own, with and without std (cfg algebra + per-configuration type-check)."""
import itertools
import os
import re
import shutil
import subprocess
import tempfile
import time
from concurrent.futures import ThreadPoolExecutor

from .. import ast as A
from .. import tpl as T

# ---------------------------------------------------------------- cfg predicates


def parse_cfg(tokens):
    """cfg token list -> predicate tree: ('feat', name) | ('flag', name) | ('any'|'all', [..]) | ('not', p)"""
    preds = _parse_list(tokens)
    if len(preds) == 1:
        return preds[0]
    return ("all", preds)


def _parse_list(tokens):
    out = []
    i = 0
    n = len(tokens)
    while i < n:
        t = tokens[i]
        k = A.kind(t)
        if k == "Punct" and A.punct_char(t) == ",":
            i += 1
            continue
        if k == "Ident":
            name = t["sym"]
            if i + 1 < n and A.kind(tokens[i + 1]) == "Group":
                inner = _parse_list(tokens[i + 1]["stream"])
                if name == "not":
                    out.append(("not", inner[0] if inner else ("all", [])))
                elif name in ("any", "all"):
                    out.append((name, inner))
                else:
                    out.append(("flag", name + "(..)"))
                i += 2
                continue
            if i + 2 < n and A.kind(tokens[i + 1]) == "Punct" and A.punct_char(tokens[i + 1]) == "=" and A.kind(tokens[i + 2]) == "Literal":
                val = tokens[i + 2]["lit"].get("value")
                out.append(("feat", val) if name == "feature" else ("flag", f"{name}={val}"))
                i += 3
                continue
            out.append(("flag", name))
            i += 1
            continue
        i += 1
    return out


TRUE = ("all", [])


def p_and(*ps):
    flat = []
    for p in ps:
        if p == TRUE:
            continue
        if p[0] == "all":
            flat.extend(p[1])
        else:
            flat.append(p)
    if not flat:
        return TRUE
    if len(flat) == 1:
        return flat[0]
    return ("all", flat)


def p_or(*ps):
    if any(p == TRUE for p in ps):
        return TRUE
    if len(ps) == 1:
        return ps[0]
    return ("any", list(ps))


def p_vars(p, acc=None):
    acc = set() if acc is None else acc
    if p[0] in ("feat", "flag"):
        acc.add(p)
    elif p[0] == "not":
        p_vars(p[1], acc)
    else:
        for q in p[1]:
            p_vars(q, acc)
    return acc


def p_eval(p, env):
    if p[0] in ("feat", "flag"):
        return env.get(p, False)
    if p[0] == "not":
        return not p_eval(p[1], env)
    if p[0] == "any":
        return any(p_eval(q, env) for q in p[1])
    return all(p_eval(q, env) for q in p[1])


def p_str(p):
    if p[0] == "feat":
        return f'feature="{p[1]}"'
    if p[0] == "flag":
        return p[1]
    if p[0] == "not":
        return f"not({p_str(p[1])})"
    if p == TRUE:
        return "true"
    return f"{p[0]}({', '.join(p_str(q) for q in p[1])})"


def implies(a, b, assume=None):
    """Is a => b for every assignment of the variables they mention? Returns (ok, counterexample-env).
    `full` is expanded by the caller; `assume` is a predicate that holds in every real build."""
    vs = sorted(p_vars(a) | p_vars(b) | (p_vars(assume) if assume else set()))
    if len(vs) > 18:
        raise ValueError("too many cfg variables")
    for bits in itertools.product([False, True], repeat=len(vs)):
        env = dict(zip(vs, bits))
        if assume is not None and not p_eval(assume, env):
            continue
        if p_eval(a, env) and not p_eval(b, env):
            return False, {p_str(v): val for v, val in env.items() if val}
    return True, None


# ---------------------------------------------------------------- module tree predicates


def item_cfg(it):
    ps = [parse_cfg(toks) for toks in A.cfg_attrs(it.get("attrs"))]
    return p_and(*ps) if ps else TRUE


def module_predicates(files, crate_root, src_dir):
    """{rel file: predicate} for every file of a crate, following `mod x;` declarations with their cfgs."""
    out = {}

    def visit(rel, pred):
        out[rel] = pred
        f = files.get(rel)
        if f is None:
            return
        base = os.path.dirname(rel)
        stem = os.path.basename(rel)
        moddir = base if stem in ("lib.rs", "mod.rs") else os.path.join(base, stem[:-3])
        for it in f.ast["items"]:
            if A.kind(it) == "Item::Mod" and not it.get("content"):
                name = it["ident"]["sym"]
                if name.startswith("r#"):
                    name = name[2:]
                p = p_and(pred, item_cfg(it))
                for cand in (os.path.join(moddir, name + ".rs"), os.path.join(moddir, name, "mod.rs")):
                    if cand in files:
                        visit(cand, p)
                        break

    visit(crate_root, TRUE)
    return out


def fn_predicate(fn, modpred):
    ps = [modpred]
    for c in fn.cfgs:
        ps.append(_parse_text_cfg(c))
    return p_and(*ps)


def _parse_text_cfg(text):
    # fn.cfgs holds rendered token text; re-parse it with a tiny tokenizer
    toks = re.findall(r'"[^"]*"|[A-Za-z_][A-Za-z0-9_]*|[(),=]', text)

    def parse(i):
        items = []
        while i < len(toks):
            t = toks[i]
            if t == ")":
                return items, i + 1
            if t == ",":
                i += 1
                continue
            if i + 1 < len(toks) and toks[i + 1] == "(":
                inner, j = parse(i + 2)
                if t == "not":
                    items.append(("not", inner[0] if inner else TRUE))
                elif t in ("any", "all"):
                    items.append((t, inner))
                else:
                    items.append(("flag", t + "(..)"))
                i = j
                continue
            if i + 2 < len(toks) and toks[i + 1] == "=":
                v = toks[i + 2].strip('"')
                items.append(("feat", v) if t == "feature" else ("flag", f"{t}={v}"))
                i += 3
                continue
            items.append(("flag", t))
            i += 1
        return items, i

    items, _ = parse(0)
    return items[0] if len(items) == 1 else ("all", items)


# ---------------------------------------------------------------- facade exports with predicates


def facade_exports(ctx):
    """{('top', name) | ('__private', name) | ('with_trait', name): predicate} from src/lib.rs."""
    lib = ctx.files.get("src/lib.rs")
    if lib is None:
        raise A.AnchorLost("src/lib.rs", "missing")
    exp = {}

    def add(key, pred):
        exp[key] = p_or(exp[key], pred) if key in exp else pred

    def leaves(tree):
        if "0" in tree:
            tree = tree["0"]
        k = A.kind(tree)
        if k in ("UsePath",):
            return leaves(tree["tree"])
        if k == "UseName":
            return [tree["ident"]["sym"]]
        if k == "UseRename":
            return [tree["rename"]["sym"]]
        if k == "UseGroup":
            o = []
            for x in tree["items"]:
                o.extend(leaves(x))
            return o
        return []

    def walk_items(items, mods, pred):
        for it in items:
            k = A.kind(it)
            p = p_and(pred, item_cfg(it))
            if k == "Item::Use" and A.kind(it.get("vis")) == "Visibility::Public":
                for nm in leaves(it["tree"]):
                    if not mods:
                        add(("top", nm), p)
                    elif mods == ("__private",):
                        add(("__private", nm), p)
                    elif mods[0] == "with_trait":
                        add(("with_trait", nm), p)
            elif k == "Item::Mod":
                name = it["ident"]["sym"]
                if not mods and A.kind(it.get("vis")) == "Visibility::Public":
                    add(("top", name), p)
                if it.get("content"):
                    walk_items(it["content"][1], mods + (name,), p)
            elif k == "Item::Macro" and mods and mods[0] == "with_trait" and A.path_last(it["mac"]["path"]) == "re_export_traits":
                toks = it["mac"]["tokens"]
                feat = None
                ids = []
                for t in toks:
                    if A.kind(t) == "Literal" and feat is None:
                        feat = t["lit"].get("value")
                    elif A.kind(t) == "Ident":
                        ids.append(t["sym"])
                # ids = [module name, path segments.., traits..]; traits are the capitalised ones
                for nm in ids:
                    if nm[0].isupper():
                        add(("with_trait", nm), p_and(p, ("feat", feat)))

    walk_items(lib.ast["items"], (), TRUE)
    return exp


# ---------------------------------------------------------------- small constant evaluation of identifiers


def string_values(fn, expr, depth=0):
    """set of strings an expression can evaluate to (string literals through if/else, match arms, lets), or None"""
    from .. import types as TY

    if depth > 6 or expr is None:
        return None
    k = A.kind(expr)
    if k == "Expr::Lit" and A.kind(expr["lit"]) == "Lit::Str":
        return {expr["lit"]["token"]["value"]}
    if k in ("Expr::Paren", "Expr::Group", "Expr::Reference"):
        return string_values(fn, expr["expr"], depth)
    if k == "Expr::Block":
        st = expr["block"]["stmts"]
        if st and A.kind(st[-1]) == "Stmt::Expr":
            return string_values(fn, st[-1]["0"], depth)
        return None
    if k == "Expr::If":
        a = _block_value(fn, expr["then_branch"], depth)
        eb = expr.get("else_branch")
        b = string_values(fn, eb[1], depth + 1) if eb else None
        return a | b if a is not None and b is not None else None
    if k == "Expr::Match":
        out = set()
        for arm in expr["arms"]:
            body = arm["body"]
            if A.kind(body) == "Expr::Macro" and A.path_last(body["mac"]["path"]) in ("unimplemented", "unreachable", "panic", "todo"):
                continue
            v = string_values(fn, body, depth + 1)
            if v is None:
                return None
            out |= v
        return out or None
    if k == "Expr::Path":
        nm = A.path_str(expr)
        if nm and "::" not in nm:
            sp = A.span_of(expr)
            b = TY.resolve(fn, nm, sp[0] if sp else 0)
            if b and b.get("init") is not None:
                return string_values(fn, b["init"], depth + 1)
        return None
    if k == "Expr::Macro":
        nm = A.path_last(expr["mac"]["path"])
        toks = expr["mac"]["tokens"]
        if nm == "format_ident" and toks and A.kind(toks[0]) == "Literal":
            pat = toks[0]["lit"].get("value") or ""
            m = re.fullmatch(r"\{(\w+)\}", pat)
            if m:
                sp = toks[0]["span"]
                b = TY.resolve(fn, m.group(1), sp[0])
                if b and b.get("init") is not None:
                    return string_values(fn, b["init"], depth + 1)
                return None
            if "{" not in pat:
                return {pat}
        return None
    return None


def _block_value(fn, block, depth):
    st = block["stmts"]
    if st and A.kind(st[-1]) == "Stmt::Expr":
        return string_values(fn, st[-1]["0"], depth + 1)
    return None


# ---------------------------------------------------------------- rules


def derive_table(ctx):
    """[(feature, module path, Trait, fn name)] from the create_derive! invocations of impl/src/lib.rs"""
    lib = ctx.files.get("impl/src/lib.rs")
    if lib is None:
        raise A.AnchorLost("impl/src/lib.rs", "missing")
    out = []
    for it in lib.ast["items"]:
        if A.kind(it) == "Item::Macro" and A.path_last(it["mac"]["path"]) == "create_derive":
            toks = it["mac"]["tokens"]
            args = [[]]
            for t in toks:
                if A.kind(t) == "Punct" and A.punct_char(t) == "," and t["spacing"] == "Alone":
                    args.append([])
                else:
                    args[-1].append(t)
            args = [a for a in args if a]
            feat = args[0][0]["lit"].get("value")
            mod = "::".join(t["sym"].replace("r#", "") for t in args[1] if A.kind(t) == "Ident")
            out.append((feat, mod, args[2][0]["sym"], args[3][0]["sym"]))
    return out


def _mul_forward_is_struct_only(ctx):
    """Guard of the one listed exception: `mul_like::expand` / `mul_assign_like::expand` hand enums to
    add_like only when `forward` was accepted, and they build their State with `AttrParams::struct_(..)`,
    which allows `forward` on structs only (an enum with `#[mul(forward)]` is rejected: 'Attribute is not
    allowed here'). So add_like's enum-only templates are unreachable when `add` is off."""
    ok = True
    for rel in ("impl/src/mul_like.rs", "impl/src/mul_assign_like.rs"):
        if rel not in ctx.files:
            return False
        fn = A.get_fn(ctx.files, rel, "expand")
        found = False
        for c, _ in A.calls(fn.block, lambda p: p.endswith("State::with_attr_params")):
            args = c["args"]
            if len(args) == 4 and A.kind(args[3]) == "Expr::Call" and (A.path_str(args[3]["func"]) or "").endswith("AttrParams::struct_"):
                found = True
        ok = ok and found
    return ok


# (file, fn, exported name) -> guard: enum-only templates of add_like.rs, reachable only under `add`
EXPORT_EXCEPTIONS = {
    ("impl/src/add_like.rs", "expand", "BinaryError"): _mul_forward_is_struct_only,
    ("impl/src/add_like.rs", "enum_content", "BinaryError"): _mul_forward_is_struct_only,
    ("impl/src/add_like.rs", "enum_content", "UnitError"): _mul_forward_is_struct_only,
    ("impl/src/add_like.rs", "enum_content", "WrongVariantError"): _mul_forward_is_struct_only,
}


def rule_cfg_export(ctx):
    """CFG-EXPORT: every `derive_more::..` path a template can emit is exported by the facade under a predicate implied by the features that compile the emitting code (file gate x item gates); interpolated `with_trait::#Trait` segments are resolved by constant evaluation of the generator's string tables."""
    from .. import types as TY

    exp = facade_exports(ctx)
    mp = module_predicates(ctx.files, "impl/src/lib.rs", "impl/src")
    table = derive_table(ctx)
    n = 0
    unknown = 0
    for fn in A.all_functions(ctx.files):
        rel = fn.file.rel
        if not rel.startswith("impl/src") or rel not in mp:
            continue
        pred = fn_predicate(fn, mp[rel])
        for t in T.templates_of(fn):
            for seq, i, x, parents in T.ir_walk(t.ir):
                if not (x["t"] == "id" and x["s"] == "derive_more"):
                    continue
                segs = []
                j = i + 1
                while j + 2 < len(seq) and seq[j]["t"] == "p" and seq[j]["c"] == ":" and seq[j + 1]["t"] == "p" and seq[j + 1]["c"] == ":" and seq[j + 2]["t"] in ("id", "var"):
                    segs.append(seq[j + 2])
                    j += 3
                if not segs or segs[0]["t"] != "id":
                    continue
                first = segs[0]["s"]
                names = None
                if first in ("core",):
                    key_kind = None
                elif first in ("__private", "with_trait"):
                    key_kind = first
                    if len(segs) < 2:
                        continue
                    if segs[1]["t"] == "id":
                        names = {segs[1]["s"]}
                    else:
                        b = TY.resolve(fn, segs[1]["s"], segs[1]["span"][0])
                        names = string_values(fn, b["init"]) if b and b.get("init") is not None else None
                        if names is None and b is not None and rel.startswith("impl/src/fmt/") and b.get("init") is not None:
                            # an identifier built from a *parameter* of a helper in the fmt derives (`format_ident!("{trait_name}")`
                            # with `trait_name` handed in per placeholder): any of the nine formatting traits
                            mi = re.search(r'format_ident!\("\{(\w+)\}"', A.render(b["init"])) or re.search(r'format_ident!\("\{\}",(\w+)[,)]', A.render(b["init"]))
                            if mi and fn.name != "expand":
                                pb = TY.resolve(fn, mi.group(1), segs[1]["span"][0])
                                if pb is not None and pb["kind"] in ("param", "closure"):
                                    names = {"Binary", "Debug", "Display", "LowerExp", "LowerHex", "Octal", "Pointer", "UpperExp", "UpperHex"}
                        if names is None and b is not None:
                            # `trait_ident` built from the derive's own trait name: the derives registered for this file
                            modname = rel[len("impl/src/") : -3].replace("/mod", "").replace("/", "::")
                            regs = {tr for feat, mod, tr, _ in table if mod == modname or mod.startswith(modname + "::")}
                            if rel == "impl/src/utils.rs":
                                regs = None
                            names = regs or None
                else:
                    key_kind = "top"
                    names = {first}
                n += 1
                construct = f"{rel}::{fn.qual}:derive_more::{first}" + (f"::{'|'.join(sorted(names))}" if names and key_kind != 'top' else "")
                if key_kind is None:
                    ctx.instance(construct, nontrivial=False)
                    continue
                if names is None:
                    unknown += 1
                    ctx.instance(construct + "::?", nontrivial=False)
                    continue
                ctx.instance(construct)
                for nm in sorted(names):
                    key = (key_kind, nm)
                    where = f"{rel}:{t.file.line(x['span'][0])}"
                    if key not in exp:
                        if key_kind == "with_trait" and nm in ("Constructor", "IsVariant", "Unwrap", "TryUnwrap"):
                            continue  # derives without a trait of their own never emit with_trait paths
                        ctx.obligation(False)
                        ctx.report(f"{rel}::{fn.qual}:derive_more::{'::'.join(k for k in (key_kind if key_kind != 'top' else None, nm) if k)}:unexported", where, f"`{fn.qual}` emits `derive_more::{key_kind + '::' if key_kind != 'top' else ''}{nm}` which src/lib.rs does not export", {})
                        continue
                    ok, cex = implies(pred, exp[key])
                    if not ok and (rel, fn.qual, nm) in EXPORT_EXCEPTIONS and cex == {'feature="mul"': True}:
                        if EXPORT_EXCEPTIONS[(rel, fn.qual, nm)](ctx):
                            ctx.obligation(True)
                            ctx.note(f"exception: {rel}::{fn.qual} emits {nm} only for enums; unreachable under `mul` alone (forward is struct-only; guard re-checked)")
                            continue
                    ctx.obligation(ok)
                    if not ok:
                        ctx.report(
                            f"{rel}::{fn.qual}:derive_more::{key_kind + '::' if key_kind != 'top' else ''}{nm}:cfg",
                            where,
                            f"`{fn.qual}` (compiled under {p_str(pred)}) emits `derive_more::{key_kind + '::' if key_kind != 'top' else ''}{nm}`, exported only under "
                            f"{p_str(exp[key])}: with features {sorted(cex)} the derive expands to a path that does not exist",
                            {"counterexample": cex},
                        )
    ctx.note(f"{n} derive_more:: paths, {unknown} with an interpolated segment that could not be resolved (not decided)")
    ctx.floor("derive_more:: paths with predicates", n, 110)


def _toml_features(path):
    """minimal [features] table reader: {name: [entries]}"""
    feats = {}
    cur = None
    insec = False
    buf = ""
    for line in open(path):
        s = line.split("#", 1)[0].rstrip()
        if s.startswith("["):
            insec = s.strip() == "[features]"
            continue
        if not insec or not s.strip():
            continue
        buf += " " + s
        if buf.count("[") == buf.count("]") and "=" in buf:
            name, val = buf.split("=", 1)
            feats[name.strip()] = re.findall(r'"([^"]+)"', val)
            buf = ""
    return feats


def rule_cfg_manifest(ctx):
    """CFG-MANIFEST: both manifests list the same derive features, `full` enables exactly all of them, each facade feature forwards to the impl feature of the same name, every create_derive! feature exists, and code naming an optional dependency lies under features that enable it."""
    root = ctx.repo
    top = _toml_features(os.path.join(root, "Cargo.toml"))
    imp = _toml_features(os.path.join(root, "impl", "Cargo.toml"))
    special = {"default", "std", "full", "testing-helpers"}
    tf = set(top) - special
    inf = set(imp) - special
    ctx.instance("feature-sets", sample={"facade": sorted(tf), "impl": sorted(inf)})
    if tf != inf:
        ctx.report("feature-sets-differ", "Cargo.toml", f"facade and impl feature sets differ: {sorted(tf ^ inf)}", {})
    for crate, feats, fs in (("Cargo.toml", top, tf), ("impl/Cargo.toml", imp, inf)):
        ctx.instance(f"{crate}:full")
        if set(feats.get("full", [])) != fs:
            ctx.report(f"{crate}:full", crate, f"`full` of {crate} does not enable exactly the derive features: {sorted(set(feats.get('full', [])) ^ fs)}", {})
    for f in sorted(tf):
        ctx.instance(f"forward:{f}")
        if f"derive_more-impl/{f}" not in top[f]:
            ctx.report(f"forward:{f}", "Cargo.toml", f"facade feature `{f}` does not forward to `derive_more-impl/{f}`", {})
    table = derive_table(ctx)
    for feat, mod, tr, fnname in table:
        ctx.instance(f"derive:{tr}")
        if feat not in inf:
            ctx.report(f"derive-feature:{tr}", "impl/src/lib.rs", f"derive {tr} is gated by unknown feature `{feat}`", {})
    ctx.floor("create_derive! rows", len(table), 50)
    # optional dependencies
    deps = {"convert_case": "dep:convert_case", "unicode_xid": "dep:unicode-xid"}
    mp = module_predicates(ctx.files, "impl/src/lib.rs", "impl/src")
    for rel, f in sorted(ctx.files.items()):
        if not rel.startswith("impl/src") or rel not in mp:
            continue
        for it, mods, cfgs in A.iter_items(f.ast["items"]):
            if A.kind(it) != "Item::Use":
                continue
            root_seg = None
            tr = it["tree"]
            if "0" in tr:
                tr = tr["0"]
            if A.kind(tr) == "UsePath":
                root_seg = tr["ident"]["sym"]
            if root_seg in deps:
                pred = p_and(mp[rel], *[_parse_text_cfg(c) for c in cfgs])
                enabling = [("feat", ft) for ft, ents in imp.items() if deps[root_seg] in ents]
                ok, cex = implies(pred, ("any", enabling))
                ctx.instance(f"optdep:{rel}:{root_seg}")
                ctx.obligation(ok)
                if not ok:
                    ctx.report(f"optdep:{rel}:{root_seg}", ctx.where(f, it), f"`{rel}` uses optional dependency `{root_seg}` under {p_str(pred)} but only {[e[1] for e in enabling]} enable it (fails with {sorted(cex)})", {})
    # syn/visit and syn/extra-traits users are left to the per-configuration type-check


def _run_check(repo, target, pkg, feats, tests=False):
    cmd = ["cargo", "check", "--offline", "-q", "-p", pkg, "--no-default-features", "--features", ",".join(feats)]
    if tests:
        cmd.append("--tests")
    env = dict(os.environ)
    env["CARGO_TARGET_DIR"] = target
    env["CARGO_NET_OFFLINE"] = "true"
    r = subprocess.run(cmd, cwd=repo, env=env, capture_output=True, text=True)
    return r.returncode, r.stderr


def rule_cfg_matrix(ctx):
    """CFG-MATRIX: rustc type-checks both crates for every single derive feature with and without `std` (quick), plus every feature pair and each derive's own test program (`--tests`) in thorough tier. Nothing is executed."""
    root = ctx.repo
    if os.environ.get("DM_SWEEP_SKIP_MATRIX") == "1":
        # only used by bin/seedsweep when testing seeds of other properties; never by a registered command
        ctx.note("matrix skipped (DM_SWEEP_SKIP_MATRIX)")
        ctx.instance("skipped", nontrivial=False)
        return
    top = _toml_features(os.path.join(root, "Cargo.toml"))
    feats = sorted(set(top) - {"default", "std", "full", "testing-helpers"})
    configs = []
    for f in feats:
        configs.append(((f,), False))
        configs.append(((f, "std"), False))
    if ctx.tier == "thorough":
        for a, b in itertools.combinations(feats, 2):
            configs.append(((a, b), False))
            configs.append(((a, b, "std"), False))
        for f in feats:
            configs.append(((f, "std"), True))
    shards = 6
    tmp = tempfile.mkdtemp(prefix="dmcfg-")
    results = []
    t0 = time.time()
    try:
        def work(k):
            res = []
            target = os.path.join(tmp, f"t{k}")
            for fs, tests in configs[k::shards]:
                rc, err = _run_check(root, target, "derive_more", list(fs), tests)
                res.append((fs, tests, rc, err))
            return res

        with ThreadPoolExecutor(max_workers=shards) as ex:
            for res in ex.map(work, range(shards)):
                results.extend(res)
    finally:
        shutil.rmtree(tmp, ignore_errors=True)
    warn_total = 0
    for fs, tests, rc, err in results:
        name = ",".join(fs) + (" --tests" if tests else "")
        warns = len(re.findall(r"^warning", err, re.M))
        warn_total += warns
        ctx.instance(f"config:{name}", sample={"features": name, "rc": rc, "warnings": warns})
        if rc != 0:
            first = next((l for l in err.splitlines() if l.startswith("error")), err[:200])
            ctx.report(
                f"config:{name}",
                "Cargo.toml",
                f"`cargo check -p derive_more --no-default-features --features {name}` fails: {first}",
                {"stderr": err[-3000:]},
            )
    ctx.note(f"{len(results)} configurations type-checked in {time.time() - t0:.0f}s, {warn_total} warnings in total")
    ctx.floor("configurations", len(results), 48)


# ---------------------------------------------------------------- CFG-DEFUSE / SYN-FEAT (static, no cargo run)


def _items_with_pred(f, modpred):
    """[(item, predicate, (lo_line, hi_line), enclosing inline mods)] for every item of a file (inline modules followed)"""
    out = []
    for it, mods, cfgs in A.iter_items(f.ast["items"]):
        sp = A.span_of(it)
        if sp is None:
            continue
        pred = p_and(modpred, *[_parse_text_cfg(c) for c in cfgs])
        out.append((it, pred, (f.line(sp[0]), f.line(sp[1])), mods))
        if A.kind(it) == "Item::Impl":
            for ii in it["items"]:
                ips = [parse_cfg(t) for t in A.cfg_attrs(ii.get("attrs"))]
                sp2 = A.span_of(ii)
                if ips and sp2:
                    out.append((ii, p_and(pred, *ips), (f.line(sp2[0]), f.line(sp2[1])), mods))
    return out


def _pred_at(items, line):
    best = None
    for it, pred, (lo, hi), mods in items:
        if lo <= line <= hi and (best is None or (hi - lo) <= (best[2][1] - best[2][0])):
            best = (it, pred, (lo, hi), mods)
    return best


def _use_leaf_names(tree, prefix=()):
    """[(path segments, leaf name)] of a use tree"""
    k = A.kind(tree)
    if k is None and isinstance(tree, dict) and "0" in tree:
        return _use_leaf_names(tree["0"], prefix)
    if k == "UseTree::Path" or k == "UsePath":
        t = tree["0"] if "0" in tree and A.kind(tree) == "UseTree::Path" else tree
        return _use_leaf_names(t["tree"], prefix + (t["ident"]["sym"],))
    if k == "UseTree::Name" or k == "UseName":
        t = tree["0"] if "0" in tree and A.kind(tree) == "UseTree::Name" else tree
        return [(prefix, t["ident"]["sym"])]
    if k == "UseTree::Rename" or k == "UseRename":
        t = tree["0"] if "0" in tree and A.kind(tree) == "UseTree::Rename" else tree
        return [(prefix, t["rename"]["sym"])]
    if k == "UseTree::Group" or k == "UseGroup":
        t = tree["0"] if "0" in tree and A.kind(tree) == "UseTree::Group" else tree
        out = []
        for x in t["items"]:
            out += _use_leaf_names(x, prefix)
        return out
    return []


EXTERNAL_ROOTS = {"syn", "quote", "proc_macro2", "std", "core", "alloc", "convert_case", "unicode_xid", "proc_macro"}


def rule_cfg_defuse(ctx):
    """CFG-DEFUSE: every item of the proc-macro crate that exists only under a `#[cfg(..)]` (helper modules, re-exports, functions, types of impl/src/utils.rs and its sub-modules) is available wherever it is named: the predicate of each using item (file gate x enclosing item gates) implies the disjunction of the predicates under which a definition / re-export of that name exists. Decided by exhaustive truth tables over the feature variables; nothing is compiled. A gate that loses a feature (`any(.., feature = "try_from")` dropped from `mod either`) breaks exactly the configurations enabling only that feature, which the `full` test build never sees."""
    mp = module_predicates(ctx.files, "impl/src/lib.rs", "impl/src")
    defs = {}  # name -> [pred]
    primary = {}  # name -> [pred] of the definitions proper (not re-exports)
    ungated = set()
    external = set()
    per_file_items = {}
    for rel, f in sorted(ctx.files.items()):
        if not rel.startswith("impl/src/") or rel not in mp:
            continue
        items = _items_with_pred(f, mp[rel])
        per_file_items[rel] = items
        for it, pred, lines, mods in items:
            k = A.kind(it)
            names = []
            if k in ("Item::Fn", "ImplItem::Fn"):
                names = [it["sig"]["ident"]["sym"]] if k == "Item::Fn" else []
            elif k in ("Item::Struct", "Item::Enum", "Item::Type", "Item::Trait", "Item::Const", "Item::Static", "Item::Mod", "Item::Union"):
                names = [it["ident"]["sym"]]
            elif k == "Item::Use":
                vis = it.get("vis")
                exported = vis is not None and A.kind(vis) not in (None, "Visibility::Inherited") and vis != "Visibility::Inherited"
                for pre, leaf in _use_leaf_names(it["tree"]):
                    if pre and pre[0] in EXTERNAL_ROOTS:
                        external.add(leaf)
                    elif leaf not in ("self", "_") and exported:
                        # only a `pub(..) use` makes a name available to others; a private `use` is itself a use
                        names.append(leaf)
            own = item_cfg(it) if k != "ImplItem::Fn" else TRUE
            for n in names:
                if not rel.endswith("utils.rs"):
                    # definitions outside utils.rs only matter to know that a name is not exclusively utils'
                    if k != "Item::Use":
                        ungated.add(n) if own == TRUE else None
                    continue
                if own == TRUE and all(True for _ in ()) and pred == mp[rel] and not mods:
                    ungated.add(n)
                else:
                    defs.setdefault(n, []).append(pred)
                    if k != "Item::Use":
                        primary.setdefault(n, []).append(pred)
    # a name that is also reached through an external crate somewhere (`syn::Meta`) is ambiguous: left out
    for rel, f in ctx.files.items():
        if rel not in per_file_items:
            continue
        for x, _ in A.find(f.ast, "Path"):
            segs = [s_["ident"]["sym"] for s_ in x["segments"]]
            if len(segs) > 1 and segs[0] in EXTERNAL_ROOTS:
                external.update(segs[1:])
    names = {n for n in defs if n not in ungated and n not in external and len(n) > 2}
    ctx.note(f"{len(names)} cfg-gated names defined in impl/src/utils.rs: {sorted(names)[:40]}")
    n_uses = 0
    for rel, f in sorted(ctx.files.items()):
        if rel not in per_file_items:
            continue
        items = per_file_items[rel]
        for x, ps in A.walk(f.ast):
            k = A.kind(x)
            seg_names = []
            if k == "Path":
                segs = [s["ident"]["sym"] for s in x["segments"]]
                # a lower-case name is a module only when something follows it; alone it is a local variable
                seg_names = [s for i, s in enumerate(segs) if s[0].isupper() or i + 1 < len(segs)]
            elif k in ("UseName", "UseRename") or k in ("UseTree::Name",):
                t = x["0"] if "0" in x and A.kind(x) == "UseTree::Name" else x
                if "ident" in t:
                    seg_names = [t["ident"]["sym"]]
            elif k in ("UsePath", "UseTree::Path"):
                # `use self::spanning::Spanning`: the module named on the way must exist as well
                t = x["0"] if "0" in x and A.kind(x) == "UseTree::Path" else x
                if "ident" in t:
                    seg_names = [t["ident"]["sym"]]
            else:
                continue
            hit = [s for s in seg_names if s in names]
            if not hit:
                continue
            sp = A.span_of(x)
            if sp is None:
                continue
            line = f.line(sp[0])
            at = _pred_at(items, line)
            if at is None:
                continue
            it, pred, lines, mods = at
            for nm in hit:
                # the defining item itself
                if A.kind(it) in ("Item::Mod",) and it["ident"]["sym"] == nm:
                    continue
                reexport = A.kind(it) == "Item::Use" and rel.endswith("utils.rs") and any(leaf == nm for _, leaf in _use_leaf_names(it["tree"])) and not mods
                if reexport and not primary.get(nm):
                    continue
                if A.kind(it) in ("Item::Struct", "Item::Enum", "Item::Type", "Item::Trait", "Item::Fn") and it.get("ident", it.get("sig", {}).get("ident", {})).get("sym") == nm:
                    continue
                n_uses += 1
                # a re-export needs the definition proper; everything else may go through any definition or re-export
                want = ("any", primary[nm] if reexport else defs[nm])
                ok, cex = implies(pred, want)
                ctx.obligation(ok)
                if not ok:
                    ctx.report(
                        f"defuse:{rel}:{nm}:{p_str(pred)[:60]}",
                        f"{rel}:{line}",
                        f"`{nm}` is named under {p_str(pred)} but is defined / re-exported only under {p_str(want)}: with features {sorted(k_ for k_, v in cex.items() if v) or '(none)'} the proc-macro crate does not build "
                        "(the `full` test build cannot see it)",
                        {"counterexample": {k_: v for k_, v in cex.items()}},
                    )
    ctx.cur.instances += n_uses
    ctx.note(f"{n_uses} uses of gated names checked")
    ctx.floor("gated names", len(names), 10)
    ctx.floor("uses of gated names", n_uses, 150)


def _feature_closure(feats):
    out = {}
    for f in feats:
        seen = set()
        todo = [f]
        while todo:
            x = todo.pop()
            for e in feats.get(x, []):
                if e not in seen:
                    seen.add(e)
                    if e in feats:
                        todo.append(e)
        out[f] = seen
    return out


SYN_EXTRA = re.compile(r"impl (?:std|core)::(?:cmp::(?:PartialEq|Eq)|hash::Hash|fmt::Debug) for (?:syn|proc_macro2)::|<(?:&)*syn::[\w:]+(?:<[^>]*>)? as std::(?:cmp::(?:PartialEq|Eq)|hash::Hash|fmt::Debug)>")


def rule_syn_features(ctx):
    """SYN-FEAT: code that needs an optional capability of a dependency is compiled only under features that turn the capability on: a call that rustc resolved to `PartialEq` / `Eq` / `Hash` / `Debug` of a `syn` syntax-tree type needs `syn/extra-traits`, a call into `syn::visit` needs `syn/visit`, a call into `convert_case` / `unicode_xid` needs the optional dependency. The predicate of the calling item (file gate x item gates, from the syntax tree) must imply the disjunction of the impl-crate features whose (transitive) entries enable it. Resolved callees come from the type-checked `full` build; the implication is decided by truth tables - no per-feature build is needed to see that `variant.fields != Fields::Unit` inside `from_str.rs` breaks `--features from_str`."""
    imp = _toml_features(os.path.join(ctx.repo, "impl", "Cargo.toml"))
    clo = _feature_closure(imp)
    needs = {
        "syn/extra-traits": lambda c: SYN_EXTRA.search((c.get("resolved") or "") + " " + (c.get("full") or "")) is not None,
        "syn/visit": lambda c: (c.get("resolved") or c.get("callee") or "").startswith("syn::visit::") or "syn::visit::Visit" in (c.get("full") or ""),
        "dep:convert_case": lambda c: "convert_case::" in ((c.get("resolved") or "") + (c.get("full") or "")),
        "dep:unicode-xid": lambda c: "unicode_xid::" in ((c.get("resolved") or "") + (c.get("full") or "")),
    }
    enabling = {cap: [("feat", f) for f in sorted(imp) if cap in clo[f] and f not in ("full", "default")] for cap in needs}
    for cap, en in enabling.items():
        if not en:
            raise A.AnchorLost("impl/Cargo.toml::[features]", f"no feature enables `{cap}`")
    mp = module_predicates(ctx.files, "impl/src/lib.rs", "impl/src")
    items_cache = {}
    n = 0
    per_cap = {c: 0 for c in needs}
    for b in ctx.mir.bodies:
        for c in b.get("calls", []):
            rel = c.get("rel") or b.get("rel")
            if not rel or rel not in mp or rel not in ctx.files:
                continue
            for cap, test in needs.items():
                if not test(c):
                    continue
                if rel not in items_cache:
                    items_cache[rel] = _items_with_pred(ctx.files[rel], mp[rel])
                at = _pred_at(items_cache[rel], c["line"])
                if at is None:
                    continue
                pred = at[1]
                n += 1
                per_cap[cap] += 1
                want = ("any", enabling[cap])
                ok, cex = implies(pred, want)
                ctx.obligation(ok)
                if not ok:
                    ctx.report(
                        f"synfeat:{rel}:{b['path']}:{cap}",
                        f"{rel}:{c['line']}",
                        f"`{b['path']}` (compiled under {p_str(pred)}) calls `{(c.get('full') or c.get('resolved'))[:100]}`, which exists only with `{cap}`; only {[e[1] for e in enabling[cap]]} enable it: "
                        f"with features {sorted(k for k, v in cex.items() if v) or '(none)'} the proc-macro crate does not build",
                        {},
                    )
    ctx.cur.instances += n
    ctx.note(f"capability-dependent calls: {per_cap}")
    ctx.floor("capability-dependent calls", n, 15)
