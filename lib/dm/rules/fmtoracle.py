"""G-ORACLE (thorough tier of C03): the *reference reading* of std::fmt's grammar used by G-EQUIV is itself
validated against rustc: a sample of literals is type-checked as `format_args!(..)` calls by the installed
compiler and rustc's accept/reject verdict on the *syntax* of each literal is compared with the reference
reader's. No derive_more code is involved at all; this guards the oracle of the equivalence check.
"""
import json
import os
import random
import shutil
import subprocess
import tempfile

from . import fmtparse as FP

SYNTAX_ERRORS = ("invalid format string", "unknown format trait")

# classes where rustc and its own documented grammar are known to differ (reasoned, listed)
def known_class(lit, ref, rustc_accepts):
    import re

    if ref is None and rustc_accepts:
        # dropping bare `.`s (a `.` not followed by a precision) makes the literal acceptable to the reference
        cand = re.sub(r"\.(?![0-9*]|[^\W\d]\w*\$)", "", lit)
        if cand != lit and FP.ref_parse(cand) is not None:
            return "rustc accepts `.` without a precision (not in the documented grammar `'.' precision`)"
    if ref is None and rustc_accepts:
        # whitespace between the argument and `:` / `}` (`{0 :x}`): rustc skips it, the documented grammar
        # `'{' [argument] [':' format_spec] [ws]* '}'` has whitespace only before the closing brace
        cand = re.sub(r"(\{[^{}:\s]+)\s+(?=:)", r"\1", lit)
        if cand != lit and FP.ref_parse(cand) is not None:
            return "rustc accepts whitespace between the argument and `:` (not in the documented grammar)"
    if ref is not None and not rustc_accepts and re.search(r"\d{5,}", lit):
        return "rustc limits positions / widths / precisions to u16 (the documented grammar says usize)"
    if ref is None and not rustc_accepts:
        return None
    return None


def needed_args(ref):
    """positional argument count and names a literal needs according to the reference reading"""
    pos = 0
    names = set()
    nums = FP.ref_numbering(ref)
    for ph, a in zip(ref, nums):
        items = [a]
        for c in (ph["width"], ph["precision"]):
            if c and c[0] == "param":
                items.append(c[1])
        for it in items:
            if it[0] == "int":
                pos = max(pos, it[1] + 1)
            else:
                names.add(it[1])
        if ph["precision"] == ("star",):
            pos = max(pos, a[1] + 1 if a[0] == "int" else pos)
    # `.*` consumes one more positional before the value
    stars = sum(1 for ph in ref if ph["precision"] == ("star",))
    pos = max(pos, stars + sum(1 for ph in ref if ph["arg"] is None))
    return pos, names


def rust_str(s):
    out = []
    for ch in s:
        if ch == "\\":
            out.append("\\\\")
        elif ch == '"':
            out.append('\\"')
        elif ch == "\n":
            out.append("\\n")
        elif ch == "\t":
            out.append("\\t")
        elif ord(ch) < 0x20:
            out.append("\\u{%x}" % ord(ch))
        else:
            out.append(ch)
    return '"' + "".join(out) + '"'


def rule_reference_oracle(ctx):
    """G-ORACLE: the reference reading of std::fmt's grammar (the oracle of G-EQUIV) agrees with rustc's own verdict on the syntax of a sample of literals compiled as `format_args!` calls; the two known, listed differences between rustc and its documented grammar are excepted by class."""
    rnd = random.Random((ctx.seed or 1) * 31 + 7)
    pool = []
    seen = set()
    for s in FP.gen_strings(ctx.seed, "quick"):
        if s in seen or len(s) > 60 or "\n" in s:
            continue
        r0 = FP.ref_parse(s)
        if r0 is not None and needed_args(r0)[0] > 40:
            # an explicit index like `{18446744073709551616}` would need that many arguments: not compiled
            continue
        seen.add(s)
        pool.append(s)
    rnd.shuffle(pool)
    sample = pool[: 900 if ctx.tier == "thorough" else 300]
    # probes of the listed asymmetry classes (always part of the sample, so the classes stay documented by a run)
    sample += [x for x in ("{0 :x}", "{0 }", "{:.}", "{0:.}") if x not in sample]
    lines = ["#![allow(unused, non_ascii_idents, uncommon_codepoints, confusable_idents, mixed_script_confusables)]", "pub fn f() {"]
    index = {}
    for lit in sample:
        ref = FP.ref_parse(lit)
        if ref is not None:
            pos, names = needed_args(ref)
            names = {n for n in names if n.isidentifier() and n not in ("type", "_")}
            decl = "".join(f"let {n} = 1usize; " for n in sorted(names))
            args = "".join(", 1usize" for _ in range(pos))
            stmt = "{ " + decl + "let _ = format_args!(" + rust_str(lit) + args + "); }"
        else:
            stmt = "{ let _ = format_args!(" + rust_str(lit) + "); }"
        lines.append(stmt)
        index[len(lines)] = lit
    lines.append("}")
    tmp = tempfile.mkdtemp(prefix="dmoracle-")
    try:
        src = os.path.join(tmp, "t.rs")
        with open(src, "w") as f:
            f.write("\n".join(lines) + "\n")
        r = subprocess.run(["rustc", "--edition", "2021", "--crate-type", "lib", "--error-format=json", src, "-o", os.path.join(tmp, "t.rlib")], capture_output=True, text=True)
        rejected = {}
        for l in r.stderr.splitlines():
            try:
                d = json.loads(l)
            except ValueError:
                continue
            if d.get("level") != "error" or not d.get("spans"):
                continue
            ln = d["spans"][0]["line_start"]
            if any(d["message"].startswith(p) for p in SYNTAX_ERRORS):
                rejected.setdefault(ln, d["message"])
    finally:
        shutil.rmtree(tmp, ignore_errors=True)
    if not rejected and r.returncode == 0:
        raise RuntimeError("rustc reported no diagnostics at all: oracle run is not meaningful")
    disagreements = {}
    n_acc = 0
    for ln, lit in index.items():
        ref = FP.ref_parse(lit)
        rustc_accepts = ln not in rejected
        n_acc += rustc_accepts
        ctx.cur.instances += 1
        if (ref is not None) == rustc_accepts:
            continue
        cls = known_class(lit, ref, rustc_accepts)
        if cls:
            disagreements.setdefault("listed: " + cls, []).append(lit)
            continue
        disagreements.setdefault("reference accepts, rustc rejects" if ref is not None else "reference rejects, rustc accepts", []).append(lit)
    ctx.cur.nontrivial.update(sample[:2000])
    ctx.cur.samples.extend(sample[:3])
    ctx.note(f"{len(sample)} literals compiled by rustc: {n_acc} syntactically accepted; classes of disagreement: { {k: len(v) for k, v in disagreements.items()} }")
    ctx.extra["oracle"] = {"literals": len(sample), "rustc_accepted": n_acc, "disagreements": {k: v[:8] for k, v in disagreements.items()}}
    for cls, ex in disagreements.items():
        if cls.startswith("listed: "):
            continue
        ctx.report(
            f"oracle:{cls}",
            "lib/dm/rules/fmtparse.py (reference reader)",
            f"the reference reading of std::fmt's grammar disagrees with rustc ({cls}) on {len(ex)} sampled literals, e.g. {ex[0]!r} ({rejected.get(next(k for k, v in index.items() if v == ex[0]), 'accepted')}): "
            "G-EQUIV's oracle is wrong there - correct the reference before trusting the equivalence",
            {"examples": ex[:10]},
        )
