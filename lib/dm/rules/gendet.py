"""GEN-DETECT (C01 / C14 / C09): the crate has three independent answers to "does this field type mention one of the
item's generic parameters?" -- fmt's `contains_generics` (rule_traversal in fmtdec.py), `utils::generics_search`
(AsRef / AsMut: direct vs forwarded vs specialised impl) and `utils::is_type_parameter_used_in_type` (Error: the
`<source type>: Error + 'static` bound). A "no" for a type that does mention a parameter drops a where-predicate the
generated impl needs (C01: the expansion does not compile); a "yes" for a type that does not selects the forwarded
instead of the identity AsRef impl (C14). The positions in which a parameter can be named inside a `syn::Type` are a
closed set (read from the syn sources the crate builds against); each detector must examine every one of them.
"""
import re

from .. import ast as A
from . import fmtdec

UTILS = "impl/src/utils.rs"
ASMOD = "impl/src/as/mod.rs"


def _fns(ctx, rel):
    f = ctx.files.get(rel)
    if f is None:
        raise A.AnchorLost(rel, "file missing")
    return f, {fn.qual: fn for fn in A.functions(f)}


def _method(fns, impl_sub, name):
    c = [fn for q, fn in fns.items() if q.endswith("::" + name) and impl_sub in q]
    return c[0] if len(c) == 1 else None


def rule_generics_search(ctx):
    """GEN-DETECT/visitor: `generics_search::Visitor` (AsRef/AsMut) examines every position of a generic parameter in a type: the whole-path identifier (`T`, and `N` since `Foo<N>` parses as a type), the *first* segment of a longer path (`T::Assoc`) and no later segment, lifetimes, const parameters in expression position (`[u8; N]`) and inside a braced const argument (`Foo<{ N }>`, which syn without its `full` feature leaves as `Expr::Verbatim`); each set (`types`, `lifetimes`, `consts`) is consulted for its own kind and filled from the matching accessor of the item's generics; every overridden `visit_*` continues with syn's default traversal; `found` only accumulates."""
    f, fns = _fns(ctx, UTILS)
    vis = {q.split("::")[-1]: fn for q, fn in fns.items() if "generics_search::<Visitor as Visit>::" in q}
    if not vis:
        raise A.AnchorLost(f"{UTILS}::generics_search::<Visitor as Visit>", "no visit_* overrides found")
    any_in = fns.get("generics_search::GenericsSearch::any_in")
    if any_in is None:
        raise A.AnchorLost(f"{UTILS}::generics_search::GenericsSearch::any_in", "missing")
    w0 = ctx.where(f, any_in.node)

    def need(key, cond, where, msg, detail=None):
        ctx.instance("gs:" + key)
        if not cond:
            ctx.report("gs:" + key, where, msg, detail or {})

    t = A.fn_text(any_in)
    need("any_in", A.wsearch(t, "let mut visitor=Visitor{search:self,found:false};visitor.visit_type(ty);visitor.found") is not None, w0, "`GenericsSearch::any_in` no longer starts a fresh visitor (`found: false`) on the given type and returns what it found", {"body": t})

    # every override continues the default traversal with its own argument, unconditionally, and `found` only accumulates
    for name, fn in sorted(vis.items()):
        txt = A.fn_text(fn)
        stmts = [A.render_stmt(s) for s in fn.block["stmts"]]
        params = [A.render_pat(p["0"]["pat"]) for p in fn.node["sig"]["inputs"] if A.kind(p) == "FnArg::Typed"]
        arg = params[0] if params else "?"
        need(f"recurse:{name}", any(s.rstrip(";") == f"syn::visit::{name}(self,{arg})" for s in stmts), ctx.where(f, fn.node), f"`Visitor::{name}` no longer continues with `syn::visit::{name}(self, {arg})` as an unconditional statement: everything nested below such a node (generic arguments, element types, qualified self types) is no longer searched", {"body": txt})
        bad = re.findall(r"self\.found=(?!=)", txt)
        need(f"monotone:{name}", not bad, ctx.where(f, fn.node), f"`Visitor::{name}` overwrites `self.found` instead of accumulating with `|=`: an earlier hit is forgotten", {"body": txt})

    def sets_used(txt, var=None):
        return set(re.findall(r"self\.search\.(\w+)\.contains\(", txt))

    # --- type paths
    tp = vis.get("visit_type_path")
    if tp is None:
        raise A.AnchorLost(f"{UTILS}::generics_search::<Visitor as Visit>::visit_type_path", "missing")
    t = A.fn_text(tp)
    w = ctx.where(f, tp.node)
    m = A.wsearch(t, "tp.path.get_ident().is_some_and(|ident|")
    whole = None
    if m:
        # the closure body up to the matching `)`
        i = m.end()
        depth = 1
        j = i
        while j < len(t) and depth:
            depth += t[j] == "("
            depth -= t[j] == ")"
            j += 1
        whole = t[i : j - 1]
    need("pos:type-ident", whole is not None and {"types", "consts"} <= sets_used(whole), w, "`visit_type_path` no longer tests the whole-path identifier against both the type parameters and the const parameters (`Foo<N>` parses `N` as a type path)", {"body": t})
    first = re.search(r"\.path\.segments\.first\(\)\.is_some_and\(\|(\w+)\|(.*?self\.search\.types\.contains\(&\1\.ident\))", t) or re.search(r"\.path\.segments\[0\]\.ident", t)
    need(
        "pos:assoc-first-segment",
        first is not None,
        w,
        "`visit_type_path` looks only at `tp.path.get_ident()`: a field type `T::Assoc` (or `Vec<T::Assoc>`), whose *first* path segment is a type parameter, is not recognised as generic, so `#[as_ref(Ty)]` / `#[as_mut(Ty)]` "
        "on such a field selects the autoref-specialised impl without the `FieldTy: AsRef<Ty>` where-predicate and the expansion does not compile (fmt's `contains_generics` handles this `TypeParam::AssocType` case)",
        {"body": t},
    )
    anyseg = re.search(r"\.segments\.iter\(\)", t) or any(k in vis for k in ("visit_ident", "visit_path_segment"))
    need(
        "pos:no-later-segment",
        not anyseg,
        w,
        "`visit_type_path` compares *every* path segment (or every identifier) with the parameter names: a path like `model::Item` is taken for the type parameter `Item`, so an `#[as_ref(Alias)]` of the field's own type is answered by the forwarded instead of the identity impl",
        {"body": t},
    )
    # --- lifetimes
    lf = vis.get("visit_lifetime")
    lt = A.fn_text(lf) if lf else ""
    need("pos:lifetime", lf is not None and A.wsearch(lt, "self.search.lifetimes.contains(&lf.ident)") is not None and sets_used(lt) == {"lifetimes"}, ctx.where(f, lf.node) if lf else w0, "`visit_lifetime` no longer tests the lifetime's identifier against (only) the lifetime parameters", {"body": lt})
    # --- const parameters in expression position
    ep = vis.get("visit_expr_path")
    et = A.fn_text(ep) if ep else ""
    need(
        "pos:const-expr",
        ep is not None and A.wsearch(et, "ep.path.get_ident().is_some_and(|ident|self.search.consts.contains(ident))") is not None and sets_used(et) == {"consts"},
        ctx.where(f, ep.node) if ep else w0,
        "`visit_expr_path` no longer tests a single-identifier expression path against (only) the const parameters: `[u8; N]` is not recognised as generic (or a type parameter's name used as a constant is), so the forwarded impl and its where-predicate are chosen wrongly",
        {"body": et},
    )
    # --- braced const argument: Expr::Block with syn/full, Expr::Verbatim without
    feats = fmtdec_features(ctx)
    full = any("syn/full" in x for x in feats.get("as_ref", []))
    ve = vis.get("visit_expr")
    vt = A.fn_text(ve) if ve else ""
    handles = ve is not None and "syn::Expr::Verbatim(" in vt and re.search(r"self\.found\|=", vt)
    helper_ok = False
    if handles:
        # the helper (or inline code) scans identifiers of the raw tokens, recursing into groups, against `consts`
        cal = re.findall(r"self\.(\w+)\(", vt)
        bodies = [vt] + [A.fn_text(fn) for q, fn in fns.items() if "generics_search::" in q and q.split("::")[-1] in cal]
        helper_ok = any("TokenTree::Ident(" in b and "TokenTree::Group(" in b and "self.search.consts.contains(" in b for b in bodies)
    need(
        "pos:const-verbatim",
        full or (handles and helper_ok),
        ctx.where(f, (ve or tp).node),
        "a braced const argument (`Chunk<{ N }>`, `[u8; { N }]`) is parsed by syn *without its `full` feature* (the `as_ref` feature does not enable it) as `Expr::Verbatim`, which syn's visitor does not descend into: "
        "the const parameter inside is not seen, the field is taken for non-generic and the specialised impl without where-predicate is generated (does not compile when `Field: AsRef<Ty>` holds only for some `N`)",
        {"as_ref feature": feats.get("as_ref"), "visit_expr": vt},
    )
    # --- construction site(s): each set filled from its own accessor
    af = ctx.files.get(ASMOD)
    if af is None:
        raise A.AnchorLost(ASMOD, "file missing")
    lits = [x for x, _ in A.find(af.ast, "Expr::Struct") if A.path_last(x["path"]) == "GenericsSearch"]
    ctx.floor("GenericsSearch literals", len(lits), 1)
    want = {"types": "type_params()", "lifetimes": "lifetimes()", "consts": "const_params()"}
    for lit in lits:
        for fv in lit["fields"]:
            nm = fv["member"]["0"]["sym"] if A.kind(fv["member"]) == "Member::Named" else "?"
            r = A.render(fv["expr"])
            others = [v for k, v in want.items() if k != nm]
            need(f"construct:{nm}", nm in want and want[nm] in r and not any(o in r for o in others), ctx.where(af, fv["expr"]), f"`GenericsSearch::{nm}` is not filled from the item's `{want.get(nm)}`: the search looks for the wrong kind of parameter", {"expr": r})


_feat_cache = {}


def fmtdec_features(ctx):
    """{feature: [deps]} of impl/Cargo.toml"""
    if "f" in _feat_cache and _feat_cache.get("repo") == ctx.repo:
        return _feat_cache["f"]
    import os

    p = os.path.join(ctx.repo, "impl/Cargo.toml")
    out = {}
    sec = None
    for line in open(p):
        s = line.strip()
        if s.startswith("["):
            sec = s
            continue
        if sec == "[features]":
            m = re.match(r'([\w-]+)\s*=\s*\[(.*)\]', s)
            if m:
                out[m.group(1)] = re.findall(r'"([^"]+)"', m.group(2))
    if "as_ref" not in out:
        raise A.AnchorLost("impl/Cargo.toml::[features]", "as_ref not found")
    _feat_cache["f"] = out
    _feat_cache["repo"] = ctx.repo
    return out


def rule_type_param_used(ctx):
    """GEN-DETECT/error: `utils::is_type_parameter_used_in_type` (the Error derive's `<source type>: Error + 'static` bound) reaches every position of a type parameter: every variant of `syn::Type` with type-bearing fields is handled and each such field flows into the recursion; the first path segment and the qualified self type are examined; all `PathArguments` kinds and the type-carrying `GenericArgument`s (`Type`, `AssocType`) are searched. A variant left to `_ => false` makes e.g. `source: Inner<[T; 2]>` lose the bound `Inner<[T; 2]>: Error + 'static` the generated `source()` needs."""
    enums, structs, ver = fmtdec.syn_types(ctx)
    f, fns = _fns(ctx, UTILS)
    root = fns.get("is_type_parameter_used_in_type")
    if root is None:
        raise A.AnchorLost(f"{UTILS}::is_type_parameter_used_in_type", "missing")
    # the family: the root and the free fns it (transitively) calls inside this file
    fam = {}
    todo = [root]
    while todo:
        fn = todo.pop()
        if fn.qual in fam:
            continue
        fam[fn.qual] = fn
        for c, _ in A.find(fn.block, "Expr::Call"):
            if A.kind(c["func"]) == "Expr::Path":
                nm = A.path_str(c["func"])
                if nm in fns and nm not in fam:
                    todo.append(fns[nm])
    names = set(fam)
    ctx.note(f"detector family: {sorted(names)}")

    def recurses(txt):
        return any(re.search(r"\b%s\(" % re.escape(n), txt) for n in names)

    arms = {}  # (enum, variant) -> (rendered pattern, body text, fn, arm)
    for fn in fam.values():
        for mt, _ in A.find(fn.block, "Expr::Match"):
            for arm in mt["arms"]:
                pats = arm["pat"]["cases"] if A.kind(arm["pat"]) == "Pat::Or" else [arm["pat"]]
                body = A.render(A.unblock(arm["body"]))
                for p in pats:
                    if A.kind(p) in ("Pat::TupleStruct", "Pat::Path", "Pat::Struct"):
                        segs = A.path_str(p["path"]).split("::")
                        if len(segs) >= 2 and segs[-2] in ("Type", "PathArguments", "GenericArgument", "ReturnType", "TypeParamBound"):
                            arms[(segs[-2], segs[-1])] = (A.render_pat(p), body, fn, arm)
        # `if let <pat> = <expr> { .. }` counts as an arm
        for iff, _ in A.find(fn.block, "Expr::If"):
            if A.kind(iff["cond"]) != "Expr::Let":
                continue
            p = iff["cond"]["pat"]
            if A.kind(p) in ("Pat::TupleStruct", "Pat::Path", "Pat::Struct"):
                segs = A.path_str(p["path"]).split("::")
                if len(segs) >= 2 and segs[-2] in ("Type", "PathArguments", "GenericArgument", "ReturnType", "TypeParamBound"):
                    arms.setdefault((segs[-2], segs[-1]), (A.render_pat(p), ";".join(A.render_stmt(x) for x in iff["then_branch"]["stmts"]), fn, {"pat": p}))
    w = ctx.where(f, root.node)
    for v in enums["Type"]:
        st = structs.get("Type" + v, {})
        bearing = sorted(k for k, t in st.items() if fmtdec.TYPE_BEARING.search(t))
        if v in fmtdec.TRAVERSAL_EXCEPTIONS or not bearing:
            continue
        ctx.instance(f"tpu:Type::{v}", sample={"variant": v, "type_bearing_fields": bearing})
        a = arms.get(("Type", v))
        if a is None:
            ctx.report(
                f"tpu:Type::{v}:unhandled",
                w,
                f"`is_type_parameter_used_in_type` has no arm for `syn::Type::{v}` (it falls to `_ => false`): a type parameter inside its {bearing} is not seen, so for `#[derive(Error)]` with a generic source type "
                f"containing such a type (e.g. `source: Inner<[T; 2]>`, `Inner<(T, u8)>`, `Inner<&'static [T]>`) the bound `<source type>: Error + 'static` is not generated and `source()` does not compile",
                {},
            )
            continue
        pat, body, fn, arm = a
        miss = [b for b in bearing if not re.search(r"\b%s\b" % re.escape(b), pat + body)]
        if miss or not recurses(body):
            ctx.report(f"tpu:Type::{v}:no-recursion", ctx.where(f, arm["pat"]), f"the arm for `syn::Type::{v}` does not search its {miss or bearing}: a type parameter there is not seen and the `Error + 'static` bound on the source type is lost", {"arm": pat + "=>" + body[:200]})
    early_returns_are_positive(ctx, fam.values(), "tpu", "the positions after it (first path segment, generic arguments of the path) are no longer searched when the first one says no")
    rt = A.fn_text(root)
    ctx.instance("tpu:Path:first-segment")
    if not re.search(r"\.path\.segments\.first\(\)\{if \w+\.contains\(&(\w+)\.ident\)\{return true\}\}", rt) and not re.search(r"segments\.first\(\)", rt):
        ctx.report("tpu:Path:first-segment", w, "the first path segment (`T`, `T::Assoc`) is no longer compared with the type parameters", {})
    ctx.instance("tpu:Path:qself")
    if not re.search(r"qself\.ty\)", rt) or not recurses(rt[rt.find("qself") :][:160]):
        ctx.report("tpu:Path:qself", w, "`<T as Trait>::X`: the qualified self type is no longer searched", {})
    for v in enums.get("PathArguments", []):
        ctx.instance(f"tpu:PathArguments::{v}")
        a = arms.get(("PathArguments", v))
        if v == "None":
            continue
        if a is None or not recurses(a[1]):
            ctx.report(
                f"tpu:PathArguments::{v}",
                w,
                f"`syn::PathArguments::{v}` is not searched (only angle-bracketed arguments are): a source type like `Inner<Box<dyn Fn(T) -> u8>>` is not recognised as generic" if v == "Parenthesized" else f"`syn::PathArguments::{v}` is no longer searched",
                {},
            )
        elif v == "Parenthesized" and not ("inputs" in a[1] and "output" in a[1]):
            ctx.report("tpu:PathArguments::Parenthesized:fields", w, "parenthesised arguments: `inputs` and `output` are not both searched", {"arm": a[1][:200]})
    for v in ("Type", "AssocType"):
        ctx.instance(f"tpu:GenericArgument::{v}")
        a = arms.get(("GenericArgument", v))
        if a is None or not recurses(a[1]):
            ctx.report(
                f"tpu:GenericArgument::{v}",
                w,
                f"`syn::GenericArgument::{v}` is not searched" + (": `source: Inner<Box<dyn Iterator<Item = T>>>` is not recognised as generic" if v == "AssocType" else ""),
                {},
            )


def early_returns_are_positive(ctx, fns, tag, what):
    """NEG-FALLTHROUGH: a detector that looks at several positions in turn may leave early only with a *positive* answer;
    `return <anything else>` at one position hides the remaining positions (qualified self type checked, trait path's
    generic arguments never looked at). The leading `if <set>.is_empty() { return false }` short-cut is the only exception."""
    for fn in fns:
        for r, ps in A.find(fn.block, "Expr::Return"):
            txt = A.render(r)
            ctx.instance(f"{tag}:return:{fn.qual}:{txt[:40]}")
            if txt == "return true":
                continue
            iff = next((p for p in reversed(ps) if A.kind(p) == "Expr::If"), None)
            if txt == "return false" and iff is not None and re.fullmatch(r"\w+\.is_empty\(\)", A.render(iff["cond"])) and iff in [s_.get("0") for s_ in fn.block["stmts"] if A.kind(s_) == "Stmt::Expr"]:
                continue
            ctx.report(
                f"{tag}:early-negative:{fn.qual}",
                ctx.where(fn.file, r),
                f"`{fn.qual}` leaves with `{txt[:80]}` after looking at only one position: {what}",
                {},
            )
