"""C01 / C12 - impl headers, generics placement, lint attributes (TPL-HDR, TPL-LINT, TPL-SELFASSOC, TPL-GEN)."""
import re

from .. import ast as A
from .. import tpl as T
from .. import types as TY


def _angle_depths(seq):
    """angle-bracket depth before each token of a flat sequence (ignores -> and =>)."""
    d = 0
    out = []
    for i, x in enumerate(seq):
        out.append(d)
        if x["t"] == "p":
            if x["c"] == "<":
                d += 1
            elif x["c"] == ">":
                prev = seq[i - 1] if i else None
                if prev is not None and prev["t"] == "p" and prev["joint"] and prev["c"] in "-=":
                    continue
                d = max(0, d - 1)
    return out


def impl_headers(t):
    """[(header_tokens, body_group, attr_tokens_before_impl)] for each top-level `impl .. { }` in a template."""
    res = []
    seq = t.ir
    i = 0
    while i < len(seq):
        x = seq[i]
        if x["t"] == "id" and x["s"] == "impl":
            j = i + 1
            while j < len(seq) and not (seq[j]["t"] == "grp" and seq[j]["d"] == "{"):
                j += 1
            if j < len(seq):
                # attributes directly before `impl`
                attrs = []
                k = i - 1
                while k >= 1 and seq[k]["t"] == "grp" and seq[k]["d"] == "[" and seq[k - 1]["t"] == "p" and seq[k - 1]["c"] == "#":
                    attrs.append(seq[k])
                    k -= 2
                res.append((seq[i + 1 : j], seq[j], attrs))
                i = j
        i += 1
    return res


def attr_allows(attr_groups, lint):
    for g in attr_groups:
        b = g["body"]
        if len(b) >= 2 and b[0]["t"] == "id" and b[0]["s"] == "allow" and b[1]["t"] == "grp":
            names = T.ir_text(b[1]["body"]).replace(" ", "")
            if lint in names.split(","):
                return True
    return False


def fn_attrs_in_body(body_grp):
    """for each `fn` in an impl body: the attribute groups standing before it"""
    out = []
    seq = body_grp["body"]
    for i, x in enumerate(seq):
        if x["t"] == "id" and x["s"] == "fn":
            attrs = []
            k = i - 1
            # skip qualifiers (pub const unsafe ...)
            while k >= 0 and seq[k]["t"] == "id" and seq[k]["s"] in ("pub", "const", "unsafe", "async"):
                k -= 1
            while k >= 1 and seq[k]["t"] == "grp" and seq[k]["d"] == "[" and seq[k - 1]["t"] == "p" and seq[k - 1]["c"] == "#":
                attrs.append(seq[k])
                k -= 2
            out.append(attrs)
    return out


def _var_role(ctx, t, node):
    ty, _b = TY.var_type_at(ctx, t.fn, node["s"], node["span"][0])
    return TY.classify(ty), ty


def rule_tpl_hdr(ctx):
    """TPL-HDR: in every generated `impl` header the type's generic arguments go on the type and on nothing else: `impl <ImplGenerics> [Trait for] <ident> <TypeGenerics> <where-clause>`; a TypeGenerics interpolation anywhere directly follows the identifier of the type it belongs to."""
    templates = T.all_templates(ctx.files, composed=True)
    headers = 0
    tg_total = 0
    for t in templates:
        # (c) every TypeGenerics interpolation directly follows an Ident-typed interpolation
        for seq, i, x, parents in T.ir_walk(t.ir):
            if x["t"] != "var":
                continue
            role, ty = _var_role(ctx, t, x)
            if role != "TG":
                continue
            tg_total += 1
            construct = f"{t.key()}:#{x['s']}@{_prev_text(seq, i)}"
            ctx.instance(construct)
            prev = seq[i - 1] if i else None
            ok = False
            if prev is not None and prev["t"] == "var":
                prole, pty = _var_role(ctx, t, prev)
                ok = prole in ("Ident", "unknown")
                if ok and prole == "Ident" and not _is_input_ident(ctx, t, prev):
                    ok = False
            if not ok:
                ctx.report(
                    f"{t.key()}:TG-after:{_prev_text(seq, i)}",
                    f"{t.file.rel}:{t.file.line(x['span'][0])}",
                    f"template in `{t.fn.qual}` applies the type's generic arguments `#{x['s']}` to `{_prev_text(seq, i)}`, which is not the "
                    "identifier of the deriving type: any generic input fails to compile (E0107/E0109)",
                    {"template": t.text()[:300]},
                )
            # (d) `Type<Args>::Item` is not an expression or pattern path (`E<T>::A` parses as a chained comparison; only
            #     `E::<T>::A` or `<E<T>>::A` are): generic arguments applied without `::` may not be followed by `::`
            nxt = seq[i + 1 : i + 3]
            if len(nxt) == 2 and all(n_["t"] == "p" and n_["c"] == ":" for n_ in nxt):
                ctx.report(
                    f"{t.key()}:TG-path:{_prev_text(seq, i)}",
                    f"{t.file.rel}:{t.file.line(x['span'][0])}",
                    f"template in `{t.fn.qual}` continues `{_prev_text(seq, i)} #{x['s']}` with `::`: for a generic input this is `Type<T>::Item` in expression / pattern position, "
                    "which does not parse (`comparison operators cannot be chained`; the derive produces unparsable tokens) - non-generic inputs expand as before",
                    {"template": t.text()[:300]},
                )
        for hdr, body, attrs in impl_headers(t):
            headers += 1
            roles = []
            for x in hdr:
                if x["t"] == "var":
                    roles.append((_var_role(ctx, t, x)[0], x))
                else:
                    roles.append((None, x))
            depth = _angle_depths(hdr)
            for_idx = None
            for i, x in enumerate(hdr):
                if x["t"] == "id" and x["s"] == "for" and depth[i] == 0:
                    for_idx = i
            has_ig = any(r == "IG" for r, _ in roles)
            has_wc = any(r == "WC" for r, _ in roles)
            self_part = roles[for_idx + 1 :] if for_idx is not None else roles[1:] if has_ig else roles
            construct = f"{t.key()}:impl-header"
            ctx.instance(construct, sample={"fn": t.key(), "header": T.ir_text(hdr)})
            where = f"{t.file.rel}:{t.line}"
            # the self type: first token(s) after `for` (or after ImplGenerics)
            st = [rx for rx in self_part if rx[0] != "WC"]
            self_is_user_ident = len(st) >= 1 and st[0][0] == "Ident" and (len(st) == 1 or st[1][0] in ("TG",) or st[1][1]["t"] != "p")
            tg_in_header = any(r == "TG" for r, _ in roles)
            if self_is_user_ident:
                tg_after_self = len(st) >= 2 and st[1][0] == "TG"
                if not has_ig and not tg_in_header and not has_wc:
                    ctx.report(
                        f"{t.key()}:impl-header:no-generics",
                        where,
                        f"`impl .. for #{st[0][1]['s']}` in `{t.fn.qual}` carries no impl generics, type generics or where-clause at all: "
                        "deriving on a type with any generic parameter fails to compile (E0107)",
                        {"header": T.ir_text(hdr)},
                    )
                elif not tg_after_self:
                    ctx.report(
                        f"{t.key()}:impl-header:self-without-TG",
                        where,
                        f"impl header in `{t.fn.qual}`: the self type `#{st[0][1]['s']}` is not followed by the type's generic arguments "
                        "(a generic input is used without its parameters: E0107)",
                        {"header": T.ir_text(hdr)},
                    )
            if has_ig or tg_in_header:
                if not has_ig:
                    ctx.report(f"{t.key()}:impl-header:no-IG", where, f"impl header in `{t.fn.qual}` uses type generics without impl generics", {"header": T.ir_text(hdr)})
                if not tg_in_header:
                    ctx.report(f"{t.key()}:impl-header:no-TG", where, f"impl header in `{t.fn.qual}` declares impl generics but never applies the type generics", {"header": T.ir_text(hdr)})
                if not has_wc:
                    ctx.report(
                        f"{t.key()}:impl-header:no-WC",
                        where,
                        f"impl header in `{t.fn.qual}` drops the where-clause: inputs with `where` bounds (or bounds added by the derive) fail to compile",
                        {"header": T.ir_text(hdr)},
                    )
                elif roles and roles[-1][0] != "WC":
                    ctx.report(f"{t.key()}:impl-header:WC-not-last", where, f"impl header in `{t.fn.qual}`: where-clause is not the last header element", {"header": T.ir_text(hdr)})
    ctx.note(f"{headers} impl headers, {tg_total} TypeGenerics interpolations")
    ctx.floor("impl headers", headers, 27)
    ctx.floor("TypeGenerics interpolations", tg_total, 36)


def _prev_text(seq, i):
    if i == 0:
        return "<start>"
    p = seq[i - 1]
    return T.ir_text([p])


_carry_cache = {}


def carrying_fields(ctx):
    """Struct fields of the generator that hold the deriving type's identifier: a field every one of whose
    initialisers (in struct literals anywhere in impl/src) is `<DeriveInput>.ident` or another such field."""
    key = id(ctx.files)
    if key in _carry_cache:
        return _carry_cache[key]
    lits = []  # (fn, field name, expr)
    for fn in A.all_functions(ctx.files):
        if not fn.file.rel.startswith("impl/src"):
            continue
        for st, _ in A.find(fn.block, "Expr::Struct"):
            for fv in st["fields"]:
                m = fv["member"]
                if A.kind(m) != "Member::Named":
                    continue
                lits.append((fn, m["0"]["sym"], fv["expr"]))
    # greatest fixpoint: start from every field name and drop those with an initialiser that is not
    # (provably, under the current set) the input identifier
    carry = {n for _, n, _ in lits}
    changed = True
    while changed:
        changed = False
        for n in sorted(carry):
            inits = [(fn, e) for fn, m, e in lits if m == n]
            if not all(_input_ident_expr(ctx, fn, e, carry, 0) is True for fn, e in inits):
                carry.discard(n)
                changed = True
    _carry_cache[key] = carry
    return carry


def _input_ident_expr(ctx, fn, e, carry, depth):
    """True / False / None(unknown): does expression `e` denote the deriving type's identifier?"""
    if depth > 6:
        return None
    root, ops = A.chain(e)
    ops = [o for o in ops if not (o[0] == "m" and o[1] in ("clone", "as_ref", "to_owned", "borrow"))]
    if any(o[0] == "m" for o in ops):
        return False  # result of some other call (e.g. `self.repr.ty()`)
    fields = [o[1] for o in ops if o[0] == "f"]
    rn = A.path_str(root) if A.kind(root) == "Expr::Path" else None
    if fields:
        last = fields[-1]
        if last in carry and last != "ident":
            return True
        if last == "ident":
            base_fields = fields[:-1]
            if base_fields:
                return base_fields[-1] == "input"
            if rn == "self":
                return True if "ident" in carry else None
            if rn and "::" not in rn:
                sp = A.span_of(root)
                ty, _ = TY.var_type_at(ctx, fn, rn, sp[0] if sp else 0)
                if ty is not None:
                    return "DeriveInput" in ty
                return None
            return None
        return False
    if rn and "::" not in rn:
        sp = A.span_of(root)
        b = TY.resolve(fn, rn, sp[0] if sp else 0)
        if b is None:
            return None
        return _binding_is_input_ident(ctx, fn, rn, b, carry, depth + 1)
    return None


def _binding_is_input_ident(ctx, fn, name, b, carry, depth):
    if b["kind"] in ("param", "closure", "arm", "for"):
        return None
    pat = b["pat"]
    for fp, _ in A.find(pat, "FieldPat"):
        m = fp["member"]
        mn = m["0"]["sym"] if A.kind(m) == "Member::Named" else None
        if name in A.pat_idents(fp["pat"]):
            if mn in carry:
                return True
            if mn == "ident":
                # `let DeriveInput { ident, .. } = input;`
                for ps, _ in A.find(pat, "Pat::Struct"):
                    if A.path_last(ps["path"]) == "DeriveInput":
                        return True
                return None
            return False
    e = b.get("init")
    if e is None:
        return None
    return _input_ident_expr(ctx, fn, e, carry, depth)


def _is_input_ident(ctx, t, node):
    """Is the Ident-typed local `node` the deriving type's identifier? Decided from its defining expression
    (def-use through lets, destructurings and the generator's own struct fields). Unknown provenance
    (parameters, values computed elsewhere) never reports by itself: only a definite `False` does."""
    b = TY.resolve(t.fn, node["s"], node["span"][0])
    if b is None:
        return True
    r = _binding_is_input_ident(ctx, t.fn, node["s"], b, carrying_fields(ctx), 0)
    return r is not False


def _direct_variant_paths(ctx, t):
    """does this template write `#Type :: #Variant` / `Self :: #Variant` with Ident-typed interpolations?"""
    for seq, i, x, parents in T.ir_walk(t.ir):
        if x["t"] == "var" and i >= 3 and seq[i - 1]["t"] == "p" and seq[i - 1]["c"] == ":" and seq[i - 2]["t"] == "p" and seq[i - 2]["c"] == ":":
            root = seq[i - 3]
            vrole = _var_role(ctx, t, x)[0]
            if vrole not in ("Ident", "OptIdent", "unknown", "other"):
                continue
            if root["t"] == "id" and root["s"] == "Self":
                return True
            # `derive_more::core::ops::#trait_ident::#method_ident` is a path *into the facade*, not `#Enum::#Variant`
            opens = not (i >= 5 and seq[i - 4]["t"] == "p" and seq[i - 4]["c"] == ":" and seq[i - 5]["t"] == "p" and seq[i - 5]["c"] == ":")
            if root["t"] == "var" and opens and _var_role(ctx, t, root)[0] in ("Ident",):
                return True
        # `#ident #( :: #variant )*` (optional variant segment)
        if x["t"] == "rep" and i >= 1 and seq[i - 1]["t"] == "var":
            b = x["body"]
            if len(b) == 3 and b[0]["t"] == "p" and b[0]["c"] == ":" and b[1]["t"] == "p" and b[1]["c"] == ":" and b[2]["t"] == "var":
                if _var_role(ctx, t, seq[i - 1])[0] in ("Ident", "unknown"):
                    return True
    return False


def _template_ancestors(t):
    """syntax-tree ancestors of a (non-nested) template's macro node inside its function"""
    for m, ps in A.macros(t.fn.block):
        if m is t.node:
            return ps
    return ()


def _covered_by_outer_attrs(ctx, t, ts):
    """An impl template without its own allow(deprecated) is still covered when its value is bound to a
    local that another template of the same function splices exactly once directly after
    `#[allow(deprecated)]`, and the impl template is not instantiated repeatedly (closure / loop body)."""
    ps = _template_ancestors(t)
    if any(A.kind(p) in ("Expr::Closure", "Expr::ForLoop", "Expr::While", "Expr::Loop") for p in ps):
        return False
    var = None
    for p in reversed(ps):
        if A.kind(p) == "Stmt::Local":
            ids = A.pat_idents(p["pat"])
            if len(ids) == 1:
                var = ids[0]
            break
    if var is None:
        return False
    for o in ts:
        if o is t or o.fn is not t.fn:
            continue
        seq = o.ir
        for i, x in enumerate(seq):
            if x["t"] == "var" and x["s"] == var:
                attrs = []
                k = i - 1
                while k >= 1 and seq[k]["t"] == "grp" and seq[k]["d"] == "[" and seq[k - 1]["t"] == "p" and seq[k - 1]["c"] == "#":
                    attrs.append(seq[k])
                    k -= 2
                if attr_allows(attrs, "deprecated"):
                    return True
    return False


def _emitting_fns(ctx, rel, ts, fns):
    """functions of one file that (transitively, by name within the file) emit variant paths"""
    direct = set()
    for t in ts:
        if _direct_variant_paths(ctx, t):
            direct.add(t.fn.qual)
    for fn in fns:
        for mc, _ in A.method_calls(fn.block, "matcher"):
            direct.add(fn.qual)
    names = {}
    for fn in fns:
        names.setdefault(fn.name, []).append(fn)
    edges = {fn.qual: set() for fn in fns}
    for fn in fns:
        for c, _ in A.calls(fn.block):
            nm = A.path_last(c["func"])
            for g in names.get(nm, []):
                edges[fn.qual].add(g.qual)
        for mc, _ in A.method_calls(fn.block):
            for g in names.get(mc["method"]["sym"], []):
                edges[fn.qual].add(g.qual)
        # function names passed as values (`.map(f)`)
        for nm in A.idents_used(fn.block):
            for g in names.get(nm, []):
                edges[fn.qual].add(g.qual)
    emit = set(direct)
    changed = True
    while changed:
        changed = False
        for q, es in edges.items():
            if q not in emit and es & emit:
                emit.add(q)
                changed = True
    return emit


def rule_tpl_lint(ctx):
    """TPL-LINT: a generated impl whose body can contain a path to one of the user's enum variants (`#Enum::#Variant`, `Self::#Variant`, MultiFieldData::matcher/initializer) lies under `#[allow(deprecated)]` (on the impl or on each of its fns): otherwise a `#[deprecated]` variant makes the expansion warn under #![deny(warnings)]."""
    templates = T.all_templates(ctx.files)
    by_file = {}
    for t in templates:
        by_file.setdefault(t.file.rel, []).append(t)
    n = 0
    for rel, ts in sorted(by_file.items()):
        fns = A.functions(ctx.files[rel])
        if rel == "impl/src/utils.rs":
            continue  # helpers; judged at the expanders that call them
        emitting = _emitting_fns(ctx, rel, ts, fns)
        for t in ts:
            emits = t.fn.qual in emitting
            for hdr, body, attrs in impl_headers(t):
                construct = f"{t.key()}:impl-lints"
                ctx.instance(construct, nontrivial=emits, sample={"fn": t.key(), "variant_paths": emits})
                n += 1
                if not emits:
                    continue
                ok = attr_allows(attrs, "deprecated")
                if not ok:
                    fa = fn_attrs_in_body(body)
                    ok = bool(fa) and all(attr_allows(a, "deprecated") for a in fa)
                if not ok:
                    ok = _covered_by_outer_attrs(ctx, t, ts)
                if not ok:
                    # the attributes and the impl assembled programmatically: `let mut out = quote!{#[allow(..)]};
                    # out.extend(quote!{impl ..})`
                    htxt = T.ir_text(hdr).replace(" ", "")
                    for b in T.built_templates(t.fn):
                        for bh, bb, battrs in impl_headers(b):
                            if T.ir_text(bh).replace(" ", "") == htxt and attr_allows(battrs, "deprecated"):
                                ok = True
                if not ok:
                    # the attributes hoisted into a local template interpolated before the impl (`#impl_attrs impl ..`):
                    # read the template with its local sub-templates spliced in
                    class _Composed:
                        ir = T.compose(t.fn, t.ir)

                    htxt = T.ir_text(hdr).replace(" ", "")
                    for ch, cb, cattrs in impl_headers(_Composed):
                        if T.ir_text(ch).replace(" ", "") == T.ir_text(T.compose(t.fn, hdr)).replace(" ", "") or T.ir_text(ch).replace(" ", "") == htxt:
                            if attr_allows(cattrs, "deprecated"):
                                ok = True
                if not ok:
                    ctx.report(
                        f"{t.key()}:no-allow-deprecated",
                        f"{rel}:{t.line}",
                        f"impl generated by `{t.fn.qual}` names the user's enum variants but is not under `#[allow(deprecated)]`: "
                        "deriving on an enum with a `#[deprecated]` variant emits a `deprecated` warning from the expansion itself",
                        {"header": T.ir_text(hdr)[:200]},
                    )
    ctx.floor("impl templates", n, 27)


ASSOC_NAMES = {"Error", "Err", "Output", "Target", "Item", "IntoIter"}


def rule_tpl_selfassoc(ctx):
    """TPL-SELFASSOC: `Self::<AssocType>` in a generated impl is ambiguous once the deriving enum has a variant of that name; it may only be written by expanders that are struct-only (gated by State::assert_single_enabled_field)."""
    templates = T.all_templates(ctx.files)
    n = 0
    for t in templates:
        for seq, i, x, parents in T.ir_walk(t.ir):
            if x["t"] == "id" and x["s"] in ASSOC_NAMES and i >= 3 and seq[i - 1]["t"] == "p" and seq[i - 2]["t"] == "p" and seq[i - 2]["c"] == ":" and seq[i - 3]["t"] == "id" and seq[i - 3]["s"] == "Self":
                n += 1
                construct = f"{t.key()}:Self::{x['s']}"
                ctx.instance(construct)
                gated = any(True for _ in A.method_calls(t.fn.block, "assert_single_enabled_field"))
                if not gated:
                    ctx.report(
                        construct,
                        f"{t.file.rel}:{t.file.line(x['span'][0])}",
                        f"template in `{t.fn.qual}` writes `Self::{x['s']}` but the expander is not struct-only: an enum with a variant named "
                        f"`{x['s']}` makes the path ambiguous (E0221/E0223)",
                        {"template": t.text()[:300]},
                    )
    ctx.floor("Self::<assoc> uses", n, 5)


def rule_generics_preserve(ctx):
    """GEN-PRESERVE: every helper of utils.rs that derives a new `Generics` from the item's (`add_extra_*`, `add_where_clauses_for_new_ident`) returns a *clone of its input* with something added - directly, or by delegating to another such helper on (a preserved copy of) its input. Re-building the value from tokens (`parse_quote! { <..> }`) keeps the parameters but loses the where-clause, so the user's `where T: Copy` is dropped from the generated impl; `add_extra_where_clauses` keeps the old predicates."""
    f = ctx.files.get("impl/src/utils.rs")
    if f is None:
        raise A.AnchorLost("impl/src/utils.rs", "missing")
    fam = {}
    for fn in A.functions(f):
        if fn.impl is not None or fn.block is None:
            continue
        out = fn.node["sig"].get("output")
        rt = " ".join(A.path_str(t) or "" for t, _ in A.find(out, "Type::Path")) if out else ""
        if rt.split("::")[-1] != "Generics":
            continue
        gp = None
        for p in fn.node["sig"]["inputs"]:
            if A.kind(p) == "FnArg::Typed" and "Generics" in " ".join(A.path_str(t) or "" for t, _ in A.find(p["0"]["ty"], "Type::Path")):
                ns = A.pat_idents(p["0"]["pat"])
                gp = ns[0] if ns else None
        if gp:
            fam[fn.name] = (fn, gp)
    ctx.floor("Generics-deriving helpers", len(fam), 5)
    for name, (fn, gp) in sorted(fam.items()):
        lets = {}
        for st, _ in A.find(fn.block, "Stmt::Local"):
            ns = A.pat_idents(st["pat"])
            if len(ns) == 1 and st.get("init"):
                lets[ns[0]] = st["init"]["expr"]

        def preserved(e, depth=0):
            while A.kind(e) in ("Expr::Reference", "Expr::Paren"):
                e = e["expr"]
            k = A.kind(e)
            if k == "Expr::Path":
                nm = A.path_str(e)
                if nm == gp:
                    return True
                if nm in lets and depth < 5:
                    return preserved(lets[nm], depth + 1)
                return False
            if k == "Expr::MethodCall" and e["method"]["sym"] == "clone":
                return preserved(e["receiver"], depth)
            if k == "Expr::Call" and A.kind(e["func"]) == "Expr::Path" and A.path_str(e["func"]).split("::")[-1] in fam and e["args"]:
                return preserved(e["args"][0], depth)
            return False

        st = fn.block["stmts"]
        tail = st[-1]["0"] if st and A.kind(st[-1]) == "Stmt::Expr" and not st[-1].get("1") else None
        ctx.instance(f"genpreserve:{name}", sample={"fn": name, "returns": A.render(tail)[:80] if tail else None})
        if tail is None or not preserved(tail):
            ctx.report(
                f"genpreserve:{name}",
                ctx.where(f, fn.node),
                f"`{name}` returns `{A.render(tail)[:100] if tail else '?'}`, which is not (a helper applied to) a clone of its input `{gp}`: a `Generics` re-built from tokens has no where-clause, so the deriving type's own `where` predicates vanish from the generated impl (E0277 inside the derive for `struct S<T>(T) where T: Copy`)",
                {},
            )
    # inside such a helper (and the other helpers that touch the item's generics) the parameter list only grows and
    # every parameter is visited: no assignment to / clearing of `.params`, no `break` / early `return` inside a loop
    # over the parameters (type parameters may follow a const parameter)
    for g in A.functions(f):
        if g.impl is not None or g.block is None or not g.name.startswith("add_"):
            continue
        ctx.instance(f"genpreserve:params:{g.name}")
        for x, ps in A.walk(g.block):
            k = A.kind(x)
            if k == "Expr::Assign" and A.render(x["left"]).endswith(".params"):
                gt_ = str(A.fn_text(g))
                missing_ = [m_ for m_ in ("lifetimes()", "type_params()", "const_params()") if m_ not in gt_]
                if not missing_:
                    continue  # rebuilt from all three kinds of the input's parameters
                ctx.report(f"genpreserve:params-assigned:{g.name}", ctx.where(f, x), f"`{g.name}` overwrites `{A.render(x['left'])}`: parameters of the deriving item that the new list does not copy (const parameters, say) disappear from the generated impl's generics while its `#ty_generics` still names them", {})
            if k == "Expr::MethodCall" and x["method"]["sym"] in ("clear", "retain", "truncate", "pop", "drain") and A.render(x["receiver"]).endswith(".params"):
                ctx.report(f"genpreserve:params-shrunk:{g.name}", ctx.where(f, x), f"`{g.name}` removes generic parameters (`{A.render(x)[:60]}`)", {})
            if k == "Expr::ForLoop" and re.search(r"\.params\b|type_params|type_params_mut|const_params|lifetimes", A.render(x["expr"])):
                exits = [y for y, yps in A.walk(x["body"]) if A.kind(y) in ("Expr::Break", "Expr::Return") and not any(A.kind(q) in ("Expr::Closure", "Expr::ForLoop", "Expr::While", "Expr::Loop") for q in yps)]
                if exits:
                    ctx.report(f"genpreserve:params-loop-exit:{g.name}", ctx.where(f, exits[0]), f"`{g.name}` leaves its loop over the generic parameters early (`{A.render(exits[0])[:40]}`): the parameters after that point get no bound (`struct S<const N: usize, T>(T)`: `T` comes after a const parameter)", {})
    wc = fam.get("add_extra_where_clauses")
    ctx.instance("genpreserve:old-predicates")
    # `if let Some(old) = <copy>.where_clause[.take()] { <new clause>.predicates.extend(old.predicates) }`, names free
    if wc is None or re.search(r"if let Some\(\$\)=\$\.where_clause(?:\.take\(\)|\.clone\(\))?\{\$\.predicates\.extend\(\$\.predicates\);?\}", A.alpha(A.fn_text(wc[0]), numbered=False)) is None:
        ctx.report("genpreserve:old-predicates", ctx.where(f, wc[0].node) if wc else "impl/src/utils.rs", "`add_extra_where_clauses` no longer appends the item's existing where-predicates to the added ones", {})


def rule_bounds_appended(ctx):
    """BOUNDS-APPEND: the where-predicates the fmt derives collect (inferred `FieldTy: Trait` bounds and the user's `bound(...)` predicates) are appended to the impl's where-clause for *every* input: in `fmt::display::expand` and `fmt::debug::expand` the statement `<where_clause>.predicates.extend(bounds)` exists and is reached unconditionally (its condition, as a formula, is `true`). Skipping it for some class of inputs (no type parameters, no where-clause ..) drops the explicit `bound(...)` of items that are generic only over lifetimes / consts."""
    from . import reject as RJ
    from .. import guardf as GF

    for rel in ("impl/src/fmt/display.rs", "impl/src/fmt/debug.rs"):
        fn = A.get_fn(ctx.files, rel, "expand")
        sites = []
        for mc, ps in A.method_calls(fn.block, "extend"):
            if A.render(mc["receiver"]).endswith(".predicates") and len(mc["args"]) == 1:
                sites.append((mc, ps))
        ctx.instance(f"{rel}::expand:bounds-appended", sample={"sites": [A.render(m) for m, _ in sites]})
        w = ctx.where(fn.file, fn.node)
        if len(sites) != 1:
            ctx.report(f"bounds-append:{rel}:sites", w, f"`expand` appends to the where-clause's predicates at {len(sites)} places (expected exactly one `where_clause.predicates.extend(bounds)`): the generated and user-given bounds do not reach the impl header as one list", {})
            continue
        mc, ps = sites[0]
        f_ = RJ.site_formula(fn, mc, ps)
        if f_ != GF.T:
            ctx.report(f"bounds-append:{rel}:conditional", ctx.where(fn.file, mc), f"`{A.render(mc)}` in `expand` runs only under `{GF.canon_text(f_)}`: for the other inputs the collected bounds (the user's `bound(...)` predicates included) are dropped from the impl", {})


def _attr_values(ctx, fn, tyname="ContainerAttributes"):
    """names bound in `fn` (parameters, lets, closure parameters) whose rustc type is (a reference to) `tyname`"""
    out = {}
    from .. import types as TY

    for pi, _ in A.find(fn.node, "Pat::Ident"):
        nm = pi["ident"]["sym"]
        line, col = TY._linecol(fn.file, pi["ident"]["span"][0])
        ls = ctx.mir.local_type(fn.file.rel, line, col)
        ty = ls[0]["ty"] if ls else None
        if ty and re.sub(r"&|'\w+ |mut ", "", ty).strip().split("::")[-1] == tyname:
            out[nm] = pi
    return out


def _bounds_consumed(ctx, f, fn, root, fields_of, depth=0):
    """(consumed?, detail) for the attribute value `root` (a variable name, or `self.<field>`) inside producer `fn`"""
    from . import reject as RJ
    from .. import guardf as GF

    sites = []
    for fe, ps in A.find(fn.block, "Expr::Field"):
        if A.kind(fe["member"]) != "Member::Named" or fe["member"]["0"]["sym"] != "bounds":
            continue
        base = fe["base"]
        chain = []
        while A.kind(A.peel(base)) == "Expr::Field":
            base = A.peel(base)
            chain.append(base["member"]["0"]["sym"] if A.kind(base["member"]) == "Member::Named" else "?")
            base = base["base"]
        base = A.peel(base)
        if A.kind(base) != "Expr::Path":
            continue
        nm = A.path_str(base)
        full = nm + "".join("." + c for c in reversed(chain))
        # `self.attrs.common.bounds` -> root `self.attrs`; `attrs.common.bounds` -> root `attrs`
        if full == root or full.startswith(root + "."):
            sites.append((fe, ps))
    fms = [RJ.site_formula(fn, n_, ps_) for n_, ps_ in sites]
    if fms:
        whole = GF.f_or(fms) if len(fms) > 1 else fms[0]
        if whole == GF.T or GF.equivalent(whole, GF.T)[0]:
            return True, f"{len(sites)} read(s), together unconditional"
        # the paths on which the function refuses the input need no bounds: reads and refusals together cover every case
        errs = [RJ.site_formula(fn, r_, ps_) for r_, ps_ in A.find(fn.block, "Expr::Return") if r_.get("expr") is not None and A.render(r_["expr"]).startswith("Err(")]
        if errs and GF.equivalent(GF.f_or(fms + errs), GF.T)[0]:
            return True, f"{len(sites)} read(s), unconditional on every path that does not refuse the input"
    # handed on whole: `Expansion { attrs: &root, .. }` + `.generate_bounds()`
    if depth < 2 and "." not in root:
        for lit, _ in A.find(fn.block, "Expr::Struct"):
            sname = A.path_last(lit["path"])
            for fv in lit["fields"]:
                v = A.peel(fv["expr"])
                while A.kind(v) in ("Expr::Reference", "Expr::Paren", "Expr::Group"):
                    v = v["expr"]
                if A.kind(v) == "Expr::Path" and A.path_str(v) == root and A.kind(fv["member"]) == "Member::Named":
                    fld = fv["member"]["0"]["sym"]
                    gb = [g for g in A.functions(f) if g.qual == f"{sname}::generate_bounds" and g.block is not None]
                    if gb and list(A.method_calls(fn.block, "generate_bounds")):
                        ok, why = _bounds_consumed(ctx, f, gb[0], f"self.{fld}", fields_of, depth + 1)
                        if ok:
                            return True, f"handed to `{sname}::generate_bounds` as `{fld}` ({why})"
                        return False, f"handed to `{sname}::generate_bounds` as `{fld}`, which reads its `bounds` only under `{why}`"
    if fms:
        return False, GF.canon_text(GF.f_or(fms) if len(fms) > 1 else fms[0])
    return False, "never"


def rule_user_bounds_flow(ctx):
    """USER-BOUNDS: every `bound(...)` list the fmt derives parse reaches the impl: in each function of `fmt/display.rs` / `fmt/debug.rs` that produces where-predicates (`-> .. Vec<syn::WherePredicate> ..`), every value of type `ContainerAttributes` it holds - a parameter, a local parsed from a variant's attributes, `self.<field>` of an `Expansion` - has its `bounds` read on all paths (the disjunction of the conditions of the reads is a tautology), or is handed whole to an `Expansion` whose `generate_bounds` does so. A `bound(..)` that is parsed and then read only when a format literal is present, or an enum-level one that is never read, is an accepted attribute silently ignored: the impl is *less* bounded than the user said (C04 'plus any `bound(...)` predicates', C17)."""
    n = 0
    for rel in ("impl/src/fmt/display.rs", "impl/src/fmt/debug.rs"):
        f = ctx.files.get(rel)
        if f is None:
            raise A.AnchorLost(rel, "file missing")
        fields_of = {}
        for it in f.ast["items"]:
            if A.kind(it) == "Item::Struct" and A.kind(it["fields"]) == "Fields::Named":
                fields_of[it["ident"]["sym"]] = [fd["ident"]["sym"] for fd in it["fields"]["named"] if "ContainerAttributes" in A.expr_text(f, fd["ty"])]
        for fn in A.functions(f):
            if fn.block is None:
                continue
            out = fn.node["sig"].get("output")
            rt = A.expr_text(f, out[1] if isinstance(out, list) else out) if out and out != "ReturnType::Default" else ""
            # producers of the *list* of predicates (a helper building one predicate is judged at its caller)
            if not re.search(r"Vec<\s*(?:syn::)?WherePredicate", rt):
                continue
            roots = sorted(_attr_values(ctx, fn))
            owner = fn.qual.split("::")[0] if "::" in fn.qual else None
            if owner in fields_of and fn.node["sig"]["inputs"] and A.kind(fn.node["sig"]["inputs"][0]) == "FnArg::Receiver":
                roots += [f"self.{x}" for x in fields_of[owner]]
            for root in roots:
                n += 1
                ok, why = _bounds_consumed(ctx, f, fn, root, fields_of)
                key = f"{rel}::{fn.qual}:{root}"
                ctx.instance(f"user-bounds:{key}", sample={"producer": f"{rel}::{fn.qual}", "attributes": root, "consumed": ok, "how": why})
                if not ok:
                    ctx.report(f"user-bounds:{key}", ctx.where(f, fn.node), f"`{fn.qual}` holds the parsed attributes `{root}` but adds their `bound(...)` predicates to the impl {'only under `' + why + '`' if why not in ('never',) and not why.startswith('handed') else why if why.startswith('handed') else 'on no path'}: for the other inputs a `bound(..)` the derive accepted is silently dropped and the impl is less constrained than the user asked", {})
    ctx.floor("attribute values in bound producers", n, 7)


def _state_generics_reads(ctx, files, prefix, typed=True):
    out = []
    for rel, f in sorted(files.items()):
        if prefix and (not rel.startswith(prefix) or rel.endswith("/utils.rs")):
            continue
        for fn in A.functions(f):
            if fn.block is None:
                continue
            for fe, _ in A.find(fn.block, "Expr::Field"):
                if A.kind(fe["member"]) != "Member::Named" or fe["member"]["0"]["sym"] != "generics":
                    continue
                base = A.peel(fe["base"])
                is_state = A.kind(base) == "Expr::Path" and A.path_str(base) == "state"
                if typed and not is_state:
                    try:
                        from . import idx as IDX

                        is_state = IDX.expr_struct(ctx, fn, base) == "State"
                    except Exception:
                        is_state = False
                if is_state:
                    out.append((f, fn, fe))
    return out


def rule_generics_source(ctx):
    """GEN-SOURCE: the derives take the item's generics from `input.generics` (or from the prepared triples of MultiFieldData / SingleFieldData); none of them reads `State::generics` directly. That copy carries the bound `T: <trait path>` that `State::new` adds for the traits *without* type arguments; reused for a trait that has them (`TryInto<T>`, `AsRef<T>`, `Index<I>` ..) it puts `T: derive_more::with_trait::TryInto` (E0107) into the impl header of every generic item. Closed set (who may read), expected empty outside utils.rs; positive control rules/positive/gensource.rs."""
    import os

    got = _state_generics_reads(ctx, ctx.files, "impl/src/")
    for f, fn, fe in got:
        key = f"{f.rel}::{fn.qual}"
        ctx.instance(f"gen-source:{key}")
        ctx.report(f"gen-source:{key}", ctx.where(f, fe), f"`{fn.qual}` reads `{A.render(fe)}`: `State::generics` is the item's generics *plus* `T: <trait path>` for every type parameter - right only for the argument-less traits `State` was built for; in an impl of a trait with type arguments the bound is malformed (`T: TryInto`, E0107) or over-constrains the impl. Use `input.generics`", {})
    ctx.cur.instances += 1
    ctx.note(f"{len(got)} direct reads of State::generics outside utils.rs")
    pos = os.path.join(os.path.dirname(os.path.dirname(os.path.dirname(os.path.dirname(os.path.abspath(__file__))))), "rules", "positive", "gensource.rs")
    pc = _state_generics_reads(ctx, A.load_files([pos]), None, typed=False)
    ctx.instance("gen-source:positive-control")
    if len(pc) != 1:
        ctx.report("gen-source:positive-control", "rules/positive/gensource.rs", f"the positive control yields {len(pc)} sites instead of 1", {})
