"""Decision code of the fmt derives: C02 (verbatim hand-over), C04 (bounds), C05 (transparency), C07 (shared attr)."""
import re

from .. import ast as A
from .. import tpl as T
from .. import types as TY

MOD = "impl/src/fmt/mod.rs"
PARSING = "impl/src/fmt/parsing.rs"
DISPLAY = "impl/src/fmt/display.rs"
DEBUG = "impl/src/fmt/debug.rs"


def struct_fields(ctx, rel, name):
    it = A.get_item(ctx.files, rel, "Item::Struct", name)
    flds = it["fields"]
    if "0" in flds:
        flds = flds["0"]
    return [x["ident"]["sym"] for x in flds["named"]]


def or_terms(e):
    e = A.peel(e) if A.kind(e) in ("Expr::Paren", "Expr::Group") else e
    if A.kind(e) == "Expr::Binary" and A.kind(e["op"]) == "BinOp::Or":
        return or_terms(e["left"]) + or_terms(e["right"])
    return [e]


def impl_methods(ctx, rel, ty):
    return {fn.name: fn for fn in A.functions(ctx.files[rel]) if fn.self_ty == ty and fn.trait_ is None}


def modifier_terms(ctx, expr, var, depth=0):
    """[(field, test)] read by an `||` chain over the FormatSpec bound to `var`"""
    out = []
    for t in or_terms(expr):
        r = A.render(t)
        m = re.fullmatch(r"%s\.(\w+)\.is_some\(\)" % re.escape(var), r)
        if m:
            out.append((m.group(1), "is_some"))
            continue
        m = re.fullmatch(r"!%s\.(\w+)\.is_trivial\(\)" % re.escape(var), r)
        if m:
            out.append((m.group(1), "nontrivial"))
            continue
        m = re.fullmatch(r"%s\.(\w+)\(\)" % re.escape(var), r)
        if m and depth < 3:
            meths = impl_methods(ctx, PARSING, "FormatSpec")
            if m.group(1) in meths:
                fn = meths[m.group(1)]
                st = fn.block["stmts"]
                if len(st) == 1 and A.kind(st[0]) == "Stmt::Expr":
                    out.extend(modifier_terms(ctx, st[0]["0"], "self", depth + 1))
                    continue
        fm = re.match(r"!?%s\.(\w+)" % re.escape(var), r)
        out.append((fm.group(1) if fm else "?", "other:" + r))
    return out


def find_modifier_predicates(ctx, fn):
    """expressions in `fn` that decide 'has modifiers' from a FormatSpec: closures over the spec whose body is
    an `||` chain of `.is_some()` tests, or calls of a bool method of FormatSpec on it"""
    res = []
    for cl, ps in A.find(fn.block, "Expr::Closure"):
        if len(cl["inputs"]) != 1:
            continue
        ids = A.pat_idents(cl["inputs"][0])
        if len(ids) != 1:
            continue
        v = ids[0]
        body = cl["body"]
        while A.kind(body) == "Expr::Block" and len(body["block"]["stmts"]) == 1 and A.kind(body["block"]["stmts"][0]) == "Stmt::Expr":
            body = body["block"]["stmts"][0]["0"]
        terms = or_terms(body)
        rs = [A.render(t) for t in terms]
        if any(re.fullmatch(r"!?%s\.\w+\.(is_some|is_trivial)\(\)" % re.escape(v), r) for r in rs) and (len(terms) > 1 or ".is_some()" in rs[0]):
            # must be applied to a spec
            mc = next((q for q in reversed(ps) if A.kind(q) == "Expr::MethodCall" and any(a is cl for a in q["args"])), None)
            if mc is not None and ".spec" in A.render(mc["receiver"]):
                res.append((body, v))
                continue
        r0 = A.render(body)
        m = re.fullmatch(r"%s\.(\w+)\(\)" % re.escape(v), r0)
        if m and m.group(1) in impl_methods(ctx, PARSING, "FormatSpec") and m.group(1) not in ("clone",):
            mc = next((q for q in reversed(ps) if A.kind(q) == "Expr::MethodCall" and any(a is cl for a in q["args"])), None)
            if mc is not None and ".spec" in A.render(mc["receiver"]) and mc["method"]["sym"] in ("map", "is_some_and", "map_or"):
                meth = impl_methods(ctx, PARSING, "FormatSpec")[m.group(1)]
                if "bool" in A.render_type(meth.sig["output"]["1"]) if A.kind(meth.sig["output"]) == "ReturnType::Type" else False:
                    res.append((body, v))
    # `.spec.map(FormatSpec::has_modifiers)` / `.is_some_and(FormatSpec::has_modifiers)`
    for mc, ps in A.method_calls(fn.block, ("map", "is_some_and", "map_or", "is_none_or")):
        if ".spec" not in A.render(mc["receiver"]):
            continue
        for a in mc["args"]:
            if A.kind(a) == "Expr::Path":
                nm = A.path_last(a)
                meths = impl_methods(ctx, PARSING, "FormatSpec")
                if nm in meths:
                    st = meths[nm].block["stmts"]
                    if len(st) == 1 and A.kind(st[0]) == "Stmt::Expr":
                        res.append((st[0]["0"], "self"))
    return res


def rule_dec_cover(ctx):
    """DEC-COVER: wherever 'this placeholder has formatting modifiers' is decided (FmtAttribute::transparent_call, Placeholder::parse_fmt_string) every field of parsing::FormatSpec except `ty` is tested with `.is_some()` and `ty` through `!is_trivial()`: a dropped or weakened term makes e.g. `{:+}` / `{:-}` a transparent delegation that the caller's flags override."""
    fields = struct_fields(ctx, PARSING, "FormatSpec")
    if "ty" not in fields or len(fields) < 7:
        raise A.AnchorLost(f"{PARSING}::FormatSpec", f"fields {fields}")
    want = {(f, "is_some") for f in fields if f != "ty"} | {("ty", "nontrivial")}
    for qual in ("FmtAttribute::transparent_call", "Placeholder::parse_fmt_string"):
        fn = A.get_fn(ctx.files, MOD, qual)
        preds = find_modifier_predicates(ctx, fn)
        if not preds:
            raise A.AnchorLost(f"{MOD}::{qual}", "no modifier predicate over `.spec` found")
        for body, v in preds:
            got = set(modifier_terms(ctx, body, v))
            ctx.instance(f"{qual}:modifier-predicate", sample={"fn": qual, "terms": sorted(got)})
            for miss in sorted(want - got):
                odd = [g for g in got if g[0] == miss[0]]
                ctx.report(
                    f"{qual}:modifier:{miss[0]}",
                    ctx.where(fn.file, body),
                    f"`{qual}` decides 'has modifiers' without testing `{miss[0]}` with `{'.is_some()' if miss[1] == 'is_some' else '!is_trivial()'}`"
                    + (f" (found `{odd[0][1]}`)" if odd else "")
                    + ": a placeholder carrying only that modifier is treated as bare, so the derive delegates transparently and the caller's flags replace it",
                    {"terms": sorted(got)},
                )


def rule_transparent_call(ctx):
    """TRANSP: FmtAttribute::transparent_call is transparent only for exactly one placeholder (`more.is_empty()`), and a positional index must denote the single argument: the integer of `Argument::Integer(..)` is constrained (literal 0 or compared), never ignored; named placeholders need the alias to equal the name; the delegated trait is the placeholder's own (`ty.trait_name()`)."""
    fn = A.get_fn(ctx.files, MOD, "FmtAttribute::transparent_call")
    f = fn.file
    # (1) exactly one placeholder
    ok = False
    for c, ps in A.calls(fn.block, lambda p: p.endswith("parsing::format") or p == "format"):
        # the `more`/rest binding must flow into is_empty()
        chain = next((q for q in reversed(ps) if A.kind(q) == "Expr::MethodCall" and q["method"]["sym"] == "and_then"), None)
        if chain is not None:
            for cl in chain["args"]:
                if A.kind(cl) == "Expr::Closure":
                    ids = A.pat_idents(cl["inputs"][0])
                    body = A.render(cl["body"])
                    if ids and re.search(r"\b%s\.is_empty\(\)" % re.escape(ids[0]), body):
                        ok = True
    ctx.instance("transparent_call:single-placeholder")
    if not ok:
        ctx.report("transparent:rest-not-checked", ctx.where(f, fn.node), "`transparent_call` no longer requires the literal to consist of exactly one placeholder (rest `.is_empty()`): text or further placeholders around it would be dropped by the delegation", {})
    # (2) the positional payload
    m = None
    for mt, _ in A.find(fn.block, "Expr::Match"):
        if ".arg" in A.render(mt["expr"]):
            m = mt
    if m is None:
        raise A.AnchorLost(f"{MOD}::FmtAttribute::transparent_call", "match on the placeholder's argument not found")
    n_int = 0
    for arm in m["arms"]:
        pr = A.render_pat(arm["pat"])
        for tsp, _ in A.find(arm["pat"], "Pat::TupleStruct"):
            if A.path_last(tsp["path"]) != "Integer":
                continue
            n_int += 1
            el = tsp["elems"][0]
            k = A.kind(el)
            ctx.instance("transparent_call:Argument::Integer", sample={"pattern": pr})
            okp = False
            if A.render(A.unblock(arm["body"])) == "None":
                okp = True  # this index is declared non-transparent
            elif k == "Pat::Lit" and A.render_lit(el["lit"]) == "0":
                okp = True
            elif k == "Pat::Ident":
                v = el["ident"]["sym"]
                used = v in A.idents_used(arm["body"]) or (arm.get("guard") and v in A.idents_used(arm["guard"][1]))
                okp = bool(used)
            if not okp:
                ctx.report(
                    "transparent:integer-ignored",
                    ctx.where(f, arm["pat"]),
                    f"`transparent_call` matches `{pr}` and ignores the index: `{{1}}` with a single argument is delegated to that argument although "
                    "index 1 does not denote it (std rejects the literal: the derive must fall back to `write!` and fail to compile)",
                    {},
                )
        body = A.render(A.unblock(arm["body"]))
        if ("Integer" in pr or pr == "None" or "None" in pr.split("|")) and body != "None":
            ctx.instance("transparent_call:positional-arm")
            if "self.args.len()==1" not in body:
                ctx.report("transparent:positional-arity", ctx.where(f, arm["pat"]), "positional transparent call no longer requires exactly one argument (`self.args.len() == 1`)", {})
        if "Identifier" in pr:
            g = A.render(arm["guard"][1]) if arm.get("guard") else ""
            ctx.instance("transparent_call:named-arm", sample={"pattern": pr, "guard": g})
            if "self.args.is_empty()" in g:
                # a bare `{name}` with no arguments always refers to an outer binding: the arm is total
                if not re.fullmatch(r'Some\(format_ident!\("\{(\w+)\}"\)\.into\(\)\)', body):
                    ctx.report(
                        "transparent:named-outer-binding",
                        ctx.where(f, arm["pat"]),
                        f"for a bare `{{name}}` without arguments `transparent_call` yields `{body}` instead of the unconditional `Some(format_ident!(\"{{name}}\").into())`: "
                        "names that do not survive the new construction (e.g. keywords of raw-identifier fields, `{type}`) silently lose transparency and the caller's flags",
                        {},
                    )
                continue
            if "self.args.len()==1" not in body or ".alias" not in body:
                ctx.report("transparent:named-arity", ctx.where(f, arm["pat"]), "named transparent call no longer requires exactly one argument whose alias equals the placeholder's name", {})
    if n_int == 0:
        raise A.AnchorLost(f"{MOD}::FmtAttribute::transparent_call", "no `Argument::Integer(..)` pattern")
    txt = ";".join(A.render_stmt(s) for s in fn.block["stmts"])
    ctx.instance("transparent_call:trait")
    if ".trait_name()" not in txt or "parsing::Type::Display" not in txt:
        ctx.report("transparent:trait", ctx.where(f, fn.node), "the delegated trait is no longer the placeholder's own type (`ty.trait_name()`, `Display` when absent)", {})


def _write_templates(ctx):
    """templates in fmt/ that hand a FmtAttribute to write!/format_args!"""
    out = []
    for rel in (DISPLAY, DEBUG, MOD):
        for fn in A.functions(ctx.files[rel]):
            for t in T.templates_of(fn):
                for seq, i, x, parents in T.ir_walk(t.ir):
                    if x["t"] == "id" and x["s"] in ("write", "format_args") and i + 2 < len(seq) and seq[i + 1]["t"] == "p" and seq[i + 1]["c"] == "!" and seq[i + 2]["t"] == "grp":
                        out.append((t, x["s"], seq[i + 2], seq, i))
    return out


def rule_tpl_verb(ctx):
    """TPL-VERB: every template that calls `derive_more::core::{write,format_args}!` passes `[formatter,] #attr [, #(#deref_args),*]` and nothing else, with `attr` a FmtAttribute (literal and user arguments verbatim, in order) and `deref_args` = `attr.additional_deref_args(fields)` of the same attribute; FmtAttribute/FmtArgument/Expr re-emit every token-bearing field in declaration order."""
    sites = _write_templates(ctx)
    for t, mac, grp, seq, i in sites:
        body = grp["body"]
        # split on top-level commas
        parts = [[]]
        for x in body:
            if x["t"] == "p" and x["c"] == ",":
                parts.append([])
            else:
                parts[-1].append(x)
        parts = [p for p in parts if p]
        construct = f"{t.key()}:{mac}!({T.ir_text(body)})"
        ctx.instance(construct, sample={"fn": t.key(), "macro": mac, "args": T.ir_text(body)})
        where = f"{t.file.rel}:{t.file.line(grp['span'][0])}"
        idx = 0
        if mac == "write":
            if not (parts and len(parts[0]) == 1 and parts[0][0]["t"] == "id" and parts[0][0]["s"] == "__derive_more_f"):
                ctx.report(f"{t.key()}:{mac}:formatter", where, "write! is not given the impl's own formatter parameter first", {})
            idx = 1
        if idx >= len(parts) or len(parts[idx]) != 1 or parts[idx][0]["t"] != "var":
            ctx.report(f"{t.key()}:{mac}:attr", where, f"`{mac}!` in `{t.fn.qual}` does not take the attribute as one verbatim interpolation: `{T.ir_text(body)}`", {})
            continue
        attr = parts[idx][0]
        aty, ab = TY.var_type_at(ctx, t.fn, attr["s"], attr["span"][0])
        aty = aty or ""
        is_attr = "FmtAttribute" in aty
        rest = parts[idx + 1 :]
        if is_attr:
            okrest = len(rest) == 0 or (len(rest) == 1 and len(rest[0]) == 1 and rest[0][0]["t"] == "rep" and len(rest[0][0]["body"]) == 1 and rest[0][0]["body"][0]["t"] == "var")
            if not okrest:
                ctx.report(f"{t.key()}:{mac}:extra-args", where, f"`{mac}!(.. #{attr['s']} ..)` in `{t.fn.qual}` passes something besides the attribute and its deref arguments: `{T.ir_text(body)}`", {})
                continue
            if rest:
                dv = rest[0][0]["body"][0]
                b = TY.resolve(t.fn, dv["s"], dv["span"][0])
                init = A.render(b["init"]) if b and b.get("init") is not None else "?"
                want = re.fullmatch(r"(\w+)\.additional_deref_args\(self\.fields\)", init)
                abind = TY.resolve(t.fn, attr["s"], attr["span"][0])
                if not want or want.group(1) != attr["s"]:
                    ctx.report(
                        f"{t.key()}:{mac}:deref-args",
                        where,
                        f"the extra arguments of `{mac}!(#{attr['s']}, ..)` in `{t.fn.qual}` are `{init}`, not `{attr['s']}.additional_deref_args(self.fields)` of the same attribute",
                        {},
                    )
        else:
            # the default placeholder of a wrapped single-field variant: literal from the trait table + the field binder
            lit_ok = "str" in aty
            if not lit_ok or len(rest) != 1 or len(rest[0]) != 1 or rest[0][0]["t"] != "var":
                ctx.report(f"{t.key()}:{mac}:non-attr", where, f"`{mac}!` in `{t.fn.qual}` formats `#{attr['s']}: {aty}` which is neither a FmtAttribute nor the default placeholder literal with the single field", {})
    ctx.floor("write!/format_args! templates", len(sites), 8)
    # ToTokens impls
    for rel, ty, want in ((MOD, "FmtAttribute", None), (MOD, "FmtArgument", None), ("impl/src/parsing.rs", "Expr", None)):
        fns = [fn for fn in A.functions(ctx.files[rel]) if fn.self_ty == ty and fn.trait_ == "ToTokens" and fn.name == "to_tokens"]
        if len(fns) != 1:
            raise A.AnchorLost(f"{rel}::<{ty} as ToTokens>::to_tokens", f"{len(fns)} impls")
        fn = fns[0]
        ctx.instance(f"ToTokens:{ty}")
        if ty == "Expr":
            # every variant forwards its payload
            arms = [a for a, _ in A.find(fn.block, "Arm")]
            for a in arms:
                if ".to_tokens(tokens)" not in A.render(a["body"]):
                    ctx.report(f"ToTokens:{ty}:arm", ctx.where(fn.file, a["pat"]), f"`{ty}::to_tokens` arm `{A.render_pat(a['pat'])}` does not re-emit its tokens", {})
            continue
        fields = struct_fields(ctx, rel, ty)
        emitted = []
        for mc, _ in A.method_calls(fn.block, "to_tokens"):
            r = A.render(mc["receiver"])
            m = re.fullmatch(r"self\.(\w+)", r)
            emitted.append((A.span_of(mc)[0], m.group(1) if m else r))
        emitted = [e for _, e in sorted(emitted)]
        if ty == "FmtArgument":
            ok = emitted == ["ident", "eq", "expr"]
        else:
            ok = emitted == fields
        if not ok:
            ctx.report(f"ToTokens:{ty}", ctx.where(fn.file, fn.node), f"`{ty}::to_tokens` emits {emitted}; every field {fields} must be re-emitted once, in order", {})


def rule_binder_align(ctx):
    """IDX-ALIGN(fmt): the name a field is bound under (`ident` or `_{i}`) and the member it is read from (`self.<ident>` / `self.<i>`) come from the same `(i, f)` of one `.enumerate()` over the fields; enum matchers list the binders in field order; `FieldsExt::fmt_args_idents` (the reader side) uses the identical scheme."""
    n = 0
    for rel in (DISPLAY, DEBUG):
        for qual in ("expand_struct", "expand_enum"):
            fn = A.get_fn(ctx.files, rel, qual)
            f = fn.file
            for cl, ps in A.find(fn.block, "Expr::Closure"):
                body = A.render(cl["body"])
                if "format_ident!" not in body or "_{" not in body:
                    continue
                ins = [A.render_pat(p) for p in cl["inputs"]]
                if len(ins) != 1 or not re.fullmatch(r"\((\w+),(\w+)\)", ins[0]):
                    continue
                mc = next((q for q in reversed(ps) if A.kind(q) == "Expr::MethodCall" and any(a is cl for a in q["args"])), None)
                recv = A.render(mc["receiver"]) if mc else "?"
                n += 1
                ctx.instance(f"{rel}::{qual}:binder-closure", sample={"fn": f"{rel}::{qual}", "params": ins, "over": recv})
                where = ctx.where(f, cl["body"])
                m = re.fullmatch(r"\((\w+),(\w+)\)", ins[0]) if ins else None
                if not m or not recv.endswith(".fields.iter().enumerate()"):
                    ctx.report(f"{rel}::{qual}:binder-source", where, f"binders in `{qual}` are not produced from `fields.iter().enumerate()` (got `{recv}` / {ins})", {})
                    continue
                i, fv = m.group(1), m.group(2)
                if f'format_ident!("_{{{i}}}")' not in body.replace(" ", "") and f'format_ident!("_{{}}",{i})' not in body.replace(" ", ""):
                    ctx.report(f"{rel}::{qual}:binder-index", where, f"the positional binder in `{qual}` is not `_{{{i}}}` of the enumerate index", {"body": body[:200]})
                if f"{fv}.ident.clone().unwrap_or_else(" not in body:
                    ctx.report(f"{rel}::{qual}:binder-name", where, f"the named binder in `{qual}` is not the field's own identifier", {})
                if qual == "expand_struct":
                    if f"syn::Member::Unnamed({i}.into())" not in body or "syn::Member::Named" not in body or f"{fv}.ident" not in body:
                        ctx.report(f"{rel}::{qual}:member", where, f"the member read in `{qual}` is not `Member::Unnamed({i})` / `Member::Named(ident)` of the same field", {})
    fn = A.get_fn(ctx.files, MOD, "<syn::Fields as FieldsExt>::fmt_args_idents")
    body = ";".join(A.render_stmt(s) for s in fn.block["stmts"])
    n += 1
    ctx.instance("FieldsExt::fmt_args_idents", sample=body)
    if not re.search(r'self\.iter\(\)\.enumerate\(\)\.map\(\|\((\w+),(\w+)\)\|\2\.ident\.clone\(\)\.unwrap_or_else\(\|\|format_ident!\("_\{\1\}"\)\)\)', body):
        ctx.report("fmt_args_idents", ctx.where(fn.file, fn.node), "`FieldsExt::fmt_args_idents` no longer names fields `ident` / `_{i}` in declaration order: bounds and transparency look fields up under other names than the bodies bind", {"body": body})
    ctx.floor("binder closures", n, 5)


def rule_pointer_deref(ctx):
    """PTR-DEREF: `additional_deref_args` re-binds a field to itself (`name = *name`) exactly for fields named (un-raw) by a `Pointer` placeholder, unless an argument alias of that name exists."""
    fn = A.get_fn(ctx.files, MOD, "FmtAttribute::additional_deref_args")
    f = fn.file
    txt = ";".join(A.render_stmt(s) for s in fn.block["stmts"])
    ctx.instance("additional_deref_args", sample=txt[:300])
    where = ctx.where(f, fn.node)
    if 'placeholder.trait_name=="Pointer"' not in txt or "Parameter::Named(" not in txt:
        ctx.report("deref:pointer-only", where, "the re-binding is no longer restricted to named placeholders formatted with `Pointer`", {})
    if not re.search(r"(\w+)\.unraw\(\)==(\w+)", txt):
        ctx.report("deref:unraw", where, "field names are compared with placeholder names without `unraw()`: a raw-identifier field (`r#type`) named as `{type:p}` is not re-bound, and the address of the reference inside `self` is printed instead of the pointee's", {})
    if not re.search(r"!self\.args\.iter\(\)\.any\(\|(\w+)\|\1\.alias\.as_ref\(\)\.is_some_and\(\|\((\w+),_\)\|\2==&(\w+)\)\)", txt):
        ctx.report("deref:alias", where, "the alias exclusion (`name = expr` argument shadowing the field) is missing or changed", {})
    if "fields.fmt_args_idents()" not in txt:
        ctx.report("deref:fields", where, "re-bound names are not taken from `fields.fmt_args_idents()`", {})
    ts = T.templates_of(fn)
    if len(ts) != 1 or T.ir_text(ts[0].ir).replace(" ", "") != "#field_name=*#field_name".replace("field_name", ts[0].ir[0]["s"] if ts and ts[0].ir and ts[0].ir[0]["t"] == "var" else "field_name"):
        ctx.report("deref:shape", where, "the emitted re-binding is not `#name = *#name`", {})


CASES = {
    "lowercase": "Flat",
    "UPPERCASE": "UpperFlat",
    "PascalCase": "Pascal",
    "camelCase": "Camel",
    "snake_case": "Snake",
    "SCREAMING_SNAKE_CASE": "UpperSnake",
    "kebab-case": "Kebab",
    "SCREAMING-KEBAB-CASE": "UpperKebab",
}


def rule_rename_all(ctx):
    """RENAME: the 8 documented `rename_all` spellings map to the matching convert_case::Case, and the conversion is `name.to_case(case)` applied to the un-raw name without overriding word boundaries."""
    parse = A.get_fn(ctx.files, DISPLAY, "<RenameAllAttribute as Parse>::parse")
    conv = A.get_fn(ctx.files, DISPLAY, "RenameAllAttribute::convert_case")
    f = parse.file
    s2v = {}
    for arm, _ in A.find(parse.block, "Arm"):
        if A.kind(arm["pat"]) == "Pat::Lit":
            s2v[arm["pat"]["lit"]["token"]["value"]] = A.path_last(arm["body"])
    v2c = {}
    for arm, _ in A.find(conv.block, "Arm"):
        v2c[A.render_pat(arm["pat"]).split("::")[-1]] = A.path_last(arm["body"])
    ptxt = ";".join(A.render_stmt(s) for s in parse.block["stmts"])
    norm_ok = ".replace(['-','_'],\"\").to_lowercase()" in ptxt
    for doc, case in CASES.items():
        key = doc.replace("-", "").replace("_", "").lower()
        ctx.instance(f"rename_all:{doc}")
        v = s2v.get(key)
        if v is None or not norm_ok:
            ctx.report(f"rename:{doc}:parse", ctx.where(f, parse.node), f"`rename_all = \"{doc}\"` is not accepted (normalised key `{key}`)", {})
            continue
        if v2c.get(v) != case:
            ctx.report(f"rename:{doc}:case", ctx.where(f, conv.node), f"`rename_all = \"{doc}\"` converts with `Case::{v2c.get(v)}` instead of `Case::{case}`", {})
    st = conv.block["stmts"]
    tail = A.render(st[-1]["0"]) if st and A.kind(st[-1]) == "Stmt::Expr" else "?"
    ctx.instance("rename_all:conversion", sample=tail)
    if tail != "name.to_case(case)":
        ctx.report("rename:conversion", ctx.where(f, conv.node), f"the conversion is `{tail}` instead of `name.to_case(case)`: overriding the source boundaries changes how names containing `_` or digits are split", {})
    # docs list the same eight spellings
    doc = open(f"{ctx.repo}/impl/doc/display.md").read()
    for d in CASES:
        if d not in doc:
            ctx.note(f"impl/doc/display.md does not mention `{d}`")


def _if_conditions(fn, node_span_off):
    """rendered conditions of the `if`s (and which branch) enclosing byte offset `off` inside fn"""
    out = []
    for x, ps in A.walk(fn.block):
        if A.kind(x) != "Expr::If":
            continue
        tb = A.span_of(x["then_branch"])
        eb = A.span_of(x["else_branch"][1]) if x.get("else_branch") else None
        if tb and tb[0] <= node_span_off <= tb[1]:
            out.append((A.render(x["cond"]), True))
        elif eb and eb[0] <= node_span_off <= eb[1]:
            out.append((A.render(x["cond"]), False))
    return out


def rule_transparent_siblings(ctx):
    """TRANSP-SIB: every site that emits an attribute's body (display own attribute, display shared attribute, debug container attribute) first asks `<attr>.transparent_call_on_fields(self.fields)` and only falls back to `write!`; the decision is taken on the bare call result (no extra filter), and the delegation is `derive_more::core::fmt::#trait::fmt(#expr, __derive_more_f)`."""
    n = 0
    for t, mac, grp, seq, i in _write_templates(ctx):
        if mac != "write":
            continue
        if t.fn.qual == "expand_union":
            ctx.instance(f"{t.key()}:write!(union)", nontrivial=False)
            continue
        parts = [x for x in grp["body"] if x["t"] == "var"]
        if not parts:
            continue
        attr = parts[0]["s"]
        aty, _ = TY.var_type_at(ctx, t.fn, attr, parts[0]["span"][0])
        if "FmtAttribute" not in (aty or ""):
            continue
        n += 1
        off = A.span_of(t.node["path"])[0]
        conds = _if_conditions(t.fn, off)
        construct = f"{t.key()}:write!(#{attr})"
        ctx.instance(construct, sample={"site": construct, "conditions": conds})
        want = f"let Some((expr,trait_ident))={attr}.transparent_call_on_fields(self.fields)"
        neg = [c for c, br in conds if not br]
        if not any(re.fullmatch(r"let Some\(\((\w+),(\w+)\)\)=%s\.transparent_call_on_fields\(self\.fields\)" % re.escape(attr), c) for c in neg):
            odd = [c for c, br in conds if "transparent_call" in c]
            ctx.report(
                construct + ":not-fallback",
                f"{t.file.rel}:{t.line}",
                f"`write!(.., #{attr}, ..)` in `{t.fn.qual}` is not the plain else-branch of `if let Some(..) = {attr}.transparent_call_on_fields(self.fields)`"
                + (f" (found `{odd[0]}`)" if odd else "")
                + ": a bare-placeholder attribute is expanded through write!, which drops the caller's width/precision/flags, or the transparency decision is filtered by an extra condition",
                {"conditions": conds},
            )
        extra = [c for c, br in conds if "transparent_call" not in c and c not in ("shared_attr_is_wrapping", "wrap_into_shared_attr")]
        extra = [c for c in extra if not c.startswith("let Some(")]
        if extra:
            ctx.report(construct + ":extra-condition", f"{t.file.rel}:{t.line}", f"the write!/delegate choice for `#{attr}` in `{t.fn.qual}` additionally depends on {extra}", {})
    ctx.floor("write! sites with a FmtAttribute", n, 3)
    # delegation shape
    m = 0
    for rel in (DISPLAY, DEBUG):
        for fn in A.functions(ctx.files[rel]):
            for t in T.templates_of(fn):
                tx = T.ir_text(t.ir).replace(" ", "")
                if "::fmt(" in tx and "__derive_more_f)" in tx and "write!" not in tx and "implderive" not in tx.replace("#impl_gens", "").replace("impl#", "impl"):
                    if tx.startswith("#"):
                        continue
                    if "fnfmt(" in tx:
                        continue
                    m += 1
                    ctx.instance(f"{t.key()}:delegate", sample=tx)
                    if not re.fullmatch(r"derive_more::core::fmt::#(\w+)::fmt\(#(\w+),__derive_more_f\)", tx):
                        ctx.report(f"{t.key()}:delegate-shape", f"{rel}:{t.line}", f"delegation in `{fn.qual}` is `{tx}`, expected `derive_more::core::fmt::#trait::fmt(#expr, __derive_more_f)`", {})
    ctx.floor("delegation templates", m, 4)
