"""Decision code of the fmt derives: C02 (verbatim hand-over), C04 (bounds), C05 (transparency), C07 (shared attr)."""
import re

from .. import ast as A
from .. import tpl as T
from .. import types as TY

MOD = "impl/src/fmt/mod.rs"
PARSING = "impl/src/fmt/parsing.rs"
DISPLAY = "impl/src/fmt/display.rs"
DEBUG = "impl/src/fmt/debug.rs"


def formatter_name(ctx, rel):
    """name of the formatter parameter the generated `fn fmt(&self, <name>: &mut ..Formatter<'_>)` declares (role, not spelling)"""
    for fn in A.functions(ctx.files[rel]):
        for t in T.templates_of(fn):
            m = re.search(r"fnfmt\(&self,(\w+):&mutderive_more::core::fmt::Formatter<'_>\)", T.ir_text(t.ir).replace(" ", ""))
            if m:
                return m.group(1)
    raise A.AnchorLost(f"{rel}", "generated `fn fmt(&self, <f>: &mut Formatter)` not found")


def struct_fields(ctx, rel, name):
    it = A.get_item(ctx.files, rel, "Item::Struct", name)
    flds = it["fields"]
    if "0" in flds:
        flds = flds["0"]
    return [x["ident"]["sym"] for x in flds["named"]]


def or_terms(e):
    e = A.peel(e) if A.kind(e) in ("Expr::Paren", "Expr::Group") else e
    if A.kind(e) == "Expr::Binary" and A.kind(e["op"]) == "BinOp::Or":
        return or_terms(e["left"]) + or_terms(e["right"])
    return [e]


def impl_methods(ctx, rel, ty):
    return {fn.name: fn for fn in A.functions(ctx.files[rel]) if fn.self_ty == ty and fn.trait_ is None}


def modifier_terms(ctx, expr, var, depth=0):
    """[(field, test)] read by an `||` chain over the FormatSpec bound to `var`"""
    out = []
    for t in or_terms(expr):
        r = A.render(t)
        m = re.fullmatch(r"%s\.(\w+)\.is_some\(\)" % re.escape(var), r)
        if m:
            out.append((m.group(1), "is_some"))
            continue
        m = re.fullmatch(r"!%s\.(\w+)\.is_trivial\(\)" % re.escape(var), r)
        if m:
            out.append((m.group(1), "nontrivial"))
            continue
        m = re.fullmatch(r"%s\.(\w+)\(\)" % re.escape(var), r)
        if m and depth < 3:
            meths = impl_methods(ctx, PARSING, "FormatSpec")
            if m.group(1) in meths:
                fn = meths[m.group(1)]
                st = fn.block["stmts"]
                if len(st) == 1 and A.kind(st[0]) == "Stmt::Expr":
                    out.extend(modifier_terms(ctx, st[0]["0"], "self", depth + 1))
                    continue
        fm = re.match(r"!?%s\.(\w+)" % re.escape(var), r)
        out.append((fm.group(1) if fm else "?", "other:" + r))
    return out


def find_modifier_predicates(ctx, fn):
    """expressions in `fn` that decide 'has modifiers' from a FormatSpec: closures over the spec whose body is
    an `||` chain of `.is_some()` tests, or calls of a bool method of FormatSpec on it"""
    res = []
    for cl, ps in A.find(fn.block, "Expr::Closure"):
        if len(cl["inputs"]) != 1:
            continue
        ids = A.pat_idents(cl["inputs"][0])
        if len(ids) != 1:
            continue
        v = ids[0]
        body = cl["body"]
        while A.kind(body) == "Expr::Block" and len(body["block"]["stmts"]) == 1 and A.kind(body["block"]["stmts"][0]) == "Stmt::Expr":
            body = body["block"]["stmts"][0]["0"]
        terms = or_terms(body)
        rs = [A.render(t) for t in terms]
        if any(re.fullmatch(r"!?%s\.\w+\.(is_some|is_trivial)\(\)" % re.escape(v), r) for r in rs) and (len(terms) > 1 or ".is_some()" in rs[0]):
            # must be applied to a spec
            mc = next((q for q in reversed(ps) if A.kind(q) == "Expr::MethodCall" and any(a is cl for a in q["args"])), None)
            if mc is not None and ".spec" in A.render(mc["receiver"]):
                res.append((body, v))
                continue
        r0 = A.render(body)
        m = re.fullmatch(r"%s\.(\w+)\(\)" % re.escape(v), r0)
        if m and m.group(1) in impl_methods(ctx, PARSING, "FormatSpec") and m.group(1) not in ("clone",):
            mc = next((q for q in reversed(ps) if A.kind(q) == "Expr::MethodCall" and any(a is cl for a in q["args"])), None)
            if mc is not None and ".spec" in A.render(mc["receiver"]) and mc["method"]["sym"] in ("map", "is_some_and", "map_or"):
                meth = impl_methods(ctx, PARSING, "FormatSpec")[m.group(1)]
                if "bool" in A.render_type(meth.sig["output"]["1"]) if A.kind(meth.sig["output"]) == "ReturnType::Type" else False:
                    res.append((body, v))
    # `.spec.map(FormatSpec::has_modifiers)` / `.is_some_and(FormatSpec::has_modifiers)`
    for mc, ps in A.method_calls(fn.block, ("map", "is_some_and", "map_or", "is_none_or")):
        if ".spec" not in A.render(mc["receiver"]):
            continue
        for a in mc["args"]:
            if A.kind(a) == "Expr::Path":
                nm = A.path_last(a)
                meths = impl_methods(ctx, PARSING, "FormatSpec")
                if nm in meths:
                    st = meths[nm].block["stmts"]
                    if len(st) == 1 and A.kind(st[0]) == "Stmt::Expr":
                        res.append((st[0]["0"], "self"))
                else:
                    # a named function / associated function taking the spec (a closure turned into a fn)
                    cands = [g for rel_ in (MOD, PARSING) for g in A.functions(ctx.files[rel_]) if g.name == nm and g.block is not None]
                    if len(cands) == 1:
                        g = cands[0]
                        prm = [A.pat_idents(p_["0"]["pat"]) for p_ in g.node["sig"]["inputs"] if A.kind(p_) == "FnArg::Typed"]
                        st = g.block["stmts"]
                        if len(prm) == 1 and len(prm[0]) == 1 and len(st) == 1 and A.kind(st[0]) == "Stmt::Expr":
                            res.append((st[0]["0"], prm[0][0]))
    return res


def rule_dec_cover(ctx):
    """DEC-COVER: wherever 'this placeholder has formatting modifiers' is decided (FmtAttribute::transparent_call, Placeholder::parse_fmt_string) every field of parsing::FormatSpec except `ty` is tested with `.is_some()` and `ty` through `!is_trivial()`: a dropped or weakened term makes e.g. `{:+}` / `{:-}` a transparent delegation that the caller's flags override."""
    fields = struct_fields(ctx, PARSING, "FormatSpec")
    if "ty" not in fields or len(fields) < 7:
        raise A.AnchorLost(f"{PARSING}::FormatSpec", f"fields {fields}")
    want = {(f, "is_some") for f in fields if f != "ty"} | {("ty", "nontrivial")}
    for qual in ("FmtAttribute::transparent_call", "Placeholder::parse_fmt_string"):
        fn = A.get_fn(ctx.files, MOD, qual)
        preds = find_modifier_predicates(ctx, fn)
        if not preds:
            raise A.AnchorLost(f"{MOD}::{qual}", "no modifier predicate over `.spec` found")
        for body, v in preds:
            got = set(modifier_terms(ctx, body, v))
            ctx.instance(f"{qual}:modifier-predicate", sample={"fn": qual, "terms": sorted(got)})
            for miss in sorted(want - got):
                odd = [g for g in got if g[0] == miss[0]]
                ctx.report(
                    f"{qual}:modifier:{miss[0]}",
                    ctx.where(fn.file, body),
                    f"`{qual}` decides 'has modifiers' without testing `{miss[0]}` with `{'.is_some()' if miss[1] == 'is_some' else '!is_trivial()'}`"
                    + (f" (found `{odd[0][1]}`)" if odd else "")
                    + ": a placeholder carrying only that modifier is treated as bare, so the derive delegates transparently and the caller's flags replace it",
                    {"terms": sorted(got)},
                )


def rule_transparent_call(ctx):
    """TRANSP: FmtAttribute::transparent_call is transparent only for exactly one placeholder (`more.is_empty()`), and a positional index must denote the single argument: the integer of `Argument::Integer(..)` is constrained (literal 0 or compared), never ignored; named placeholders need the alias to equal the name; the delegated trait is the placeholder's own (`ty.trait_name()`)."""
    fn = A.get_fn(ctx.files, MOD, "FmtAttribute::transparent_call")
    f = fn.file
    # (1) exactly one placeholder
    ok = False
    for c, ps in A.calls(fn.block, lambda p: p.endswith("parsing::format") or p == "format"):
        # the `more`/rest binding must flow into is_empty()
        chain = next((q for q in reversed(ps) if A.kind(q) == "Expr::MethodCall" and q["method"]["sym"] == "and_then"), None)
        if chain is not None:
            for cl in chain["args"]:
                if A.kind(cl) == "Expr::Closure":
                    ids = A.pat_idents(cl["inputs"][0])
                    body = A.render(cl["body"])
                    if ids and re.search(r"\b%s\.is_empty\(\)" % re.escape(ids[0]), body):
                        ok = True
    ctx.instance("transparent_call:single-placeholder")
    if not ok:
        ctx.report("transparent:rest-not-checked", ctx.where(f, fn.node), "`transparent_call` no longer requires the literal to consist of exactly one placeholder (rest `.is_empty()`): text or further placeholders around it would be dropped by the delegation", {})
    # (2) the positional payload
    m = None
    for mt, _ in A.find(fn.block, "Expr::Match"):
        if ".arg" in A.render(mt["expr"]):
            m = mt
    if m is None:
        raise A.AnchorLost(f"{MOD}::FmtAttribute::transparent_call", "match on the placeholder's argument not found")
    n_int = 0
    als = A.aliases(fn, allow_closures=True)
    for arm in m["arms"]:
        pr = A.render_pat(arm["pat"])
        for tsp, _ in A.find(arm["pat"], "Pat::TupleStruct"):
            if A.path_last(tsp["path"]) != "Integer":
                continue
            n_int += 1
            el = tsp["elems"][0]
            k = A.kind(el)
            ctx.instance("transparent_call:Argument::Integer", sample={"pattern": pr})
            okp = False
            if A.render(A.unblock(arm["body"])) == "None":
                okp = True  # this index is declared non-transparent
            elif k == "Pat::Lit" and A.render_lit(el["lit"]) == "0":
                okp = True
            elif k == "Pat::Ident":
                v = el["ident"]["sym"]
                used = v in A.idents_used(arm["body"]) or (arm.get("guard") and v in A.idents_used(arm["guard"][1]))
                okp = bool(used)
            if not okp:
                ctx.report(
                    "transparent:integer-ignored",
                    ctx.where(f, arm["pat"]),
                    f"`transparent_call` matches `{pr}` and ignores the index: `{{1}}` with a single argument is delegated to that argument although "
                    "index 1 does not denote it (std rejects the literal: the derive must fall back to `write!` and fail to compile)",
                    {},
                )
        body = A.inline_text(A.render(A.unblock(arm["body"])), als)
        if ("Integer" in pr or pr == "None" or "None" in pr.split("|")) and body != "None":
            ctx.instance("transparent_call:positional-arm")
            if "self.args.len()==1" not in body:
                ctx.report("transparent:positional-arity", ctx.where(f, arm["pat"]), "positional transparent call no longer requires exactly one argument (`self.args.len() == 1`)", {})
            # a positional placeholder denotes its argument by position: whether that argument also carries a name
            # (`"{}", value = _0` is valid for format_args!) must not enter the decision
            bx = body
            for hc, _ in A.calls(arm["body"]):
                hn = A.path_str(hc["func"]) or ""
                hn = hn[6:] if hn.startswith("Self::") else hn
                if hn and "::" not in hn:
                    hf = [g_ for g_ in A.functions(f) if g_.name == hn and g_.block is not None]
                    if len(hf) == 1:
                        bx += " " + A.fn_text(hf[0])
            if re.search(r"\.alias\b|\balias\(\)", bx):
                ctx.report(
                    "transparent:positional-alias",
                    ctx.where(f, arm["pat"]),
                    "the positional arm of `transparent_call` looks at the argument's *alias*: `#[display(\"{}\", value = _0)]` (one named argument used positionally, as format_args! allows) "
                    "is no longer delegated to the argument, so the caller's width / precision / flags are silently dropped (`{:>5}` prints `7`)",
                    {"arm": body[:300]},
                )
        if "Identifier" in pr:
            g = A.render(arm["guard"][1]) if arm.get("guard") else ""
            ctx.instance("transparent_call:named-arm", sample={"pattern": pr, "guard": g})
            if "self.args.is_empty()" in g:
                # a bare `{name}` with no arguments always refers to an outer binding: the arm is total
                if not re.fullmatch(r'Some\(format_ident!\("\{\}",(\w+)\)\.into\(\)\)', body):
                    ctx.report(
                        "transparent:named-outer-binding",
                        ctx.where(f, arm["pat"]),
                        f"for a bare `{{name}}` without arguments `transparent_call` yields `{body}` instead of the unconditional `Some(format_ident!(\"{{name}}\").into())`: "
                        "names that do not survive the new construction (e.g. keywords of raw-identifier fields, `{type}`) silently lose transparency and the caller's flags",
                        {},
                    )
                continue
            if "self.args.len()==1" not in body or ".alias" not in body:
                ctx.report("transparent:named-arity", ctx.where(f, arm["pat"]), "named transparent call no longer requires exactly one argument whose alias equals the placeholder's name", {})
    if n_int == 0:
        raise A.AnchorLost(f"{MOD}::FmtAttribute::transparent_call", "no `Argument::Integer(..)` pattern")
    txt = ";".join(A.render_stmt(s) for s in fn.block["stmts"])
    ctx.instance("transparent_call:trait")
    if ".trait_name()" not in txt or "parsing::Type::Display" not in txt:
        ctx.report("transparent:trait", ctx.where(f, fn.node), "the delegated trait is no longer the placeholder's own type (`ty.trait_name()`, `Display` when absent)", {})


def _fields_arg(ctx, fn):
    """(regex alternative for 'the fields of the item being expanded' inside `fn`, number of places it stands for):
    `self.fields`, or - in a helper of FmtAttribute that takes the fields as a parameter - that parameter, provided every
    call of the helper in the fmt derives passes `self.fields` there"""
    alt, sites = r"self\.fields", 1
    if fn.file.rel != MOD:
        return alt, sites
    prm = [x for p_ in fn.node["sig"]["inputs"] if A.kind(p_) == "FnArg::Typed" for x in [A.pat_idents(p_["0"]["pat"])]]
    calls = []
    for rel in (DISPLAY, DEBUG, MOD):
        for g in A.functions(ctx.files[rel]):
            if g.block is None or g is fn:
                continue
            for mc, _ in A.method_calls(g.block, fn.name):
                calls.append((g, mc))
    for i_, ns in enumerate(prm):
        if len(ns) == 1 and calls and all(i_ < len(mc["args"]) and re.fullmatch(r"&?self\.fields", A.render(mc["args"][i_])) for _, mc in calls):
            return r"(?:self\.fields|%s)" % re.escape(ns[0]), len(calls)
    return alt, sites


def _write_templates(ctx):
    """templates in fmt/ that hand a FmtAttribute to write!/format_args!"""
    out = []
    for rel in (DISPLAY, DEBUG, MOD):
        for fn in A.functions(ctx.files[rel]):
            for t in T.templates_of(fn):
                for seq, i, x, parents in T.ir_walk(t.ir):
                    if x["t"] == "id" and x["s"] in ("write", "format_args") and i + 2 < len(seq) and seq[i + 1]["t"] == "p" and seq[i + 1]["c"] == "!" and seq[i + 2]["t"] == "grp":
                        out.append((t, x["s"], seq[i + 2], seq, i))
    return out


def rule_tpl_verb(ctx):
    """TPL-VERB: every template that calls `derive_more::core::{write,format_args}!` passes `[formatter,] #attr [, #(#deref_args),*]` and nothing else, with `attr` a FmtAttribute (literal and user arguments verbatim, in order) and `deref_args` = `attr.additional_deref_args(fields)` of the same attribute; FmtAttribute/FmtArgument/Expr re-emit every token-bearing field in declaration order."""
    sites = _write_templates(ctx)
    for t, mac, grp, seq, i in sites:
        body = grp["body"]
        # split on top-level commas
        parts = [[]]
        for x in body:
            if x["t"] == "p" and x["c"] == ",":
                parts.append([])
            else:
                parts[-1].append(x)
        parts = [p for p in parts if p]
        construct = f"{t.key()}:{mac}!({T.ir_text(body)})"
        ctx.instance(construct, sample={"fn": t.key(), "macro": mac, "args": T.ir_text(body)})
        where = f"{t.file.rel}:{t.file.line(grp['span'][0])}"
        idx = 0
        if mac == "write":
            fname = formatter_name(ctx, t.file.rel if t.file.rel != MOD else DISPLAY)
            if not (parts and len(parts[0]) == 1 and parts[0][0]["t"] == "id" and parts[0][0]["s"] == fname):
                ctx.report(f"{t.key()}:{mac}:formatter", where, "write! is not given the impl's own formatter parameter first", {})
            idx = 1
        if idx >= len(parts) or len(parts[idx]) != 1 or parts[idx][0]["t"] != "var":
            ctx.report(f"{t.key()}:{mac}:attr", where, f"`{mac}!` in `{t.fn.qual}` does not take the attribute as one verbatim interpolation: `{T.ir_text(body)}`", {})
            continue
        attr = parts[idx][0]
        aty, ab = TY.var_type_at(ctx, t.fn, attr["s"], attr["span"][0])
        aty = aty or ""
        is_attr = "FmtAttribute" in aty
        rest = parts[idx + 1 :]
        if is_attr:
            okrest = len(rest) == 0 or (len(rest) == 1 and len(rest[0]) == 1 and rest[0][0]["t"] == "rep" and len(rest[0][0]["body"]) == 1 and rest[0][0]["body"][0]["t"] == "var")
            if not okrest:
                ctx.report(f"{t.key()}:{mac}:extra-args", where, f"`{mac}!(.. #{attr['s']} ..)` in `{t.fn.qual}` passes something besides the attribute and its deref arguments: `{T.ir_text(body)}`", {})
                continue
            if rest:
                dv = rest[0][0]["body"][0]
                b = TY.resolve(t.fn, dv["s"], dv["span"][0])
                init = A.render(b["init"]) if b and b.get("init") is not None else "?"
                want = re.fullmatch(r"(\w+)\.additional_deref_args\(%s\)" % _fields_arg(ctx, t.fn)[0], init)
                abind = TY.resolve(t.fn, attr["s"], attr["span"][0])
                if not want or want.group(1) != attr["s"]:
                    ctx.report(
                        f"{t.key()}:{mac}:deref-args",
                        where,
                        f"the extra arguments of `{mac}!(#{attr['s']}, ..)` in `{t.fn.qual}` are `{init}`, not `{attr['s']}.additional_deref_args(self.fields)` of the same attribute",
                        {},
                    )
        else:
            # the default placeholder of a wrapped single-field variant: literal from the trait table + the field binder
            lit_ok = "str" in aty
            if not lit_ok or len(rest) != 1 or len(rest[0]) != 1 or rest[0][0]["t"] != "var":
                ctx.report(f"{t.key()}:{mac}:non-attr", where, f"`{mac}!` in `{t.fn.qual}` formats `#{attr['s']}: {aty}` which is neither a FmtAttribute nor the default placeholder literal with the single field", {})
    ctx.floor("write!/format_args! templates", len(sites), 8)
    # ToTokens impls
    for rel, ty, want in ((MOD, "FmtAttribute", None), (MOD, "FmtArgument", None), ("impl/src/parsing.rs", "Expr", None)):
        fns = [fn for fn in A.functions(ctx.files[rel]) if fn.self_ty == ty and fn.trait_ == "ToTokens" and fn.name == "to_tokens"]
        if len(fns) != 1:
            raise A.AnchorLost(f"{rel}::<{ty} as ToTokens>::to_tokens", f"{len(fns)} impls")
        fn = fns[0]
        ctx.instance(f"ToTokens:{ty}")
        if ty == "Expr":
            # every variant forwards its payload
            arms = [a for a, _ in A.find(fn.block, "Arm")]
            for a in arms:
                if ".to_tokens(tokens)" not in A.render(a["body"]):
                    ctx.report(f"ToTokens:{ty}:arm", ctx.where(fn.file, a["pat"]), f"`{ty}::to_tokens` arm `{A.render_pat(a['pat'])}` does not re-emit its tokens", {})
            continue
        fields = struct_fields(ctx, rel, ty)
        emitted = []
        for mc, _ in A.method_calls(fn.block, "to_tokens"):
            r = A.render(mc["receiver"])
            m = re.fullmatch(r"self\.(\w+)", r)
            emitted.append((A.span_of(mc)[0], m.group(1) if m else r))
        emitted = [e for _, e in sorted(emitted)]
        if ty == "FmtArgument":
            ok = emitted == ["ident", "eq", "expr"]
        else:
            ok = emitted == fields
        if not ok:
            ctx.report(f"ToTokens:{ty}", ctx.where(fn.file, fn.node), f"`{ty}::to_tokens` emits {emitted}; every field {fields} must be re-emitted once, in order", {})


def rule_expansion_pair(ctx):
    """PAIR: every `Expansion { .. }` built by the fmt derives (per struct, per variant) is asked for its body *and* its bounds, both unconditionally in the block that built it: `generate_bounds()` is also the only place where the user's `bound(..)` predicates enter the where-clause, so skipping it for some shape of variant (no fields) silently drops them."""
    n = 0
    for rel in (DISPLAY, DEBUG):
        for fn in A.functions(ctx.files[rel]):
            if fn.block is None:
                continue
            for st, ps in A.find(fn.block, "Stmt::Local"):
                init = st.get("init")
                if not init or A.kind(init["expr"]) != "Expr::Struct" or A.path_last(init["expr"]["path"]) != "Expansion":
                    continue
                names = A.pat_idents(st["pat"])
                if len(names) != 1:
                    continue
                v = names[0]
                blk = next((p for p in reversed(ps) if A.kind(p) == "Block"), None)
                if blk is None:
                    continue
                n += 1
                after = blk["stmts"][blk["stmts"].index(st) + 1 :]
                got = {}
                for meth in ("generate_body", "generate_bounds"):
                    uncond = False
                    for s2 in after:
                        for mc, ps2 in A.find(s2, "Expr::MethodCall"):
                            if mc["method"]["sym"] == meth and A.render(mc["receiver"]) == v:
                                # nothing conditional between the statement and the call
                                if not any(A.kind(p) in ("Expr::If", "Expr::Match", "Expr::Closure", "Expr::While", "Expr::ForLoop") for p in ps2):
                                    uncond = True
                    got[meth] = uncond
                ctx.instance(f"{rel}::{fn.qual}:pair:{v}", sample={"fn": f"{rel}::{fn.qual}", "expansion": v, "unconditional": got})
                for meth, ok in got.items():
                    if not ok:
                        ctx.report(
                            f"{rel}::{fn.qual}:pair:{meth}",
                            ctx.where(fn.file, st),
                            f"`{fn.qual}` builds an `Expansion` (`{v}`) but does not call `{v}.{meth}()` unconditionally: "
                            + ("the where-predicates of such items - the user's own `#[display(bound(..))]` included - are dropped for the shapes that skip it" if meth == "generate_bounds" else "some shapes get no body"),
                            {},
                        )
    ctx.floor("Expansion literals", n, 4)


def rule_attr_separator(ctx):
    """SEP-END: the templates hand `#attr` to `write!` / `format_args!` followed by `, <more arguments>`; so the tokens a FmtAttribute re-emits must never *end* in a separator. Its parser therefore drops a trailing comma after the last argument (`args.pop_punct()`) *and* the comma after the literal when no argument follows (`"lit",`), or ToTokens emits that comma only together with arguments. Otherwise `#[display("lit",)]` - a trailing comma, which `format!` accepts - expands to `write!(f, "lit", , )`."""
    pf = A.get_fn(ctx.files, MOD, "<FmtAttribute as Parse>::parse")
    tf = A.get_fn(ctx.files, MOD, "<FmtAttribute as ToTokens>::to_tokens")
    pt, tt = A.fn_text(pf), A.fn_text(tf)
    fields = struct_fields(ctx, MOD, "FmtAttribute")
    ctx.instance("sep:fields", sample=fields)
    if fields != ["lit", "comma", "args"]:
        raise A.AnchorLost(f"{MOD}::FmtAttribute", f"fields {fields}")
    ctx.instance("sep:args-trailing")
    if A.wsearch(pt, "parsed.args.pop_punct()") is None:
        ctx.report("sep:args-trailing", ctx.where(pf.file, pf.node), "the parser no longer drops the trailing comma after the last argument: `#[display(\"{}\", x,)]` expands to `write!(f, \"{}\", x, , ..)`", {})
    ctx.instance("sep:literal-comma")
    cleared = A.wsearch(pt, "if parsed.args.is_empty(){parsed.comma=None}") is not None or A.wsearch(pt, "if parsed.args.is_empty(){parsed.comma.take()") is not None
    conditional = A.wsearch(tt, "if !self.args.is_empty(){self.comma.to_tokens(tokens)") is not None
    if not (cleared or conditional):
        ctx.report(
            "sep:literal-comma",
            ctx.where(pf.file, pf.node),
            "a comma after the literal is kept (and re-emitted) even when no argument follows: `#[display(\"lit\",)]` / `#[debug(\"lit\",)]` - a trailing comma, which `format!(\"lit\",)` accepts - expands to `write!(f, \"lit\", , )` and does not compile",
            {"parse": pt[-260:], "to_tokens": tt},
        )


def rule_binder_align(ctx):
    """IDX-ALIGN(fmt): the name a field is bound under (`ident` or `_{i}`) and the member it is read from (`self.<ident>` / `self.<i>`) come from the same `(i, f)` of one `.enumerate()` over the fields; enum matchers list the binders in field order; `FieldsExt::fmt_args_idents` (the reader side) uses the identical scheme."""
    n = 0
    for rel in (DISPLAY, DEBUG):
        for qual in ("expand_struct", "expand_enum"):
            fn = A.get_fn(ctx.files, rel, qual)
            f = fn.file
            for cl, ps in A.find(fn.block, "Expr::Closure"):
                body = A.render(cl["body"])
                if "format_ident!" not in body or "_{" not in body:
                    continue
                ins = [A.render_pat(p) for p in cl["inputs"]]
                if len(ins) != 1 or not re.fullmatch(r"\((\w+),(\w+)\)", ins[0]):
                    continue
                mc = next((q for q in reversed(ps) if A.kind(q) == "Expr::MethodCall" and any(a is cl for a in q["args"])), None)
                recv = A.render(mc["receiver"]) if mc else "?"
                n += 1
                ctx.instance(f"{rel}::{qual}:binder-closure", sample={"fn": f"{rel}::{qual}", "params": ins, "over": recv})
                where = ctx.where(f, cl["body"])
                m = re.fullmatch(r"\((\w+),(\w+)\)", ins[0]) if ins else None
                if not m or not recv.endswith(".fields.iter().enumerate()"):
                    ctx.report(f"{rel}::{qual}:binder-source", where, f"binders in `{qual}` are not produced from `fields.iter().enumerate()` (got `{recv}` / {ins})", {})
                    continue
                i, fv = m.group(1), m.group(2)
                if f'format_ident!("_{{}}",{i})' not in body.replace(" ", ""):
                    ctx.report(f"{rel}::{qual}:binder-index", where, f"the positional binder in `{qual}` is not `_{{{i}}}` of the enumerate index", {"body": body[:200]})
                if f"{fv}.ident.clone().unwrap_or_else(" not in body:
                    ctx.report(f"{rel}::{qual}:binder-name", where, f"the named binder in `{qual}` is not the field's own identifier", {})
                if qual == "expand_struct":
                    if f"syn::Member::Unnamed({i}.into())" not in body or "syn::Member::Named" not in body or f"{fv}.ident" not in body:
                        ctx.report(f"{rel}::{qual}:member", where, f"the member read in `{qual}` is not `Member::Unnamed({i})` / `Member::Named(ident)` of the same field", {})
            # the shared helper instead of an own closure: `x.fields.fmt_args_idents()` (checked below to use the same scheme)
            for mc_, _ in A.method_calls(fn.block, "fmt_args_idents"):
                if A.render(mc_["receiver"]).endswith(".fields"):
                    n += 1
                    ctx.instance(f"{rel}::{qual}:binder-helper", sample={"fn": f"{rel}::{qual}", "over": A.render(mc_["receiver"])})
    # enum matchers: the complete binder list, in order, for both variant shapes (a positional pattern binding only a
    # subset of the fields, `Self::V(_1, ..)`, binds `_1` to the *first* field)
    for rel in (DISPLAY, DEBUG):
        fn = A.get_fn(ctx.files, rel, "expand_enum")
        f = fn.file
        ctx.instance(f"{rel}::expand_enum:matcher")
        binder = None
        for loc, _ in A.find(fn.block, "Stmt::Local"):
            init = loc.get("init")
            if not init:
                continue
            r = A.render(init["expr"])
            if ("format_ident!" in r and "_{" in r) or re.fullmatch(r"\w+\.fields\.fmt_args_idents\(\)", r):
                binder = (A.render_pat(loc["pat"]), r, loc)
        tt = [T.ir_text(t.ir).replace(" ", "") for t in T.templates_of(fn, composed=True)]
        pats = [x for x in tt if x.startswith("Self::#")]
        if binder is None or not re.fullmatch(r"\w+", binder[0]) or not re.fullmatch(r"\w+\.fields\.iter\(\)\.enumerate\(\)\.map\(.*\)|\w+\.fields\.fmt_args_idents\(\)", binder[1]):
            ctx.report(
                f"{rel}::expand_enum:matcher-binders",
                ctx.where(f, (binder[2] if binder else fn.node)),
                "the match-arm pattern of `expand_enum` no longer binds the complete field list produced by one `variant.fields.iter().enumerate().map(..)`: "
                "a positional pattern that lists only some fields (`Self::V(_1, ..)`) binds `_1` to the first field, so the body formats a neighbour of the intended field",
                {"binder": binder[:2] if binder else None, "patterns": pats},
            )
            continue
        b = binder[0]
        want = {f"Self::#ident{{#(#{b}),*}}", f"Self::#ident(#(#{b}),*)", "Self::#ident"}
        if set(pats) != want:
            ctx.report(
                f"{rel}::expand_enum:matcher-shape",
                ctx.where(f, binder[2]),
                f"the match-arm patterns of `expand_enum` are {sorted(pats)}; each variant shape must list every binder of `{b}` once, in order ({sorted(want)})",
                {},
            )
    fn = A.get_fn(ctx.files, MOD, "<syn::Fields as FieldsExt>::fmt_args_idents")
    body = ";".join(A.render_stmt(s) for s in fn.block["stmts"])
    n += 1
    ctx.instance("FieldsExt::fmt_args_idents", sample=body)
    if not re.search(r'self\.iter\(\)\.enumerate\(\)\.map\(\|\((\w+),(\w+)\)\|\2\.ident\.clone\(\)\.unwrap_or_else\(\|\|format_ident!\("_\{\}",\1\)\)\)', body):
        ctx.report("fmt_args_idents", ctx.where(fn.file, fn.node), "`FieldsExt::fmt_args_idents` no longer names fields `ident` / `_{i}` in declaration order: bounds and transparency look fields up under other names than the bodies bind", {"body": body})
    ctx.floor("binder closures", n, 5)


def rule_pointer_deref(ctx):
    """PTR-DEREF: `additional_deref_args` re-binds a field to itself (`name = *name`) exactly for fields named (un-raw) by a `Pointer` placeholder, unless an argument alias of that name exists."""
    fn = A.get_fn(ctx.files, MOD, "FmtAttribute::additional_deref_args")
    f = fn.file
    txt = ";".join(A.render_stmt(s) for s in fn.block["stmts"])
    ctx.instance("additional_deref_args", sample=txt[:300])
    where = ctx.where(f, fn.node)
    if 'placeholder.trait_name=="Pointer"' not in txt or "Parameter::Named(" not in txt:
        ctx.report("deref:pointer-only", where, "the re-binding is no longer restricted to named placeholders formatted with `Pointer`", {})
    if not re.search(r"(\w+)\.unraw\(\)==(\w+)", txt):
        ctx.report("deref:unraw", where, "field names are compared with placeholder names without `unraw()`: a raw-identifier field (`r#type`) named as `{type:p}` is not re-bound, and the address of the reference inside `self` is printed instead of the pointee's", {})
    if not re.search(r"!self\.args\.iter\(\)\.any\(\|(\w+)\|\1\.alias\.as_ref\(\)\.is_some_and\(\|\((\w+),_\)\|\2==&(\w+)\)\)", txt):
        ctx.report("deref:alias", where, "the alias exclusion (`name = expr` argument shadowing the field) is missing or changed", {})
    if "fields.fmt_args_idents()" not in txt:
        ctx.report("deref:fields", where, "re-bound names are not taken from `fields.fmt_args_idents()`", {})
    ts = T.templates_of(fn)
    if len(ts) != 1 or T.ir_text(ts[0].ir).replace(" ", "") != "#field_name=*#field_name".replace("field_name", ts[0].ir[0]["s"] if ts and ts[0].ir and ts[0].ir[0]["t"] == "var" else "field_name"):
        ctx.report("deref:shape", where, "the emitted re-binding is not `#name = *#name`", {})


CASES = {
    "lowercase": "Flat",
    "UPPERCASE": "UpperFlat",
    "PascalCase": "Pascal",
    "camelCase": "Camel",
    "snake_case": "Snake",
    "SCREAMING_SNAKE_CASE": "UpperSnake",
    "kebab-case": "Kebab",
    "SCREAMING-KEBAB-CASE": "UpperKebab",
}


def rule_rename_all(ctx):
    """RENAME: the 8 documented `rename_all` spellings map to the matching convert_case::Case, and the conversion is `name.to_case(case)` applied to the un-raw name without overriding word boundaries."""
    parse = A.get_fn(ctx.files, DISPLAY, "<RenameAllAttribute as Parse>::parse")
    conv = A.get_fn(ctx.files, DISPLAY, "RenameAllAttribute::convert_case")
    f = parse.file
    s2v = {}
    for arm, _ in A.find(parse.block, "Arm"):
        if A.kind(arm["pat"]) == "Pat::Lit":
            s2v[arm["pat"]["lit"]["token"]["value"]] = A.path_last(arm["body"])
    v2c = {}
    for arm, _ in A.find(conv.block, "Arm"):
        v2c[A.render_pat(arm["pat"]).split("::")[-1]] = A.path_last(arm["body"])
    ptxt = ";".join(A.render_stmt(s) for s in parse.block["stmts"])
    norm_ok = ".replace(['-','_'],\"\").to_lowercase()" in ptxt
    for doc, case in CASES.items():
        key = doc.replace("-", "").replace("_", "").lower()
        ctx.instance(f"rename_all:{doc}")
        v = s2v.get(key)
        if v is None or not norm_ok:
            ctx.report(f"rename:{doc}:parse", ctx.where(f, parse.node), f"`rename_all = \"{doc}\"` is not accepted (normalised key `{key}`)", {})
            continue
        if v2c.get(v) != case:
            ctx.report(f"rename:{doc}:case", ctx.where(f, conv.node), f"`rename_all = \"{doc}\"` converts with `Case::{v2c.get(v)}` instead of `Case::{case}`", {})
    st = conv.block["stmts"]
    tail = A.render(st[-1]["0"]) if st and A.kind(st[-1]) == "Stmt::Expr" else "?"
    ctx.instance("rename_all:conversion", sample=tail)
    if tail != "name.to_case(case)":
        ctx.report("rename:conversion", ctx.where(f, conv.node), f"the conversion is `{tail}` instead of `name.to_case(case)`: overriding the source boundaries changes how names containing `_` or digits are split", {})
    # docs list the same eight spellings
    doc = open(f"{ctx.repo}/impl/doc/display.md").read()
    for d in CASES:
        if d not in doc:
            ctx.note(f"impl/doc/display.md does not mention `{d}`")


def _if_conditions(fn, node_span_off):
    """rendered conditions of the `if`s (and which branch) enclosing byte offset `off` inside fn"""
    out = []
    for x, ps in A.walk(fn.block):
        if A.kind(x) != "Expr::If":
            continue
        tb = A.span_of(x["then_branch"])
        eb = A.span_of(x["else_branch"][1]) if x.get("else_branch") else None
        if tb and tb[0] <= node_span_off <= tb[1]:
            out.append((A.render(x["cond"]), True))
        elif eb and eb[0] <= node_span_off <= eb[1]:
            out.append((A.render(x["cond"]), False))
    return out


def rule_transparent_siblings(ctx):
    """TRANSP-SIB: every site that emits an attribute's body (display own attribute, display shared attribute, debug container attribute) first asks `<attr>.transparent_call_on_fields(self.fields)` and only falls back to `write!`; the decision is taken on the bare call result (no extra filter), and the delegation is `derive_more::core::fmt::#trait::fmt(#expr, __derive_more_f)`."""
    n = 0
    for t, mac, grp, seq, i in _write_templates(ctx):
        if mac != "write":
            continue
        if t.fn.qual == "expand_union":
            ctx.instance(f"{t.key()}:write!(union)", nontrivial=False)
            continue
        parts = [x for x in grp["body"] if x["t"] == "var"]
        if not parts:
            continue
        attr = parts[0]["s"]
        aty, _ = TY.var_type_at(ctx, t.fn, attr, parts[0]["span"][0])
        if "FmtAttribute" not in (aty or ""):
            continue
        falt, fsites = _fields_arg(ctx, t.fn)
        n += fsites
        off = A.span_of(t.node["path"])[0]
        conds = _if_conditions(t.fn, off)
        construct = f"{t.key()}:write!(#{attr})"
        ctx.instance(construct, sample={"site": construct, "conditions": conds, "stands for": fsites})
        want = f"let Some((expr,trait_ident))={attr}.transparent_call_on_fields(self.fields)"
        neg = [c for c, br in conds if not br]
        if not any(re.fullmatch(r"let Some\(\((\w+),(\w+)\)\)=%s\.transparent_call_on_fields\(%s\)" % (re.escape(attr), falt), c) for c in neg):
            odd = [c for c, br in conds if "transparent_call" in c]
            ctx.report(
                construct + ":not-fallback",
                f"{t.file.rel}:{t.line}",
                f"`write!(.., #{attr}, ..)` in `{t.fn.qual}` is not the plain else-branch of `if let Some(..) = {attr}.transparent_call_on_fields(self.fields)`"
                + (f" (found `{odd[0]}`)" if odd else "")
                + ": a bare-placeholder attribute is expanded through write!, which drops the caller's width/precision/flags, or the transparency decision is filtered by an extra condition",
                {"conditions": conds},
            )
        rl = _shared_roles(t.fn)
        extra = [c for c, br in conds if "transparent_call" not in c and A.canon_names(c, rl) not in ("WRAPPING", "MIX_SHARED")]
        extra = [c for c in extra if not c.startswith("let Some(")]
        if extra:
            ctx.report(construct + ":extra-condition", f"{t.file.rel}:{t.line}", f"the write!/delegate choice for `#{attr}` in `{t.fn.qual}` additionally depends on {extra}", {})
    ctx.floor("write! sites with a FmtAttribute", n, 3)
    # delegation shape
    m = 0
    for rel in (DISPLAY, DEBUG, MOD):
        for fn in A.functions(ctx.files[rel]):
            for t in T.templates_of(fn):
                tx = T.ir_text(t.ir).replace(" ", "")
                fname = formatter_name(ctx, rel if rel != MOD else DISPLAY)
                if "::fmt(" in tx and (fname + ")") in tx and "write!" not in tx and "implderive" not in tx.replace("#impl_gens", "").replace("impl#", "impl"):
                    if tx.startswith("#"):
                        continue
                    if "fnfmt(" in tx:
                        continue
                    m += _fields_arg(ctx, fn)[1]
                    ctx.instance(f"{t.key()}:delegate", sample=tx)
                    if not re.fullmatch(r"derive_more::core::fmt::#(\w+)::fmt\(#(\w+),%s\)" % re.escape(fname), tx):
                        ctx.report(f"{t.key()}:delegate-shape", f"{rel}:{t.line}", f"delegation in `{fn.qual}` is `{tx}`, expected `derive_more::core::fmt::#trait::fmt(#expr, __derive_more_f)`", {})
    ctx.floor("delegation templates", m, 4)


# ---------------------------------------------------------------- C04


def _same_binding(fn, name, off1, off2):
    b1 = TY.resolve(fn, name, off1)
    b2 = TY.resolve(fn, name, off2)
    return b1 is not None and b2 is not None and b1["ident"]["span"] == b2["ident"]["span"]


def rule_guard_use(ctx):
    """GUARD-USE: every emitted bound `#ty: derive_more::core::fmt::#Trait` is guarded by `contains_generics(type_params)` evaluated on the *same* `ty` (same binding): a guard on another type cuts needed bounds (insufficient) or lets non-generic types be bounded (excessive)."""
    n = 0
    for rel in (DISPLAY, DEBUG):
        for fn in A.functions(ctx.files[rel]):
            for t in T.templates_of(fn):
                ir = t.ir
                if not (len(ir) >= 3 and ir[0]["t"] == "var" and ir[1]["t"] == "p" and ir[1]["c"] == ":" and "derive_more::core::fmt::" in T.ir_text(ir).replace(" ", "")):
                    continue
                if any(x["t"] == "id" and x["s"] == "impl" for x in ir):
                    continue
                n += 1
                v = ir[0]
                off = v["span"][0]
                construct = f"{t.key()}:bound#{t.ordinal}:#{v['s']}"
                guards = []
                for mc, ps in A.method_calls(fn.block, "contains_generics"):
                    r = mc["receiver"]
                    if A.kind(r) == "Expr::Path" and A.path_str(r) == v["s"]:
                        guards.append(mc)
                ok = any(_same_binding(fn, v["s"], off, A.span_of(g)[0]) for g in guards)
                ctx.instance(construct, sample={"site": construct, "guards_on_same_name": len(guards), "same_binding": ok})
                if not ok:
                    ctx.report(
                        f"{t.key()}:bound-guard#{t.ordinal}",
                        f"{rel}:{t.line}",
                        f"the bound `{T.ir_text(ir)}` in `{fn.qual}` is emitted for a `{v['s']}` that was never tested with `contains_generics(type_params)` "
                        "(the test in this function looks at a different type): bounds are dropped for generic types referenced from a non-generic field's attribute, or emitted for non-generic types",
                        {},
                    )
    ctx.floor("bound templates", n, 6)
    # GUARD-SCOPE: what a test on one type is allowed to gate
    m = 0
    for rel in (DISPLAY, DEBUG):
        for fn in A.functions(ctx.files[rel]):
            bts = []
            for t in T.templates_of(fn):
                ir = t.ir
                if len(ir) >= 3 and ir[0]["t"] == "var" and ir[1]["t"] == "p" and ir[1]["c"] == ":" and "derive_more::core::fmt::" in T.ir_text(ir).replace(" ", "") and not any(x["t"] == "id" and x["s"] == "impl" for x in ir):
                    bts.append(t)
            if not bts:
                continue
            for mc, ps in A.method_calls(fn.block, "contains_generics"):
                r = mc["receiver"]
                if A.kind(r) != "Expr::Path":
                    continue
                name = A.path_str(r)
                goff = A.span_of(mc)[0]
                # the `if` whose condition is this test (possibly negated)
                iff = next((q for q in reversed(ps) if A.kind(q) == "Expr::If"), None)
                if iff is None or not (A.span_of(iff["cond"])[0] <= goff <= A.span_of(iff["cond"])[1]):
                    continue
                cond = A.render(iff["cond"])
                neg = cond.startswith("!")
                region = None
                if not neg:
                    region = A.span_of(iff["then_branch"])
                else:
                    then = ";".join(A.render_stmt(x) for x in iff["then_branch"]["stmts"])
                    if not then.startswith("return"):
                        continue
                    # everything after the `if` in the enclosing block
                    idx = list(ps).index(iff) if iff in ps else None
                    blk = None
                    for q in reversed(ps[: idx if idx is not None else len(ps)]):
                        if A.kind(q) == "Block":
                            blk = q
                            break
                    if blk is None:
                        continue
                    end = A.span_of(blk)[1]
                    region = (A.span_of(iff)[1], end)
                if region is None:
                    continue
                m += 1
                ctx.instance(f"{rel}::{fn.qual}:guard-scope:{name}#{m}", sample={"fn": fn.qual, "test": cond, "gates_bytes": region[1] - region[0]})
                for t in bts:
                    v = t.ir[0]
                    off = v["span"][0]
                    if not (region[0] <= off <= region[1]):
                        continue
                    if v["s"] == name and _same_binding(fn, name, off, goff):
                        continue
                    ctx.report(
                        f"{rel}::{fn.qual}:guard-scope:{name}->{v['s']}#{t.ordinal}",
                        ctx.where(fn.file, mc),
                        f"in `{fn.qual}` the test `{cond}` also decides whether the bound `{T.ir_text(t.ir)}` (line {t.line}) is emitted, but that bound is about another type than the tested `{name}`: "
                        "a non-generic field whose `#[..(\"{other}\")]` attribute formats a generic field gets no bound for it (the impl does not compile without user bounds)",
                        {},
                    )
    ctx.floor("guard scopes", m, 6)


def _syn_src(ctx, fname):
    import glob
    import os

    from ..extsrc import lock_text

    lock = lock_text(ctx.repo)
    m = re.search(r'name = "syn"\nversion = "([^"]+)"', lock)
    ver = m.group(1) if m else "2.0.119"
    cands = glob.glob(os.path.expanduser(f"~/.cargo/registry/src/*/syn-{ver}/src/{fname}"))
    if not cands:
        raise A.AnchorLost(f"syn-{ver}/src/{fname}", "not in the cargo registry")
    return cands[0], ver


_syn_cache = {}


def syn_types(ctx):
    """{enum: [variants]} and {struct: {field: type text}} of syn's ty.rs / path.rs / generics.rs (ast_enum_of_structs! / ast_struct! macros)"""
    if "t" in _syn_cache:
        return _syn_cache["t"]
    enums, structs = {}, {}
    for fname in ("ty.rs", "path.rs", "generics.rs"):
        p, ver = _syn_src(ctx, fname)
        src = open(p).read()
        for m in re.finditer(r"pub enum (\w+)\s*\{(.*?)\n    \}", src, re.S):
            body = re.sub(r"//[^\n]*", "", m.group(2))
            body = re.sub(r"#\[[^\]]*\]", "", body)
            vs = re.findall(r"^\s*(\w+)\s*(?:\(|,|$)", body, re.M)
            enums[m.group(1)] = [v for v in vs if v[0].isupper()]
        for m in re.finditer(r"pub struct (\w+)\s*\{(.*?)\n    \}", src, re.S):
            body = re.sub(r"//[^\n]*", "", m.group(2))
            structs[m.group(1)] = dict(re.findall(r"pub (\w+): ([^\n]+?),\n", body + "\n"))
    _syn_cache["t"] = (enums, structs, ver)
    return _syn_cache["t"]


TYPE_BEARING = re.compile(r"\b(Type|ReturnType|BareFnArg|TypeParamBound|QSelf|Path)\b")
# variants whose type-bearing fields may be ignored, with the reason
TRAVERSAL_EXCEPTIONS = {
    "ImplTrait": "`impl Trait` is not allowed in field types",
    "Macro": "a type macro's tokens are opaque",
    "Verbatim": "unparsed tokens",
    "Infer": "no fields",
    "Never": "no fields",
}


def rule_traversal(ctx):
    """TRAVERSE: `contains_generics` handles every variant of syn::Type / PathArguments / GenericArgument (read from the syn sources the crate builds against) explicitly, and recurses into every type-bearing field of each (elem, elems, inputs/output, bounds, qself, path); a variant that falls through to the `unimplemented!` wildcard, or a wrapper that stops recursing, loses bounds (or panics) for such field types."""
    enums, structs, ver = syn_types(ctx)
    ctx.note(f"syn {ver}: Type has {len(enums.get('Type', []))} variants")
    if len(enums.get("Type", [])) < 15:
        raise A.AnchorLost("syn::Type", f"variants parsed: {enums.get('Type')}")
    fn = A.get_fn(ctx.files, MOD, "<syn::Type as ContainsGenericsExt>::contains_generics")
    f = fn.file
    mt = next((m for m, _ in A.find(fn.block, "Expr::Match") if A.render(m["expr"]) == "self"), None)
    if mt is None:
        raise A.AnchorLost(f"{MOD}::<syn::Type as ContainsGenericsExt>::contains_generics", "match self")
    handled = {}
    for arm in mt["arms"]:
        body = A.render(A.unblock(arm["body"]))
        pats = arm["pat"]["cases"] if A.kind(arm["pat"]) == "Pat::Or" else [arm["pat"]]
        for p in pats:
            k = A.kind(p)
            if k in ("Pat::TupleStruct", "Pat::Path", "Pat::Struct"):
                name = A.path_last(p["path"])
                bound = set()
                for fp, _ in A.find(p, "FieldPat"):
                    mm = fp["member"]
                    if A.kind(mm) == "Member::Named":
                        bound.add(mm["0"]["sym"])
                handled[name] = (bound, body, arm)
    for v in enums["Type"]:
        st = structs.get("Type" + v, {})
        bearing = sorted(k for k, t in st.items() if TYPE_BEARING.search(t))
        ctx.instance(f"Type::{v}", sample={"variant": v, "type_bearing_fields": bearing})
        if v not in handled:
            ctx.report(
                f"traverse:Type::{v}:unhandled",
                ctx.where(f, mt["expr"]),
                f"`contains_generics` has no arm for `syn::Type::{v}`: such a field type reaches the `unimplemented!` wildcard (the derive panics) "
                + (f"and its type-bearing fields {bearing} are never searched" if bearing else ""),
                {},
            )
            continue
        bound, body, arm = handled[v]
        if v in TRAVERSAL_EXCEPTIONS:
            continue
        if not bearing:
            continue
        miss = [b for b in bearing if b not in bound]
        if body == "false" or miss:
            ctx.report(
                f"traverse:Type::{v}:no-recursion",
                ctx.where(f, arm["pat"]),
                f"`contains_generics` does not search `syn::Type::{v}`'s {miss or bearing}: a type parameter inside such a field type (e.g. through a `$t:ty` macro fragment for `Group`) is not seen, so the needed bound is not generated",
                {},
            )
            continue
        # helpers of the detector: free functions of the file that themselves call `contains_generics`
        fam = ["contains_generics"] + [g.name for g in A.functions(f) if g.impl is None and g.block is not None and ".contains_generics(" in A.fn_text(g)]
        fam_rx = "|".join(re.escape(x) for x in fam)
        for b in bearing:
            if not re.search(r"\b%s\b[^;]*(?:%s)" % (re.escape(b), fam_rx), body) and not re.search(r"(?:%s)\(&?%s\b" % (fam_rx, re.escape(b)), body) and not (b in ("inputs", "elems", "bounds") and "contains_generics" in body):
                ctx.report(f"traverse:Type::{v}:{b}", ctx.where(f, arm["pat"]), f"`contains_generics` binds `{b}` of `Type::{v}` but never recurses into it", {})
    # Path: first segment, arguments
    pf = A.get_fn(ctx.files, MOD, "<syn::Path as ContainsGenericsExt>::contains_generics")
    ptxt = ";".join(A.render_stmt(s) for s in pf.block["stmts"])
    ctx.instance("Path:first-segment")
    if not re.search(r"\((\w+)==0\)&&type_params\.contains\(&&segment\.ident\)", ptxt):
        ctx.report("traverse:Path:first-segment", ctx.where(pf.file, pf.node), "`Path::contains_generics` no longer treats a path whose *first* segment is a type parameter (`T::Assoc`) as generic", {})
    for en, fnq in (("PathArguments", pf), ("GenericArgument", pf)):
        for v in enums.get(en, []):
            ctx.instance(f"{en}::{v}")
            if f"syn::{en}::{v}" not in ptxt:
                ctx.report(f"traverse:{en}::{v}", ctx.where(pf.file, pf.node), f"`Path::contains_generics` does not handle `syn::{en}::{v}` explicitly", {})
    for v in ("Type", "AssocType"):
        if not re.search(r"syn::GenericArgument::%s\([^)]*\)[^=]*=>\{?ty\.contains_generics" % v, ptxt.replace("|syn::GenericArgument::AssocType(syn::AssocType{ty,..})", "")) and v == "Type":
            pass
    if "ty.contains_generics(type_params)" not in ptxt or "inputs.iter().any(|ty|ty.contains_generics(type_params))" not in ptxt:
        ctx.report("traverse:Path:args", ctx.where(pf.file, pf.node), "`Path::contains_generics` no longer recurses into generic / parenthesised arguments", {})
    from . import gendet

    gendet.early_returns_are_positive(
        ctx,
        [fn, pf],
        "traverse",
        "for `<u8 as Select<T>>::Out` the qualified self type `u8` says no and the trait path's generic arguments (`Select<T>`) are never searched, so the bound on that field type is not generated",
    )
    tf = ";".join(A.render_stmt(s) for s in fn.block["stmts"])
    ctx.instance("Type::Path:qself")
    if "qself.ty.contains_generics(type_params)" not in tf:
        ctx.report("traverse:qself", ctx.where(f, fn.node), "`<T as Trait>::X`: the qualified self type is no longer searched", {})


def _skeleton(e):
    """method-call skeleton of an expression: names of methods/functions/macros and identifiers, in order"""
    r = A.render(e)
    return re.findall(r"[A-Za-z_][A-Za-z0-9_]*", re.sub(r"\b(to_string|ToString|clone|as_deref|as_ref)\b", "", r.replace("*", "").replace("&", "")))


def rule_lookup_agreement(ctx):
    """LOOKUP-SIB: `bounded_types` (which field a placeholder bounds) and `placeholders_by_arg` (which placeholders mention `_variant`) resolve a placeholder to a name by the same three-way rule: alias -> the argument's identifier (else nothing), bare name -> itself, positional -> the identifier of the un-aliased n-th argument. The two closures are compared arm by arm."""
    a = A.get_fn(ctx.files, MOD, "FmtAttribute::bounded_types")
    b = A.get_fn(ctx.files, MOD, "FmtAttribute::placeholders_by_arg")
    arms = {}

    def _lookup_matches(fn):
        """the `match <placeholder>.arg { Named.., Positional.. }` of `fn`, or of the same-file helper it hands `placeholder.arg` to"""
        got = [mt for mt, _ in A.find(fn.block, "Expr::Match") if "placeholder.arg" in A.render(mt["expr"])]
        if got:
            return got
        for c, _ in list(A.find(fn.block, "Expr::MethodCall")) + list(A.find(fn.block, "Expr::Call")):
            if not any("placeholder.arg" in A.render(x) for x in c["args"]):
                continue
            nm = c["method"]["sym"] if A.kind(c) == "Expr::MethodCall" else A.path_last(c["func"])
            hs = [g for g in A.functions(fn.file) if g.name == nm and g.block is not None and g is not fn]
            if len(hs) == 1:
                prm = [x for p_ in hs[0].node["sig"]["inputs"] if A.kind(p_) == "FnArg::Typed" for x in A.pat_idents(p_["0"]["pat"])]
                got = [mt for mt, _ in A.find(hs[0].block, "Expr::Match") if A.render(A.peel(mt["expr"])).lstrip("*&") in prm]
                if got:
                    return got
        return []

    for fn in (a, b):
        for mt in _lookup_matches(fn):
            for arm in mt["arms"]:
                key = "Named" if "Named" in A.render_pat(arm["pat"]) else "Positional" if "Positional" in A.render_pat(arm["pat"]) else A.render_pat(arm["pat"])
                arms.setdefault(key, {})[fn.qual] = arm
    if set(arms) != {"Named", "Positional"} or any(len(v) != 2 for v in arms.values()):
        raise A.AnchorLost(f"{MOD}::bounded_types/placeholders_by_arg", f"arms found: { {k: list(v) for k, v in arms.items()} }")
    REF = {
        "Named": ["self", "args", "iter", "find_map", "a", "a", "alias", "name", "then_some", "a", "expr", "map_or", "Some", "name", "expr", "expr", "ident", "map"],
        "Positional": ["self", "args", "iter", "nth", "i", "and_then", "a", "a", "expr", "ident", "filter", "_", "a", "alias", "is_none"],
    }
    for key, d in arms.items():
        sk = {q: [w for w in _skeleton(A.unblock(arm["body"])) if w not in ("map",) or True] for q, arm in d.items()}
        qa, qb = a.qual, b.qual
        ctx.instance(f"lookup:{key}", sample={"arm": key, a.qual: " ".join(sk[qa])[:160]})
        na = [w for w in sk[qa] if w not in ("map",)]
        nb = [w for w in sk[qb] if w not in ("map",)]
        # bounded_types has a trailing `?` / .to_string() which the skeleton ignores
        ref = [w for w in REF[key] if w != "map"]
        for q, s_ in ((qa, na), (qb, nb)):
            if s_[: len(ref)] != ref:
                arm = d[q]
                ctx.report(
                    f"lookup:{key}:{q}",
                    ctx.where(a.file, arm["pat"]),
                    f"`{q}` resolves a `{key}` placeholder as `{A.render(A.unblock(arm['body']))[:220]}`; its sibling and the documented rule are "
                    + ("alias -> `a.expr.ident()` (none for a non-identifier expression), otherwise the bare name" if key == "Named" else "`args.nth(i)`'s identifier when it has no alias")
                    + ": the two lookups no longer agree, so bounds / `_variant` detection refer to different arguments than format_args! does",
                    {"skeleton": s_, "reference": ref},
                )


# ---------------------------------------------------------------- C07


def rule_shared_reject(ctx):
    """REJECT: Display-like `expand_enum` returns an error before any arm is generated when a `_variant` placeholder has modifiers or a non-Display trait; Debug's `expand_enum` rejects any enum-level format attribute."""
    fn = A.get_fn(ctx.files, DISPLAY, "expand_enum")
    f = fn.file
    st0 = fn.block["stmts"][0]
    txt = A.render_stmt(st0) if A.kind(st0) != "Stmt::Expr" else A.render(st0["0"])
    ctx.instance("display::expand_enum:reject", sample=txt[:300])
    m = re.search(r'placeholders_by_arg\("_variant"\)\.any\(\|(\w+)\|(.*?)\)\{', txt)
    if not txt.startswith("if let Some(") or not m or "return Err(" not in txt:
        ctx.report("reject:display:missing", ctx.where(f, fn.node), "`expand_enum` does not start by rejecting `_variant` placeholders with format specifiers", {"first_stmt": txt[:200]})
    else:
        v, cond = m.group(1), m.group(2)
        terms = set(cond.split("||"))
        want = {f"{v}.has_modifiers", f'{v}.trait_name!="Display"'}
        if terms != want:
            ctx.report(
                "reject:display:predicate",
                ctx.where(f, fn.node),
                f"the `_variant` rejection tests `{cond}`; it must reject a placeholder that has modifiers OR a non-Display trait (`{{_variant:?}}` / `{{_variant:>8}}` cannot be honoured by the `format_args!` wrapping)",
                {},
            )
    fn = A.get_fn(ctx.files, DEBUG, "expand_enum")
    st0 = fn.block["stmts"][0]
    txt = A.render(st0["0"]) if A.kind(st0) == "Stmt::Expr" else A.render_stmt(st0)
    ctx.instance("debug::expand_enum:reject", sample=txt[:200])
    if not re.match(r"if let Some\((\w+)\)=attrs\.fmt\.as_ref\(\)\{return Err\(", txt):
        ctx.report("reject:debug", ctx.where(fn.file, fn.node), "Debug's `expand_enum` no longer rejects an enum-level format attribute first", {"first_stmt": txt[:200]})


def _arm_decisions(fn, scrut_contains):
    """for the match on the own attribute in generate_body / generate_bounds: {arm: (inner if condition, tail value)}"""
    out = {}
    for mt, _ in A.find(fn.block, "Expr::Match"):
        if scrut_contains not in A.render(mt["expr"]):
            continue
        for arm in mt["arms"]:
            key = A.render_pat(arm["pat"]).split("(")[0]
            body = arm["body"]
            stmts = body["block"]["stmts"] if A.kind(body) == "Expr::Block" else []
            conds = []
            tail = None
            for s in stmts:
                if A.kind(s) == "Stmt::Expr":
                    e = s["0"]
                    if A.kind(e) == "Expr::If":
                        conds.append(A.render(e["cond"]))
                    elif s is stmts[-1]:
                        tail = A.render(e)
            if stmts and A.kind(stmts[-1]) == "Stmt::Expr" and A.kind(stmts[-1]["0"]) != "Expr::If":
                tail = A.render(stmts[-1]["0"])
            out[key] = (conds, tail)
        break
    return out


def _shared_info_components(fn):
    """what `shared_attr_info` returns, whatever the carrier: {tuple position or struct field name: (role, rendered expr)};
    the component that conjoins the presence flag with something else is WRAPPING, the other one HAS_SHARED"""
    si = [g for g in A.functions(fn.file) if g.name == "shared_attr_info" and g.block is not None]
    if len(si) != 1 or not si[0].block["stmts"]:
        return {}
    last = si[0].block["stmts"][-1]
    e = last.get("0") if A.kind(last) == "Stmt::Expr" else None
    e = A.peel(e) if e is not None else None
    comps = {}
    if e is not None and A.kind(e) == "Expr::Tuple":
        comps = {i: x for i, x in enumerate(e["elems"])}
    elif e is not None and A.kind(e) == "Expr::Struct":
        comps = {fv["member"]["0"]["sym"]: fv["expr"] for fv in e["fields"] if A.kind(fv["member"]) == "Member::Named"}
    if len(comps) != 2:
        return {}
    out = {}
    for k_, x in comps.items():
        r = A.render(x)
        out[k_] = ("WRAPPING" if "&&" in r else "HAS_SHARED", r)
    return out if sorted(v[0] for v in out.values()) == ["HAS_SHARED", "WRAPPING"] else {}


def _shared_roles(fn):
    """{local name: role} for the two flags destructured from `self.shared_attr_info()` and for the local that
    receives the per-arm 'mix the shared attribute in' decision"""
    roles = {}
    comps = _shared_info_components(fn)
    for st, _ in A.find(fn.block, "Stmt::Local"):
        init = st.get("init")
        if not init:
            continue
        r = A.render(init["expr"])
        if r == "self.shared_attr_info()" and A.kind(st["pat"]) == "Pat::Tuple":
            names = [A.render_pat(x) for x in st["pat"]["elems"]]
            if len(names) == 2:
                for i_, nm_ in enumerate(names):
                    roles[nm_] = comps[i_][0] if i_ in comps else ("HAS_SHARED", "WRAPPING")[i_]
        elif r == "self.shared_attr_info()" and A.kind(st["pat"]) == "Pat::Ident" and any(isinstance(k_, str) for k_ in comps):
            # kept as one value and read by field: `shared.is_wrapping`
            for fld_, (role_, _) in comps.items():
                roles[f"{st['pat']['ident']['sym']}.{fld_}"] = role_
        elif r == "self.shared_attr_info()" and A.kind(st["pat"]) == "Pat::Struct":
            for fp in st["pat"]["fields"]:
                mn = fp["member"]["0"]["sym"] if A.kind(fp["member"]) == "Member::Named" else None
                ids = A.pat_idents(fp["pat"])
                if mn in comps and len(ids) == 1:
                    roles[ids[0]] = comps[mn][0]
        elif A.kind(init["expr"]) == "Expr::Match" and "self.attrs.common.fmt" in A.render(init["expr"]["expr"]) and A.kind(st["pat"]) == "Pat::Ident":
            roles[st["pat"]["ident"]["sym"]] = "MIX_SHARED"
    return roles


def rule_shared_decision(ctx):
    """SHARED-SIB: `generate_body` and `generate_bounds` of the Display-like Expansion take the same decisions from `shared_attr_info()`: with an own attribute -> wrap iff the shared attribute is wrapping; without -> generate the implicit body/bound iff `shared_attr_is_wrapping || !has_shared_attr`, and mix the shared attribute in iff `has_shared_attr`. A body that formats a field the bounds ignore (or vice versa) fails to compile or over-constrains."""
    gb = A.get_fn(ctx.files, DISPLAY, "Expansion::generate_body")
    gn = A.get_fn(ctx.files, DISPLAY, "Expansion::generate_bounds")
    da = _arm_decisions(gb, "self.attrs.common.fmt")
    db = _arm_decisions(gn, "self.attrs.common.fmt")
    if set(da) != {"Some", "None"} or set(db) != {"Some", "None"}:
        raise A.AnchorLost(f"{DISPLAY}::Expansion::generate_body/generate_bounds", f"arms {list(da)} / {list(db)}")
    REF = {"Some": ([], "WRAPPING"), "None": (["WRAPPING||!HAS_SHARED"], "HAS_SHARED")}
    roles = {gb.qual: _shared_roles(gb), gn.qual: _shared_roles(gn)}
    for q in roles:
        if set(roles[q].values()) < {"HAS_SHARED", "WRAPPING"}:
            raise A.AnchorLost(f"{DISPLAY}::{q}", "`let (has_shared, is_wrapping) = self.shared_attr_info()`")
    for arm in ("Some", "None"):
        for q, d in ((gb.qual, da), (gn.qual, db)):
            conds, tail = d[arm]
            conds = [A.canon_names(c, roles[q]) for c in conds]
            tail = A.canon_names(tail, roles[q]) if tail else tail
            ctx.instance(f"{q}:{arm}", sample={"fn": q, "arm": arm, "conditions": conds, "mix_shared": tail})
            rc, rt = REF[arm]
            # the Some arm of generate_body has its own if-chain (wrapping / transparent / write!) judged elsewhere
            if arm == "None" and conds[:1] != rc:
                ctx.report(f"shared:{q}:{arm}:cond", ctx.where(gb.file, (gb if q == gb.qual else gn).node), f"`{q}` generates the implicit part for variants without an own attribute under `{conds[:1]}` instead of `{rc[0]}`: body and bounds disagree about which variants format their field implicitly", {})
            if tail != rt:
                ctx.report(f"shared:{q}:{arm}:mix", ctx.where(gb.file, (gb if q == gb.qual else gn).node), f"`{q}` mixes the shared attribute in iff `{tail}` (arm {arm}); expected `{rt}`", {})
    # shared_attr_info
    si = A.get_fn(ctx.files, DISPLAY, "Expansion::shared_attr_info")
    txt = A.fn_text(si)
    ctx.instance("shared_attr_info", sample=txt[:400])
    want = [
        'self.shared_attr.map_or(true,|attr|attr.contains_arg("_variant"))',
        "self.shared_attr.is_some_and(|attr|attr.transparent_call().map_or(true,|(_,called_trait)|&called_trait!=self.trait_ident||!shared_attr_contains_variant))",
    ]
    atxt = A.alpha(txt, numbered=False)
    for w in want:
        # (compared up to the names of the locals)
        if w not in txt and A.alpha(w, numbered=False) not in atxt:
            ctx.report("shared_attr_info", ctx.where(si.file, si.node), f"`shared_attr_info` no longer computes `{w[:80]}..`: which variants are wrapped / defaulted changes", {"body": txt})
            break
    else:
        comps = sorted(A.alpha(v[1], numbered=False) for v in _shared_info_components(si).values())
        if comps != ["$", "$&&$"]:
            ctx.report("shared_attr_info", ctx.where(si.file, si.node), f"`shared_attr_info` no longer returns the pair (present, present && contains `_variant`) (found {comps}): which variants are wrapped / defaulted changes", {"body": txt})
    # wrap shape
    ok = False
    for t in T.templates_of(gb):
        if T.ir_text(t.ir).replace(" ", "") == "match#body{_variant=>#shared_body}":
            ok = True
    ctx.instance("wrap-shape")
    if not ok:
        ctx.report("wrap-shape", ctx.where(gb.file, gb.node), "the wrapping template `match #body { _variant => #shared_body }` is gone: `_variant` is no longer bound to the variant's own text with the fields still in scope", {})
    # rename_all applies to the unit name on both paths (wrapping and plain)
    ok = False
    for x, ps in A.walk(gb.block):
        if A.kind(x) == "Expr::If" and A.render(x["cond"]).startswith("let Some(rename_all)=") and "convert_case" in A.render(x["then_branch"]["stmts"][0]["0"]) if A.kind(x) == "Expr::If" and x["then_branch"]["stmts"] and A.kind(x["then_branch"]["stmts"][0]) == "Stmt::Expr" else False:
            enclosing = [A.render(p["cond"]) for p in ps if A.kind(p) == "Expr::If"]
            if not any(A.canon_names(c, roles[gb.qual]) == "WRAPPING" for c in enclosing):
                ok = True
    ctx.instance("rename-before-split")
    if not ok:
        ctx.report("rename-before-split", ctx.where(gb.file, gb.node), "`rename_all` is not applied to a unit variant's name before the wrapping / non-wrapping split: `_variant` shows the unconverted name under an enum-level format", {})


def rule_literal_verbatim(ctx):
    """LIT-VERBATIM: the text of a format literal reaches generated code only as the literal token itself (first argument of `write!` / `format_args!`, where rustc interprets `{{`, `}}` and the placeholders): no template of the fmt derives interpolates a value computed from `lit.value()` (the *unescaped* Rust string, in which `{{` is still two characters) - writing that text with `write_str` prints `{{ .. }}` where `format!` prints `{ .. }`."""
    n = 0
    for rel in (DISPLAY, DEBUG, MOD):
        f = ctx.files[rel]
        for fn in A.functions(f):
            if fn.block is None:
                continue
            lets = {}
            for st, _ in A.find(fn.block, "Stmt::Local"):
                ids = A.pat_idents(st["pat"])
                if len(ids) == 1 and st.get("init"):
                    lets.setdefault(ids[0], []).append(A.render(st["init"]["expr"]))
            # names bound by `if let P = E` / `while let` / `match E { P => .. }` derive from E
            for x_, ps_ in A.walk(fn.block):
                if A.kind(x_) == "Expr::Let":
                    for n_ in A.pat_idents(x_["pat"]):
                        lets.setdefault(n_, []).append(A.render(x_["expr"]))
                elif A.kind(x_) == "Expr::Match":
                    for arm_ in x_["arms"]:
                        for n_ in A.pat_idents(arm_["pat"]):
                            lets.setdefault(n_, []).append(A.render(x_["expr"]))

            def derived(name, depth=0):
                for r in lets.get(name, []):
                    if re.search(r"\blit\.value\(\)", r):
                        return r
                    if depth < 2:
                        for w in re.findall(r"\b[a-z_][a-z0-9_]*\b", r):
                            if w != name and w in lets:
                                d = derived(w, depth + 1)
                                if d:
                                    return d
                return None

            for t in T.templates_of(fn):
                for v in T.ir_vars(t.ir):
                    n += 1
                    d = derived(v.split(".")[0])
                    if d:
                        construct = f"{rel}::{fn.qual}:#{v}"
                        ctx.instance(construct)
                        ctx.report(f"lit-verbatim:{construct}", f"{rel}:{t.line}", f"template in `{fn.qual}` interpolates `#{v}`, computed from the literal's *value* (`{d[:80]}`): the text is emitted without `format_args!` interpreting its `{{{{` / `}}}}` escapes (and placeholders), so the output differs from what `format!` prints for the same literal", {})
    ctx.instance("lit-verbatim:templates", sample={"interpolations checked": n})
    ctx.floor("interpolations in fmt templates", n, 92)


def rule_shared_attr_unfiltered(ctx):
    """SHARED-ATTR: every variant is expanded with the enum-level format exactly as the user wrote it: the `shared_attr` handed to each `Expansion` is `container_attrs.common.fmt.as_ref()` itself (`None` for structs) - not filtered, replaced or pre-decided in `expand_enum`. Whether it wraps, is transparent or is ignored is decided per variant by `shared_attr_info()` (SHARED-DEC), which also compares the placeholder's trait with the derived one; a second, coarser decision upstream makes `#[lower_hex("{_variant}")]` pass the caller's flags through."""
    fn_all = [g for g in A.functions(ctx.files[DISPLAY]) if g.block is not None]
    n = 0
    for fn in fn_all:
        lets = {}
        for st, _ in A.find(fn.block, "Stmt::Local"):
            ids = A.pat_idents(st["pat"])
            if len(ids) == 1 and st.get("init"):
                lets[ids[0]] = st["init"]["expr"]
        for x, _ in A.find(fn.block, "Expr::Struct"):
            if A.path_last(x["path"]) != "Expansion":
                continue
            for fv in x["fields"]:
                if A.kind(fv["member"]) == "Member::Named" and fv["member"]["0"]["sym"] == "shared_attr":
                    e = fv["expr"]
                    for _ in range(3):
                        nm = A.path_str(A.peel(e)) if A.kind(A.peel(e)) == "Expr::Path" else None
                        if nm and nm in lets:
                            e = lets[nm]
                        else:
                            break
                    r = A.render(A.peel(e))
                    n += 1
                    ctx.instance(f"{DISPLAY}::{fn.qual}:shared_attr", sample={"value": r})
                    if r != "None" and not re.fullmatch(r"[\w.]+\.fmt\.as_ref\(\)", r):
                        ctx.report(f"shared-attr:{fn.qual}", ctx.where(fn.file, fv["expr"]), f"`{fn.qual}` hands `{r[:120]}` to the variants as their shared format instead of the enum-level attribute itself: a decision about the shared format taken before the per-variant `shared_attr_info()` ignores what that function checks (the placeholder's trait against the derived trait, modifiers)", {})
    ctx.floor("Expansion literals with shared_attr", n, 2)


def rule_literal_parsed(ctx):
    """LIT-PARSED: what a format literal contains is decided on its *parsed* placeholders only: in impl/src/fmt every `lit.value()` of a format attribute flows into the literal parser (`Placeholder::parse_fmt_string` / `parsing::format_string` / `parsing::format`) or is compared for emptiness; no `contains` / `find` / `starts_with` / `matches` / `split` on the raw text takes part in a decision - a substring test ignores `{{` escaping (`"{{_variant}}"` is plain text) and format specs (`{_variant:?}`)."""
    TEXT_TESTS = {"contains", "find", "rfind", "starts_with", "ends_with", "matches", "match_indices", "split", "split_once", "strip_prefix", "strip_suffix", "eq_ignore_ascii_case"}
    n = 0
    for rel in (MOD, DISPLAY, DEBUG):
        f = ctx.files.get(rel)
        if f is None:
            continue
        for fn in A.functions(f):
            if fn.block is None:
                continue
            als = A.aliases(fn)
            for mc, ps in A.find(fn.block, "Expr::MethodCall"):
                if mc["method"]["sym"] not in TEXT_TESTS:
                    continue
                r = A.inline_text(A.render(mc["receiver"]), als).replace(" ", "")
                if not re.search(r"\blit\.value\(\)", r):
                    continue
                n += 1
                key = f"{rel}::{fn.qual}:{mc['method']['sym']}"
                ctx.instance(f"lit-parsed:{key}")
                ctx.report(f"lit-parsed:{key}", ctx.where(f, mc["method"]), f"`{fn.qual}` tests the raw text of the format literal with `.{mc['method']['sym']}(..)`: escaped braces (`{{{{name}}}}` is text, not a placeholder) and format specs are invisible to a substring test, so the decision differs from what `format_args!` does with the same literal", {})
            for x, _ in A.find(fn.block, "Expr::MethodCall"):
                if x["method"]["sym"] == "value" and A.render(x["receiver"]).endswith("lit"):
                    ctx.cur.instances += 1
                # the literal's *value* is what format_args! sees; its source spelling (`lit.token()`, the token stream
                # rendered back to text) still carries the escapes: `\u{1F980}` shows braces that are not placeholders
                rr = A.render(x["receiver"])
                if (x["method"]["sym"] == "token" and re.search(r"(^|\.|\b)lit$", rr)) or (x["method"]["sym"] == "to_string" and re.search(r"\blit\.(token|to_token_stream|into_token_stream)\(\)$", rr)):
                    if x["method"]["sym"] == "to_string" or not any(True for _ in ()):
                        key = f"{rel}::{fn.qual}:source-spelling"
                        ctx.instance(f"lit-parsed:{key}")
                        ctx.report(
                            f"lit-parsed:{key}",
                            ctx.where(f, x["method"]),
                            f"`{fn.qual}` reads the format literal's *source spelling* (`{rr}.{x['method']['sym']}()`) instead of its value: an escape such as `\\u{{1F980}}` / `\\x7b` exposes braces that format_args! never sees, "
                            "the literal no longer parses and all its placeholders (bounds, Pointer re-binding, `_variant`) are silently dropped",
                            {},
                        )
    ctx.note(f"{n} raw-text tests on format literals")
