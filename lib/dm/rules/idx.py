"""IDX-SPACE: indices into "all fields" and into "enabled fields" are never mixed (C09, C11, C14, C18).

`utils::State` keeps every field of the item (`fields`, `field_idents()`) and filtered *enabled* views
(`enabled_fields*()`, and everything `enabled_fields_data()` stores in `MultiFieldData`). A position in one
view is not a position in the other as soon as a field is ignored. The rule derives the space of every
collection from the source, types every index by where it was produced, and requires each subscript /
`matcher` argument to use an index of the collection's own space.
"""
import re

from .. import ast as A
from .. import types as TY

UTILS = "impl/src/utils.rs"
ALL, EN = "All", "Enabled"


def derive_spaces(ctx):
    """({State method: space}, {MultiFieldData field: (space of positions, space of *values* if they are indices)})"""
    methods = {}
    for fn in A.functions(ctx.files[UTILS]):
        if fn.self_ty != "State" or fn.trait_ is not None:
            continue
        body = ";".join(A.render_stmt(s) for s in fn.block["stmts"])
        ret = A.render_type(fn.sig["output"]["1"]) if A.kind(fn.sig["output"]) == "ReturnType::Type" else ""
        if not ret.startswith("Vec"):
            continue
        # filtered by the per-field `enabled` flag: `.zip(<flags>).filter(|(_, f)| *f)` or `.filter(|i| i.enabled)`
        filtered = bool(re.search(r"\.enabled\)\)?\.(?:enumerate\(\)\.)?filter\(\|\(_,(\w+)\)\|\*\1\)", body) or re.search(r"\.filter\(\|(\w+)\|\1\.enabled\)", body))
        methods[fn.name] = EN if filtered else ALL
    # a view written through a helper of the impl (`self.only_enabled(self.fields.iter().copied())`): interpret it on a
    # symbolic 3-element list with the middle flag off - two elements left means it ranges over the enabled fields
    from .. import iterpipe as IP

    st_fns = {g.name: g for g in A.functions(ctx.files[UTILS]) if g.self_ty == "State" and g.trait_ is None and g.block is not None}
    for name in list(methods):
        if methods[name] == EN or not st_fns[name].node["sig"]["inputs"] or len(st_fns[name].node["sig"]["inputs"]) != 1:
            continue
        flags = (True, False, True)
        fields_ = {k: [f"{k}#{i}" for i in range(3)] for k in ("variants", "variant_states", "fields")}
        fields_["full_meta_infos"] = [{"enabled": b, "id": i} for i, b in enumerate(flags)]
        try:
            got = IP.Interp(fields_, {"field_idents": ["id#0", "id#1", "id#2"]}, {k: v for k, v in st_fns.items() if k != name}).block(st_fns[name].block, {})
        except Exception:
            continue
        if isinstance(got, list) and len(got) == 2:
            methods[name] = EN
    # MultiFieldData fields from their initialisers in enabled_fields_data
    efd = A.get_fn(ctx.files, UTILS, "State::enabled_fields_data")
    fields = {}
    lit = next((s for s, _ in A.find(efd.block, "Expr::Struct") if A.path_last(s["path"]) == "MultiFieldData"), None)
    if lit is None:
        raise A.AnchorLost(f"{UTILS}::State::enabled_fields_data", "MultiFieldData literal")

    def space_of_init(e, depth=0):
        r = A.render(e)
        m = re.match(r"self\.(\w+)\(\)", r)
        if m and m.group(1) in methods:
            return methods[m.group(1)]
        if A.kind(e) == "Expr::Path" and depth < 4:
            nm = A.path_str(e)
            sp = A.span_of(e)
            b = TY.resolve(efd, nm, sp[0] if sp else 0)
            if b and b.get("init") is not None:
                return space_of_init(b["init"], depth + 1)
        # derived by map over another collection:  X.iter().map(..).collect()
        m = re.match(r"(\w+)\.iter\(\)\.map\(", r)
        if m and depth < 4:
            b = TY.resolve(efd, m.group(1), A.span_of(e)[0])
            if b and b.get("init") is not None:
                return space_of_init(b["init"], depth + 1)
        return None

    for fv in lit["fields"]:
        name = fv["member"]["0"]["sym"]
        sp = space_of_init(fv["expr"])
        if sp:
            fields[name] = sp
    return methods, fields


def struct_field_type(ctx, sname, field):
    for rel, f in ctx.files.items():
        if not rel.startswith("impl/src"):
            continue
        for it, mods, cfgs in A.iter_items(f.ast["items"]):
            if A.kind(it) == "Item::Struct" and it["ident"]["sym"] == sname:
                fl = it["fields"]
                if "0" in fl:
                    fl = fl["0"]
                for x in fl.get("named", []):
                    if x["ident"] and x["ident"]["sym"] == field:
                        return A.render_type(x["ty"])
    return None


def expr_struct(ctx, fn, e, depth=0):
    """name of the crate struct an expression evaluates to (State / MultiFieldData / ParsedFields ..), or None"""
    e = A.peel(e)
    k = A.kind(e)
    if depth > 5:
        return None
    if k == "Expr::Path":
        nm = A.path_str(e)
        if nm == "self":
            return fn.self_ty
        sp = A.span_of(e)
        ty, _ = TY.var_type_at(ctx, fn, nm, sp[0] if sp else 0)
        if ty:
            m = re.search(r"(?:^|[:&<' ])(State|MultiFieldData|SingleFieldData|ParsedFields|MultiVariantData)\b", ty)
            return m.group(1) if m else None
        return None
    if k == "Expr::Field":
        base = expr_struct(ctx, fn, e["base"], depth + 1)
        if base and A.kind(e["member"]) == "Member::Named":
            ft = struct_field_type(ctx, base, e["member"]["0"]["sym"])
            if ft:
                m = re.search(r"(State|MultiFieldData|SingleFieldData|ParsedFields|MultiVariantData)\b", ft)
                return m.group(1) if m else None
    if k == "Expr::MethodCall":
        if e["method"]["sym"] in ("clone", "as_ref"):
            return expr_struct(ctx, fn, e["receiver"], depth + 1)
        if e["method"]["sym"] == "enabled_fields_data":
            return "MultiFieldData"
    return None


class Spaces:
    def __init__(self, ctx):
        self.ctx = ctx
        self.methods, self.mfd = derive_spaces(ctx)

    def collection(self, fn, e, depth=0):
        """space of positions of a collection expression, or None"""
        e = A.peel(e)
        k = A.kind(e)
        if depth > 5:
            return None
        if k == "Expr::Field" and A.kind(e["member"]) == "Member::Named":
            nm = e["member"]["0"]["sym"]
            base = expr_struct(self.ctx, fn, e["base"])
            if base == "State" and nm == "fields":
                return ALL
            if base in ("MultiFieldData",) and nm in self.mfd:
                return self.mfd[nm]
            return None
        if k == "Expr::MethodCall":
            nm = e["method"]["sym"]
            base = expr_struct(self.ctx, fn, e["receiver"])
            if base == "State" and nm in self.methods:
                return self.methods[nm]
            if nm in ("iter", "into_iter", "clone", "as_slice", "as_ref"):
                return self.collection(fn, e["receiver"], depth + 1)
            return None
        if k == "Expr::Path":
            nm = A.path_str(e)
            if "::" in nm:
                return None
            sp = A.span_of(e)
            b = TY.resolve(fn, nm, sp[0] if sp else 0)
            if b is None:
                return None
            # destructured from MultiFieldData / from enabled_fields_data()
            for fp, _ in A.find(b["pat"], "FieldPat"):
                m = fp["member"]
                mn = m["0"]["sym"] if A.kind(m) == "Member::Named" else None
                if nm in A.pat_idents(fp["pat"]):
                    for ps, _ in A.find(b["pat"], "Pat::Struct"):
                        if A.path_last(ps["path"]) == "MultiFieldData" and mn in self.mfd:
                            return self.mfd[mn]
            if b.get("init") is not None and b["kind"] == "let":
                return self.collection(fn, b["init"], depth + 1)
            if b["kind"] == "param":
                # a slice parameter: judged at the call sites (see rule)
                return ("param", nm)
        return None

    def index(self, fn, e, index_vars, depth=0):
        """space of an index expression, or None"""
        e = A.peel(e)
        k = A.kind(e)
        if depth > 6:
            return None
        if k == "Expr::Index":
            # value stored in an index table: field_indexes[i] -> All
            c = A.peel(e["expr"])
            if A.kind(c) == "Expr::Field" and A.kind(c["member"]) == "Member::Named" and c["member"]["0"]["sym"] == "field_indexes":
                return ALL
            return None
        if k == "Expr::Binary":
            l = self.index(fn, e["left"], index_vars, depth + 1)
            r = self.index(fn, e["right"], index_vars, depth + 1)
            return l or r
        if k in ("Expr::Unary",):
            return self.index(fn, e["expr"], index_vars, depth + 1)
        if k == "Expr::Field" and A.kind(e["member"]) == "Member::Named":
            key = (expr_struct(self.ctx, fn, e["base"]), e["member"]["0"]["sym"])
            return index_vars.get(key)
        if k == "Expr::Path":
            nm = A.path_str(e)
            if "::" in nm:
                return None
            sp = A.span_of(e)
            b = TY.resolve(fn, nm, sp[0] if sp else 0)
            if b is None:
                return None
            init = b.get("init")
            if b["kind"] == "param":
                # a parameter of a private helper: the space every call site of the same file passes in that position
                prm = [x for p_ in fn.node["sig"]["inputs"] if A.kind(p_) == "FnArg::Typed" for x in [A.pat_idents(p_["0"]["pat"])]]
                pos = next((i for i, ns in enumerate(prm) if ns == [nm]), None)
                if pos is None:
                    return None
                got = set()
                for g in A.functions(fn.file):
                    if g.block is None or g is fn:
                        continue
                    for c, _ in list(A.find(g.block, "Expr::MethodCall")) + list(A.find(g.block, "Expr::Call")):
                        cn = c["method"]["sym"] if A.kind(c) == "Expr::MethodCall" else A.path_last(c["func"]) if A.kind(c["func"]) == "Expr::Path" else None
                        if cn != fn.name or pos >= len(c["args"]):
                            continue
                        got.add(self.index(g, c["args"][pos], index_vars, depth + 1))
                return got.pop() if len(got) == 1 else None
            if b["kind"] in ("closure", "for") or (b["kind"] == "let" and init is None):
                # enumerate() tuple parameter
                cl = b.get("closure")
                if cl is not None:
                    return self._enumerate_space(fn, cl, nm)
                return None
            if b["kind"] == "arm":
                arm = b["arm"]
                # `Some(source) if ..` / `Some(source)` on a match over an index carrier
                for p in self._parents_of(fn, arm):
                    if A.kind(p) == "Expr::Match":
                        return self.index(fn, p["expr"], index_vars, depth + 1)
                return None
            if init is not None:
                ie = init
                while A.kind(ie) in ("Expr::Try", "Expr::Paren", "Expr::Reference"):
                    ie = ie["expr"]
                # `if let Some(x) = carrier` handled through 'iflet'
                return self.index(fn, ie, index_vars, depth + 1)
        if k == "Expr::MethodCall" and e["method"]["sym"] in ("unwrap", "clone", "copied", "unwrap_or_default"):
            return self.index(fn, e["receiver"], index_vars, depth + 1)
        if k == "Expr::Try":
            return self.index(fn, e["expr"], index_vars, depth + 1)
        if k == "Expr::MethodCall" and e["method"]["sym"] in ("map", "and_then") and len(e["args"]) == 1 and A.kind(e["args"][0]) == "Expr::Closure":
            # `carrier.map(|i| table[i])`: the space of what the closure yields
            return self.index(fn, e["args"][0]["body"], index_vars, depth + 1)
        if k == "Expr::MethodCall" and not e["args"] and A.kind(A.peel(e["receiver"])) == "Expr::Path" and A.path_str(A.peel(e["receiver"])) == "self":
            # an argument-less helper of the same impl: the space of the index it returns
            hs = [g for g in A.functions(fn.file) if g.name == e["method"]["sym"] and g.block is not None and g.self_ty == fn.self_ty and g is not fn]
            if len(hs) == 1 and hs[0].block["stmts"] and A.kind(hs[0].block["stmts"][-1]) == "Stmt::Expr":
                return self.index(hs[0], hs[0].block["stmts"][-1]["0"], index_vars, depth + 1)
        return None

    def _parents_of(self, fn, node):
        for x, ps in A.walk(fn.block):
            if x is node:
                return list(reversed(ps))
        return []

    def _enumerate_space(self, fn, closure, name):
        """closure parameter `name` bound from `.enumerate()` over a collection -> that collection's space"""
        for x, ps in A.walk(fn.block):
            if x is closure:
                mc = next((q for q in reversed(ps) if A.kind(q) == "Expr::MethodCall" and any(a is closure for a in q["args"])), None)
                if mc is None:
                    return None
                root, ops = A.chain(mc["receiver"])
                names = [o[1] for o in ops if o[0] == "m"]
                if "enumerate" not in names:
                    return None
                # the index is the first element of the (outermost) tuple pattern
                pat = A.render_pat(closure["inputs"][0])
                if not re.match(r"\(%s," % re.escape(name), pat):
                    return None
                # collection = receiver up to the first adaptor
                e = mc["receiver"]
                while A.kind(e) == "Expr::MethodCall" and e["method"]["sym"] in ("enumerate", "zip", "map", "iter", "into_iter", "filter", "cloned", "copied", "clone"):
                    e = e["receiver"]
                return self.collection(fn, e) if not isinstance(self.collection(fn, e), tuple) else None
        return None


def index_carriers(ctx, sp):
    """struct fields that carry an index, with the space of the index stored in them:
    ParsedFields.{source, backtrace} are filled from `(index, field, info)` triples of an `.enumerate()` over the
    *enabled* fields (`parse_fields_impl`). Derived from the source, fail-closed."""
    rel = "impl/src/error.rs"
    fn = A.get_fn(ctx.files, rel, "parse_fields_impl")
    carriers = {}
    # let iter = fields.iter().zip(..).enumerate().map(|(index, (field, info))| (index, *field, info));
    it = None
    for st, _ in A.find(fn.block, "Stmt::Local"):
        if st.get("init") and ".enumerate()" in A.render(st["init"]["expr"]):
            it = st
    if it is None:
        raise A.AnchorLost(f"{rel}::parse_fields_impl", "enumerate() over the fields")
    e = it["init"]["expr"]
    while A.kind(e) == "Expr::MethodCall" and e["method"]["sym"] in ("enumerate", "zip", "map", "iter", "into_iter", "cloned", "copied", "clone"):
        e = e["receiver"]
    space = sp.collection(fn, e)
    if space not in (ALL, EN):
        raise A.AnchorLost(f"{rel}::parse_fields_impl", f"cannot type the enumerated collection `{A.render(e)}`")
    body = A.fn_text(fn)
    from . import errsel as ES

    tags = ES.role_tags(ctx)
    for fld in ("source", "backtrace"):
        # `let <sel> = parse_field_impl(.., iter.clone(), "<fld>", ..)?;  if let Some((index,_,_)) = <sel> { parsed.<fld> = Some(index) }`
        m = A.wsearch(body, "let sel=parse_field_impl(&pred,state.fields.len(),iter.clone(),%s," % tags[fld])
        sel = m.group("v_sel") if m else None
        if sel and A.wsearch(body, "if let Some((index,_,_))=%s{parsed.%s=Some(index)}" % (sel, fld)):
            carriers[("ParsedFields", fld)] = space
    if len(carriers) != 2:
        # second accepted form: the indices are projected out of the selected triples and handed to the constructor
        # `ParsedFields::new(data, source, backtrace)`, which stores each parameter in the field of the same role
        newf = [g for g in A.functions(fn.file) if g.qual == "ParsedFields::new"]
        call = next((c for c, _ in A.find(fn.block, "Expr::Call") if A.kind(c["func"]) == "Expr::Path" and A.path_str(c["func"]) == "ParsedFields::new"), None)
        if newf and call is not None:
            prm = [A.pat_idents(p_["0"]["pat"]) for p_ in newf[0].node["sig"]["inputs"] if A.kind(p_) == "FnArg::Typed"]
            lit = next((x for x, _ in A.find(newf[0].block, "Expr::Struct")), None)
            stored = {}
            if lit is not None:
                for fv in lit["fields"]:
                    nm = fv["member"]["0"]["sym"] if A.kind(fv["member"]) == "Member::Named" else None
                    src = A.render(fv["expr"])
                    for i_, p_ in enumerate(prm):
                        if p_ == [src]:
                            stored[nm] = i_
            for fld in ("source", "backtrace"):
                if fld in stored and stored[fld] < len(call["args"]):
                    arg = call["args"][stored[fld]]
                    b = TY.resolve(fn, A.render(arg), A.span_of(arg)[0]) if A.kind(arg) == "Expr::Path" else None
                    init = A.render(b["init"]) if b and b.get("init") is not None else ""
                    if A.wsearch(init, "parse_field_impl(&pred,state.fields.len(),iter.clone(),%s," % tags[fld]) and re.search(r"\)\?\.map\(\|\((\w+),_,_\)\|\1\)$", init):
                        carriers[("ParsedFields", fld)] = space
    if len(carriers) != 2:
        # third accepted form: a struct literal `ParsedFields { source: sel.map(|(index, _, _)| index), .. }`
        lit = next((x for x, _ in A.find(fn.block, "Expr::Struct") if A.path_last(x["path"]) == "ParsedFields"), None)
        if lit is not None:
            for fv in lit["fields"]:
                nm = fv["member"]["0"]["sym"] if A.kind(fv["member"]) == "Member::Named" else None
                if nm not in ("source", "backtrace"):
                    continue
                m_ = re.fullmatch(r"(\w+)\.map\(\|\((\w+),_,_\)\|\2\)", A.render(fv["expr"]))
                if not m_:
                    continue
                inits = [A.render(st_["init"]["expr"]) for st_, _ in A.find(fn.block, "Stmt::Local") if st_.get("init") and A.pat_idents(st_["pat"]) == [m_.group(1)]]
                if inits and all(re.search(r"parse_field_impl\(&\w+,state\.fields\.len\(\),\w+(?:\.clone\(\))?,%s," % re.escape(tags[nm]), i_) for i_ in inits):
                    carriers[("ParsedFields", nm)] = space
    if len(carriers) != 2:
        # fourth accepted form: plain assignments `parsed_fields.source = sel.map(|(index, _, _)| index);`
        for asg, _ in A.find(fn.block, "Expr::Assign"):
            l = A.peel(asg["left"])
            if A.kind(l) != "Expr::Field" or A.kind(l["member"]) != "Member::Named" or l["member"]["0"]["sym"] not in ("source", "backtrace"):
                continue
            nm = l["member"]["0"]["sym"]
            m_ = re.fullmatch(r"(\w+)\.map\(\|\((\w+),_,_\)\|\2\)", A.render(asg["right"]))
            if not m_:
                continue
            inits = [A.render(st_["init"]["expr"]) for st_, _ in A.find(fn.block, "Stmt::Local") if st_.get("init") and A.pat_idents(st_["pat"]) == [m_.group(1)]]
            # (the length may be named first: `let len = state.fields.len();`)
            len_alias = {A.pat_idents(st_["pat"])[0] for st_, _ in A.find(fn.block, "Stmt::Local") if st_.get("init") and len(A.pat_idents(st_["pat"])) == 1 and A.render(st_["init"]["expr"]) == "state.fields.len()"}
            len_re = "|".join(["state\\.fields\\.len\\(\\)"] + [re.escape(x) for x in sorted(len_alias)])
            if inits and all(re.search(r"parse_field_impl\(&\w+,(?:%s),\w+(?:\.clone\(\))?,%s," % (len_re, re.escape(tags[nm])), i_) for i_ in inits):
                carriers[("ParsedFields", nm)] = space
    if len(carriers) != 2:
        raise A.AnchorLost(f"{rel}::parse_fields_impl", "assignments of source/backtrace from the enumerate index")
    return carriers


def rule_idx_space(ctx):
    """IDX-SPACE: every subscript `coll[i]` / `.get(i)` / `.nth(i)` on a State or MultiFieldData view, and every index handed to `MultiFieldData::matcher` (which compares against positions of *all* fields), uses an index produced in the same space (all fields vs. enabled fields)."""
    sp = Spaces(ctx)
    ctx.note(f"State methods: {sp.methods}; MultiFieldData fields: {sp.mfd}")
    ncoll = len(sp.methods) + len(sp.mfd)
    ctx.floor("collections typed", ncoll, 12)
    carriers = index_carriers(ctx, sp)
    ctx.note(f"index carriers: { {f'{k[0]}.{k[1]}': v for k, v in carriers.items()} }")
    # matcher's `indexes` parameter is compared with positions in state.fields
    mfn = A.get_fn(ctx.files, UTILS, "MultiFieldData::matcher")
    mtxt = ";".join(A.render_stmt(s) for s in mfn.block["stmts"])
    if "(0..self.state.fields.len()).map(|i|indexes.iter().position(|index|i==*index)" not in mtxt:
        raise A.AnchorLost(f"{UTILS}::MultiFieldData::matcher", "indexes are no longer compared with positions of state.fields")
    nsub = nmatch = 0
    for rel in ("impl/src/error.rs", "impl/src/utils.rs", "impl/src/try_into.rs", "impl/src/from_str.rs", "impl/src/unwrap.rs", "impl/src/try_unwrap.rs", "impl/src/is_variant.rs"):
        if rel not in ctx.files:
            continue
        for fn in A.functions(ctx.files[rel]):
            f = fn.file
            # subscripts
            for ix, ps in A.find(fn.block, "Expr::Index"):
                cs = sp.collection(fn, ix["expr"])
                if cs is None:
                    continue
                idx = ix["index"]
                if A.kind(idx) == "Expr::Range":
                    continue
                is_lit = A.kind(idx) == "Expr::Lit"
                isp = None if is_lit else sp.index(fn, idx, carriers)
                nsub += 1
                construct = f"{rel}::{fn.qual}:{A.render(ix)}"
                ctx.instance(construct, sample={"site": construct, "collection_space": cs if not isinstance(cs, tuple) else "param", "index_space": isp})
                if isinstance(cs, tuple):
                    continue
                if isp is not None and isp != cs:
                    ctx.report(
                        f"{rel}::{fn.qual}:{A.render(ix)}",
                        ctx.where(f, ix),
                        f"`{A.render(ix)}` in `{fn.qual}` subscripts a collection over *{cs.lower()}* fields with an index counted over *{isp.lower()}* fields: "
                        "with an `ignore`d field before the selected one the wrong field is picked (or the index is out of range and the derive panics)",
                        {},
                    )
            # matcher call sites
            for mc, ps in A.method_calls(fn.block, "matcher"):
                if expr_struct(ctx, fn, mc["receiver"]) != "MultiFieldData":
                    continue
                nmatch += 1
                arg = A.peel(mc["args"][0])
                elems = arg["elems"] if A.kind(arg) == "Expr::Array" else [arg]
                for el in elems:
                    if A.kind(arg) != "Expr::Array":
                        # a whole collection of indexes: must be the field_indexes table (values in All space)
                        r = A.render(el)
                        construct = f"{rel}::{fn.qual}:matcher({r})"
                        ctx.instance(construct, sample={"site": construct})
                        if not r.endswith(".field_indexes"):
                            ctx.report(construct, ctx.where(f, mc), f"`matcher` in `{fn.qual}` receives `{r}`, not positions among all fields (`field_indexes`)", {})
                        continue
                    isp = sp.index(fn, el, carriers)
                    construct = f"{rel}::{fn.qual}:matcher([{A.render(el)}])"
                    ctx.instance(construct, sample={"site": construct, "index_space": isp})
                    if isp == EN:
                        ctx.report(
                            construct,
                            ctx.where(f, mc),
                            f"`matcher(&[{A.render(el)}, ..])` in `{fn.qual}`: `matcher` places the binding at that position among *all* fields, but `{A.render(el)}` "
                            "counts *enabled* fields only: with an ignored field before it the pattern binds (and `source()` returns) the wrong field",
                            {},
                        )
            # calls passing a State-space collection to a helper that then mixes it with carrier indices
            for c, ps in A.calls(fn.block, lambda p: p == "infer_source_field"):
                cs = sp.collection(fn, c["args"][0])
                construct = f"{rel}::{fn.qual}:infer_source_field({A.render(c['args'][0])})"
                ctx.instance(construct, sample={"site": construct, "collection_space": cs})
                nsub += 1
                target = A.get_fn(ctx.files, rel, "infer_source_field")
                # inside: `fields.len() != 2` guards `infos[source]` with source derived from carriers
                inner = [sp.collection(target, ix["expr"]) for ix, _ in A.find(target.block, "Expr::Index")]
                inner = [x for x in inner if x in (ALL, EN)]
                if cs in (ALL, EN) and inner and any(x != cs for x in inner):
                    ctx.report(
                        construct,
                        ctx.where(f, c),
                        f"`infer_source_field` tests the length of the *{cs.lower()}*-fields slice it is given but then subscripts *{inner[0].lower()}*-field collections with the inferred position: "
                        "`struct T(#[error(ignore)] i32, Backtrace)` has two fields, one enabled -> index 1 is out of range (the derive panics)",
                        {},
                    )
    ctx.floor("subscript sites", nsub, 8)
    ctx.floor("matcher call sites", nmatch, 5)


DROPPING = {"filter", "filter_map", "skip", "skip_while", "take_while", "flat_map", "flatten", "rev", "step_by", "chain", "dedup", "peekable_skip"}
POSITIONAL_USE = (
    r'format_ident!\("_\{%(i)s\}"\)',
    r'format_ident!\("_\{\}",%(i)s\)',
    r"syn::Index::from\(%(i)s\)",
    r"Index::from\(%(i)s\)",
    r"syn::Member::Unnamed\(%(i)s\.into\(\)\)",
    r"\b(field_index|index|idx|position):%(i)s\b",
    r"Some\(%(i)s\.into\(\)\)",
    r"\(%(i)s,\w+(,\w+)*\)",
    r"\[%(i)s\]",
)


def rule_enumerate_positions(ctx):
    """IDX-ENUM: an `.enumerate()` index that names a field positionally (`_{i}`, `syn::Index::from(i)`, `Member::Unnamed(i)`, `field_index: i`, `(i, field, ..)` tuples carried on) counts *declaration* positions: the iterator it is applied to yields every field / element exactly once, in order (no `filter`, `skip`, `rev`, .. before the `enumerate`). Enumerating after a filter numbers the survivors, so a kept field behind a skipped one is read from / bound to its neighbour's position."""
    n = 0
    for rel, f in sorted(ctx.files.items()):
        if not rel.startswith("impl/src/"):
            continue
        for fn in A.functions(f):
            for mc, ps in A.find(fn.block, "Expr::MethodCall"):
                if mc["method"]["sym"] != "enumerate":
                    continue
                n += 1
                root, ops = A.chain(mc["receiver"])
                before = [o[1] for o in ops if o[0] == "m"]
                dropped = [m for m in before if m in DROPPING]
                recv = A.render(mc["receiver"])
                # the consumer of the (index, item) pairs: the closure of the next adapter, or the `for` pattern
                idx_name = None
                body = None
                parent = ps[-1] if ps else None
                if A.kind(parent) == "Expr::MethodCall" and parent.get("receiver") is mc and parent["args"] and A.kind(parent["args"][0]) == "Expr::Closure":
                    cl = parent["args"][0]
                    pat = A.render_pat(cl["inputs"][0]) if cl["inputs"] else ""
                    m = re.match(r"\(?\(?(\w+),", pat)
                    idx_name = m.group(1) if m else None
                    body = A.render(cl["body"])
                else:
                    fl = next((p for p in reversed(ps) if A.kind(p) == "Expr::ForLoop" and p.get("expr") is mc), None)
                    if fl is not None:
                        m = re.match(r"\(?(\w+),", A.render_pat(fl["pat"]))
                        idx_name = m.group(1) if m else None
                        body = ";".join(A.render_stmt(s) for s in fl["body"]["stmts"])
                positional = False
                if idx_name and body and idx_name != "_":
                    positional = any(re.search(p % {"i": re.escape(idx_name)}, body) for p in POSITIONAL_USE)
                key = f"{rel}::{fn.qual}:enumerate:{recv[:60]}"
                ctx.instance(key, sample={"fn": f"{rel}::{fn.qual}", "over": recv[:100], "index": idx_name, "positional_use": positional, "adapters_before": before})
                if dropped and (positional or idx_name is None):
                    ctx.report(
                        key,
                        ctx.where(f, mc["method"]),
                        f"`{fn.qual}` enumerates `{recv[:120]}` *after* `.{dropped[0]}(..)` and uses the index `{idx_name}` as a field position: survivors are renumbered from 0, so with a skipped / filtered element in front the index names the wrong field "
                        "(`as_ref()` returns `&self.0` instead of `&self.1`)",
                        {"adapters_before": before},
                    )
    ctx.floor("enumerate sites", n, 14)
    # the same for `.position(..)`: a position found among the *enabled* (or otherwise filtered) elements is not a
    # declaration position
    sp_ = Spaces(ctx)
    npos = 0
    for rel, f in sorted(ctx.files.items()):
        if not rel.startswith("impl/src/"):
            continue
        for fn in A.functions(f):
            for mc, ps in A.find(fn.block, "Expr::MethodCall"):
                if mc["method"]["sym"] not in ("position", "rposition"):
                    continue
                npos += 1
                root, ops = A.chain(mc["receiver"])
                before = [o[1] for o in ops if o[0] == "m"]
                dropped = [m for m in before if m in DROPPING]
                space = None
                try:
                    space = sp_.collection(fn, mc["receiver"])
                except Exception:
                    space = None
                # what the found position feeds
                positional = None
                for p_ in reversed(ps):
                    k_ = A.kind(p_)
                    if k_ == "Expr::Call" and re.search(r"(Index::from|Member::Unnamed|Index::new)$", A.path_str(p_["func"]) or ""):
                        positional = A.path_str(p_["func"])
                        break
                    if k_ == "Expr::Macro" and A.path_last(p_["mac"]["path"]) == "format_ident":
                        positional = "format_ident!"
                        break
                    if k_ == "Stmt::Local":
                        names = A.pat_idents(p_["pat"])
                        if len(names) == 1:
                            body = A.fn_text(fn)
                            if any(re.search(pt % {"i": re.escape(names[0])}, body) for pt in POSITIONAL_USE[:5]):
                                positional = f"`{names[0]}` used as a field position"
                        break
                    if k_ in ("Expr::Closure", "Item::Fn", "ImplItem::Fn"):
                        break
                recv = A.render(mc["receiver"])
                key = f"{rel}::{fn.qual}:position:{recv[:60]}"
                ctx.instance(key, sample={"fn": f"{rel}::{fn.qual}", "over": recv[:100], "space": space, "adapters_before": before, "positional_use": positional})
                if positional and (dropped or space == EN):
                    ctx.report(
                        key,
                        ctx.where(f, mc["method"]),
                        f"`{fn.qual}` takes the position of an element of `{recv[:100]}` - a sequence of the *{'enabled' if space == EN else 'filtered'}* fields only - and uses it as a declaration position ({positional}): with an ignored / skipped field before the selected one the generated code addresses the wrong field (`self.0` instead of `self.1`)",
                        {"adapters_before": before},
                    )
    ctx.note(f"{npos} `.position(..)` sites")
