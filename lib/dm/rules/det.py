"""C19 - expansion is a deterministic pure function of the derive input (DET-1/2/3)."""
import re

from .. import ast as A

AMBIENT = [
    (r"^std::collections::hash_map::RandomState", "process-random hash seed"),
    (r"^std::hash::RandomState", "process-random hash seed"),
    (r"^std::hash::random::RandomState", "process-random hash seed"),
    (r"^std::time::(SystemTime|Instant)", "wall clock"),
    (r"^std::env::", "process environment"),
    (r"^std::fs::", "file system"),
    (r"^std::process::", "process state"),
    (r"^std::thread::", "thread identity / thread-local state"),
    (r"^std::net::", "network"),
    (r"^std::io::(stdin|Stdin)", "stdin"),
    (r"^(rand|getrandom|fastrand)::", "random numbers"),
    (r"^std::sync::(Mutex|RwLock|OnceLock|LazyLock|Once|atomic)", "shared mutable state"),
    (r"^std::cell::(OnceCell|LazyCell)", "lazily initialised state"),
    (r"^core::sync::atomic", "shared mutable state"),
    (r"^std::thread::local::LocalKey", "thread-local state"),
    (r"^proc_macro::Span::(source_file|start|end|line|column|local_file|file)", "position of the call site"),
    (r"^proc_macro2::Span::(start|end|source_file|local_file|file|byte_range)", "position of the call site"),
    (r"^proc_macro::tracked", "tracked env/path"),
]

HASH_ITER = ("into_iter", "iter", "iter_mut", "keys", "values", "values_mut", "drain", "into_keys", "into_values", "retain", "extract_if")


def _split_generic_args(s):
    """top-level generic arguments of `Path<..>`"""
    i = s.find("<")
    if i < 0 or not s.endswith(">"):
        return []
    body = s[i + 1 : -1]
    out, depth, cur = [], 0, ""
    for ch in body:
        if ch in "<([":
            depth += 1
        elif ch in ">)]":
            depth -= 1
        if ch == "," and depth == 0:
            out.append(cur.strip())
            cur = ""
        else:
            cur += ch
    if cur.strip():
        out.append(cur.strip())
    return out


def rule_det_hasher(ctx):
    """DET-1: every HashMap/HashSet instantiated anywhere in the type-checked crate uses the fixed-state hasher `utils::DeterministicState`, and that hasher's `build_hasher` only default-constructs a hasher."""
    m = ctx.mir
    n = 0
    for t in m.hash_types:
        base = t.split("<", 1)[0]
        if base not in ("std::collections::HashMap", "std::collections::HashSet"):
            continue
        n += 1
        args = _split_generic_args(t)
        hasher = args[-1] if args else "?"
        ctx.instance(t, sample={"type": t, "hasher": hasher})
        want = 3 if base.endswith("HashMap") else 2
        if len(args) != want or hasher != "utils::DeterministicState":
            users = []
            for b in m.bodies:
                for l in b["locals"]:
                    if t in l["ty"]:
                        users.append(f"{l['rel']}:{l['line']} {b['path']}::{l['name']}")
            ctx.report(
                f"hasher:{t}",
                users[0].split(" ")[0] if users else "(type-checked crate)",
                f"hashed collection `{t}` is not built on `DeterministicState`: its iteration order depends on the process's random hash seed, "
                "so the order of generated impls / arms / predicates changes between compiler processes",
                {"users": users[:10]},
            )
    ctx.floor("hashed collection instantiations", n, 6)
    # build_hasher
    bs = [b for b in m.bodies if b["path"].endswith("DeterministicState as std::hash::BuildHasher>::build_hasher")]
    if len(bs) != 1:
        raise A.AnchorLost("utils::DeterministicState::build_hasher", f"{len(bs)} bodies")
    calls = [c["resolved"] or c["callee"] for c in bs[0]["calls"]]
    ctx.instance("DeterministicState::build_hasher", sample={"calls": calls})
    ok = all(re.search(r"DefaultHasher as (std|core)::default::Default>::default$", c) or c.endswith("::default") and "DefaultHasher" in c for c in calls) and len(bs[0]["locals"]) <= 1
    if not ok or not calls:
        ctx.report("build_hasher", f"{bs[0]['rel']}:{bs[0]['line']}", f"`DeterministicState::build_hasher` does more than default-construct a hasher: calls {calls}", {})
    # iteration sites (informational): where order of a hashed collection reaches the output
    sites = []
    for b in m.bodies:
        for c in b["calls"]:
            name = c["callee"].rsplit("::", 1)[-1]
            if name in HASH_ITER and ("HashMap<" in c["self_ty"] or "HashSet<" in c["self_ty"] or any("HashMap<" in a or "HashSet<" in a for a in c["args"][:1])):
                sites.append(f"{c['rel']}:{c['line']} {b['path']} {name}")
    ctx.note(f"{len(sites)} iteration sites over hashed collections: " + "; ".join(sorted(set(s.split(' ', 1)[1] for s in sites))[:12]))
    ctx.extra["hash_iteration_sites"] = sorted(set(sites))


def rule_det_ambient(ctx):
    """DET-2: no resolved call in any MIR body of the crate reaches an ambient-state API (random seeds, clocks, environment, file system, threads, atomics/locks, source positions) and no pointer is turned into an integer."""
    m = ctx.mir
    ncalls = 0
    for b in m.bodies:
        for c in b["calls"]:
            ncalls += 1
            for cand in (c["resolved"], c["callee"]):
                if not cand:
                    continue
                for pat, why in AMBIENT:
                    if re.search(pat, cand):
                        ctx.report(
                            f"ambient:{b['path']}:{cand}",
                            f"{c['rel']}:{c['line']}",
                            f"`{b['path']}` calls `{cand}` ({why}): the expansion is no longer a function of the derive input alone",
                            {"macros": c["macros"]},
                        )
        for c in b["casts"]:
            ctx.report(f"ptr2int:{b['path']}", f"{c['rel']}:{c['line']}", f"`{b['path']}` casts a pointer to `{c['to']}`: addresses differ between runs", {})
    ctx.cur.instances += ncalls
    ctx.cur.nontrivial.update({b["path"] for b in m.bodies if b["calls"]})
    ctx.cur.samples.append({"bodies": len(m.bodies), "resolved_calls_examined": ncalls})
    ctx.floor("MIR bodies", len(m.bodies), 700)
    ctx.floor("resolved calls", ncalls, 5000)


def rule_det_state(ctx):
    """DET-3: the generator keeps no state between expansions: no `static`, `thread_local!`, lazy/once cell or interior-mutable global in impl/src, and every entry point is `fn(TokenStream) -> TokenStream`."""
    m = ctx.mir
    for s in m.statics:
        if s["path"].endswith("_DECLS") and s["ty"] == "&'static [proc_macro::bridge::client::ProcMacro]":
            # the table of derives rustc itself injects into every proc-macro crate: immutable
            ctx.instance("static:_DECLS (rustc-injected, immutable)", nontrivial=False)
            continue
        ctx.report(f"static:{s['path']}", f"{s['rel']}:{s['line']}", f"`static {s['path']}: {s['ty']}` outlives a single expansion", {})
    n = 0
    for rel, f in sorted(ctx.files.items()):
        if not rel.startswith("impl/src"):
            continue
        for it, mods, cfgs in A.iter_items(f.ast["items"]):
            n += 1
            k = A.kind(it)
            if k == "Item::Static":
                ctx.report(f"static-item:{rel}:{it['ident']['sym']}", ctx.where(f, it), f"static item `{it['ident']['sym']}` in the generator", {})
            if k == "Item::Macro":
                nm = A.path_last(it["mac"]["path"])
                if nm in ("thread_local", "lazy_static"):
                    ctx.report(f"{nm}:{rel}", ctx.where(f, it), f"`{nm}!` declares state that survives between expansions (capacity / contents of earlier expansions influence later ones)", {})
        for mac, ps in A.macros(f.ast):
            nm = A.path_last(mac["path"])
            if nm in ("thread_local", "lazy_static"):
                ctx.report(f"{nm}:{rel}", ctx.where(f, mac["path"]), f"`{nm}!` declares state that survives between expansions", {})
    ctx.cur.instances += n
    ctx.instance("statics", sample={"statics": len(m.statics), "items_scanned": n})
    ents = m.entries
    for e in ents:
        ctx.instance(f"entry:{e['path']}", nontrivial=True)
    ctx.floor("proc-macro entry points", len(ents), 50)


def rule_det_address(ctx):
    """DET-ADDR: no decision, key or order in impl/src depends on a memory address: no `as *const _` / `as *mut _` cast, `ptr::addr_of!`, `core::ptr::eq`-keyed collection, `{:p}` formatting or `.as_ptr()` used as a value. Addresses differ from one rustc process to the next (ASLR, allocation history), so anything sorted, hashed or de-duplicated by them makes the expansion differ between compilations of the same source. Closed set, expected empty; positive control rules/positive/detaddr.rs."""
    import os

    def sites(files, prefix):
        out = []
        for rel, f in sorted(files.items()):
            if prefix and not rel.startswith(prefix):
                continue
            for fn in A.functions(f):
                if fn.block is None:
                    continue
                for c, _ in A.find(fn.block, "Expr::Cast"):
                    if A.kind(c["ty"]) == "Type::Ptr":
                        out.append((f, fn, c, "cast to a raw pointer"))
                for mc, _ in A.find(fn.block, "Expr::MethodCall"):
                    if mc["method"]["sym"] in ("as_ptr", "as_mut_ptr", "addr", "expose_addr"):
                        out.append((f, fn, mc, f"`.{mc['method']['sym']}()`"))
                for m_, _ in A.macros(fn.block, ("addr_of", "addr_of_mut")):
                    out.append((f, fn, m_, "`addr_of!`"))
        return out

    got = sites(ctx.files, "impl/src/")
    for f, fn, node, what in got:
        key = f"{f.rel}::{fn.qual}:{what}"
        ctx.instance(f"det-addr:{key}")
        ctx.report(f"det-addr:{key}", ctx.where(f, node), f"`{fn.qual}` takes a memory address ({what}): a value, key or order derived from it changes from one compiler process to the next, so the same source expands differently", {})
    ctx.cur.instances += 1
    ctx.note(f"{len(got)} address-taking sites")
    pos = os.path.join(os.path.dirname(os.path.dirname(os.path.dirname(os.path.dirname(os.path.abspath(__file__))))), "rules", "positive", "detaddr.rs")
    pc = sites(A.load_files([pos]), None)
    ctx.instance("det-addr:positive-control")
    if len(pc) != 2:
        ctx.report("det-addr:positive-control", "rules/positive/detaddr.rs", f"the positive control yields {len(pc)} sites instead of 2", {})
