"""C03 - format literals are interpreted exactly as std::fmt interprets them (Engine G rules)."""
import itertools
import os
import random
import re
import subprocess

from .. import ast as A
from .. import peg as G

# ---------------------------------------------------------------- reference: std::fmt (rustc_parse_format)

TYPES = {"": "Display", "?": "Debug", "x?": "Debug", "X?": "Debug", "o": "Octal", "x": "LowerHex", "X": "UpperHex", "p": "Pointer", "b": "Binary", "e": "LowerExp", "E": "UpperExp"}


def is_id_start(c):
    return c == "_" or G.xid_start(c)


def ref_word(s, i):
    if i < len(s) and is_id_start(s[i]):
        j = i + 1
        while j < len(s) and G.xid_continue(s[j]):
            j += 1
        return j
    return i


def ref_integer(s, i):
    j = i
    while j < len(s) and s[j] in "0123456789":
        j += 1
    if j == i:
        return None
    v = int(s[i:j])
    if v > G.MAX_USIZE:
        return ("overflow", j)
    return (v, j)


def ref_count(s, i):
    """-> (count-or-None, new_i) or 'reject'"""
    r = ref_integer(s, i)
    if r is not None:
        if r[0] == "overflow":
            return "reject"
        v, j = r
        if j < len(s) and s[j] == "$":
            return (("param", ("int", v)), j + 1)
        return (("int", v), j)
    j = ref_word(s, i)
    if j > i and j < len(s) and s[j] == "$":
        w = s[i:j]
        if w == "_":
            return "reject"
        return (("param", ("name", w)), j + 1)
    return (None, i)


def ref_format(s, i):
    """s[i-1] == '{'. -> (placeholder dict, new_i) or None (reject)"""
    ph = {"arg": None, "fill": None, "align": None, "sign": None, "alt": False, "zero": False, "width": None, "precision": None, "ty": ""}
    r = ref_integer(s, i)
    if r is not None:
        if r[0] == "overflow":
            return None
        ph["arg"] = ("int", r[0])
        i = r[1]
    else:
        j = ref_word(s, i)
        if j > i:
            w = s[i:j]
            if w == "_":
                return None
            ph["arg"] = ("name", w)
            i = j
    if i < len(s) and s[i] == ":":
        i += 1
        if i + 1 < len(s) and s[i + 1] in "<^>":
            ph["fill"] = s[i]
            ph["align"] = s[i + 1]
            i += 2
        elif i < len(s) and s[i] in "<^>":
            ph["align"] = s[i]
            i += 1
        if i < len(s) and s[i] in "+-":
            ph["sign"] = s[i]
            i += 1
        if i < len(s) and s[i] == "#":
            ph["alt"] = True
            i += 1
        havewidth = False
        if i < len(s) and s[i] == "0":
            if i + 1 < len(s) and s[i + 1] == "$":
                ph["width"] = ("param", ("int", 0))
                havewidth = True
                i += 2
            else:
                ph["zero"] = True
                i += 1
        if not havewidth:
            r = ref_count(s, i)
            if r == "reject":
                return None
            ph["width"], i = r
        if i < len(s) and s[i] == ".":
            i += 1
            if i < len(s) and s[i] == "*":
                ph["precision"] = ("star",)
                i += 1
            else:
                r = ref_count(s, i)
                if r == "reject":
                    return None
                if r[0] is None:
                    return None  # `.` without a precision: rustc reports an invalid format string
                ph["precision"], i = r
        # type
        if s.startswith("x?", i) or s.startswith("X?", i):
            ph["ty"] = s[i : i + 2]
            i += 2
        elif i < len(s) and s[i] == "?":
            ph["ty"] = "?"
            i += 1
        else:
            j = ref_word(s, i)
            ph["ty"] = s[i:j]
            i = j
        if ph["ty"] not in TYPES:
            return None
    while i < len(s) and G.rust_is_whitespace(s[i]):
        i += 1
    if i < len(s) and s[i] == "}":
        return ph, i + 1
    return None


def ref_parse(s):
    """list of placeholders (rustc's reading), or None when rustc rejects the literal's syntax"""
    out = []
    i = 0
    while i < len(s):
        c = s[i]
        if c == "{":
            if s.startswith("{{", i):
                i += 2
                continue
            r = ref_format(s, i + 1)
            if r is None:
                return None
            out.append(r[0])
            i = r[1]
        elif c == "}":
            if s.startswith("}}", i):
                i += 2
                continue
            return None
        else:
            i += 1
    return out


def ref_numbering(phs):
    """argument each placeholder denotes, with rustc's implicit counter (`.*` takes the next one first)"""
    n = 0
    out = []
    for p in phs:
        if p["precision"] == ("star",):
            n += 1
        if p["arg"] is None:
            out.append(("int", n))
            n += 1
        else:
            out.append(p["arg"])
    return out


# ---------------------------------------------------------------- model -> comparable form


def model_parse(interp, s):
    r = interp.run("format_string", s)
    if r is None:
        return None
    _, val = r
    formats = [v for v in val[1] if v is not None]
    out = []
    for f in formats:
        if not (isinstance(f, tuple) and f[0] == "Format"):
            raise A.AnchorLost("impl/src/fmt/parsing.rs::format", f"model value is not a Format: {f!r}")
        fd = f[1]
        ph = {"arg": None, "fill": None, "align": None, "sign": None, "alt": False, "zero": False, "width": None, "precision": None, "ty": ""}
        a = fd.get("arg")
        ph["arg"] = conv_arg(a)
        spec = fd.get("spec")
        if spec is not None:
            sd = spec[1]
            al = sd.get("align")
            if al is not None:
                # (Some(fill), align) | (None, align): bound value + tuple
                ph["align"] = align_of(al)
                ph["fill"] = fill_of(al)
            sg = sd.get("sign")
            ph["sign"] = {"Sign::Plus": "+", "Sign::Minus": "-"}.get(sg[0]) if sg else None
            ph["alt"] = sd.get("alternate") is not None
            ph["zero"] = sd.get("zero_padding") is not None
            ph["width"] = conv_count(sd.get("width"))
            pr = sd.get("precision")
            if pr is not None:
                if pr[0] == "Precision::Star":
                    ph["precision"] = ("star",)
                elif pr[0] == "Precision::Count":
                    ph["precision"] = conv_count(pr[1])
                else:
                    raise A.AnchorLost("impl/src/fmt/parsing.rs::precision", f"unknown label {pr[0]}")
            ph["ty"] = TY_LABEL.get(sd.get("ty")[0] if sd.get("ty") else None, "?unknown")
        out.append(ph)
    return out


TY_LABEL = {
    "Type::Display": "",
    "Type::Debug": "?",
    "Type::LowerDebug": "x?",
    "Type::UpperDebug": "X?",
    "Type::Octal": "o",
    "Type::LowerHex": "x",
    "Type::UpperHex": "X",
    "Type::Pointer": "p",
    "Type::Binary": "b",
    "Type::LowerExp": "e",
    "Type::UpperExp": "E",
}


def conv_arg(a):
    if a is None:
        return None
    if a[0] == "Argument::Integer":
        return ("int", a[1])
    if a[0] == "Argument::Identifier":
        return ("name", a[1])
    raise A.AnchorLost("impl/src/fmt/parsing.rs::argument", f"unknown label {a[0]}")


def conv_count(c):
    if c is None:
        return None
    if c[0] == "Count::Integer":
        return ("int", c[1])
    if c[0] == "Count::Parameter":
        return ("param", conv_arg(c[1]))
    raise A.AnchorLost("impl/src/fmt/parsing.rs::count", f"unknown label {c[0]}")


def align_of(al):
    for x in flatten(al):
        if isinstance(x, str) and x.startswith("Align::"):
            return {"Align::Left": "<", "Align::Center": "^", "Align::Right": ">"}[x]
    return "?"


def fill_of(al):
    if isinstance(al, tuple) and len(al) == 3 and al[0] == "bound":
        return al[1]
    return None


def flatten(v):
    if isinstance(v, (tuple, list)):
        for x in v:
            yield from flatten(x)
    else:
        yield v


# ---------------------------------------------------------------- rules


def extract(ctx):
    ex = G.Extractor(ctx.files)
    rules = ex.extract_all()
    return ex, rules


COMBINATOR_SHAPES = {
    # combinator -> method its closure must be built on (how std's Option/Iterator semantics give it its meaning)
    "try_seq": "try_fold",
    "alt": "find_map",
    "map": "map",
    "map_or_else": "map_or_else",
    "and_then": "and_then",
}


def rule_peg_combinators(ctx):
    """G-COMB: the 15 parser combinators keep the semantics the model assumes: `alt` = first success (find_map), `try_seq` = try_fold, `map`/`and_then`/`map_or_else` = Option's, `lookahead` returns its input, the repetition helpers loop while the inner parser succeeds and slice by consumed length, `char`/`str`/`check_char` advance by `len_utf8()`/`len()` after a successful test."""
    ex = G.Extractor(ctx.files)
    f = ex.f
    for name, meth in COMBINATOR_SHAPES.items():
        if name not in ex.fns:
            raise A.AnchorLost(f"impl/src/fmt/parsing.rs::{name}", "combinator missing")
        fn = ex.fns[name]
        ms = [m["method"]["sym"] for m, _ in A.method_calls(fn.block)]
        ctx.instance(f"combinator:{name}", sample={"combinator": name, "methods": ms})
        if meth not in ms:
            ctx.report(f"combinator:{name}", ctx.where(f, fn.node), f"combinator `{name}` is no longer built on `Option/Iterator::{meth}`: the grammar model's reading of it is unfounded - re-audit", {"methods": ms})
    # lookahead returns the original input
    fn = ex.fns.get("lookahead")
    if fn is None:
        raise A.AnchorLost("impl/src/fmt/parsing.rs::lookahead", "missing")
    txt = ";".join(A.render_stmt(x) for x in fn.block["stmts"])
    ctx.instance("combinator:lookahead")
    if "|_|input" not in txt:
        ctx.report("combinator:lookahead", ctx.where(f, fn.node), "`lookahead` does not return its original input any more", {"body": txt[:200]})
    # leaf parsers advance by the matched length
    for name, needle in (("char", "c.len_utf8()"), ("str", "s.len()"), ("check_char", "c.len_utf8()"), ("any_char", "c.len_utf8()"), ("take_any_char", "c.len_utf8()")):
        fn = ex.fns.get(name)
        if fn is None:
            raise A.AnchorLost(f"impl/src/fmt/parsing.rs::{name}", "leaf parser missing")
        ctx.instance(f"leaf:{name}")
        idx = [A.render(x["index"]) for x, _ in A.find(fn.block, "Expr::Index")]
        # `input.strip_prefix(<the same char / str>)` is std's spelling of 'test the prefix, advance by its length'
        prm_ = [x for p_ in fn.node["sig"]["inputs"] if A.kind(p_) == "FnArg::Typed" for x in A.pat_idents(p_["0"]["pat"])]
        sp_ = [mc_ for mc_, _ in A.find(fn.block, "Expr::MethodCall") if mc_["method"]["sym"] == "strip_prefix" and len(mc_["args"]) == 1 and A.render(A.peel(mc_["args"][0])) in prm_]
        if not idx and len(sp_) == 1 and name in ("char", "str"):
            continue
        if not idx or any(i != needle + ".." for i in idx):
            ctx.report(
                f"leaf:{name}",
                ctx.where(f, fn.node),
                f"leaf parser `{name}` slices its input by {idx} instead of `{needle}..`: a multi-byte character makes the slice start inside a character (panic) or skips the wrong amount",
                {},
            )
    # `any_char` / `take_any_char` accept *any* character: nothing filters what `chars().next()` yields
    for name in ("any_char", "take_any_char"):
        fn = ex.fns.get(name)
        ms = [m["method"]["sym"] for m, _ in A.method_calls(fn.block)]
        ctx.instance(f"leaf:{name}:any")
        extra = [m for m in ms if m in ("filter", "take_while", "skip_while", "filter_map", "find", "take_if", "is_some_and") or m.startswith("is_")]
        conds = [x for x, _ in A.walk(fn.block) if A.kind(x) in ("Expr::If", "Expr::Match")]
        if extra or conds:
            ctx.report(f"leaf:{name}:filtered", ctx.where(f, fn.node), f"`{name}` no longer accepts every character ({extra or 'a condition'}): the fill character of `[[fill]align]` may be any character in std, `{{:}}>4}}` included", {})
    for name in ("take_while0", "take_while1", "take_until1"):
        fn = ex.fns.get(name)
        if fn is None:
            raise A.AnchorLost(f"impl/src/fmt/parsing.rs::{name}", "repetition helper missing")
        idx = [A.render(x["index"]) for x, _ in A.find(fn.block, "Expr::Index")]
        # the slice may live in a one-expression helper called with (whole input, rest): read it with the arguments put in
        for c_, _ in A.find(fn.block, "Expr::Call"):
            h = ex.fns.get(A.path_str(c_["func"]) or "")
            if h is None or h.block is None or len(h.block["stmts"]) != 1:
                continue
            prm = [x for p_ in h.node["sig"]["inputs"] if A.kind(p_) == "FnArg::Typed" for x in A.pat_idents(p_["0"]["pat"])]
            if len(prm) != len(c_["args"]):
                continue
            for x, _ in A.find(h.block, "Expr::Index"):
                t_ = A.render(x["index"])
                for pn, a_ in zip(prm, c_["args"]):
                    t_ = re.sub(r"\b%s\b" % re.escape(pn), "\x00" + A.render(A.peel(a_)), t_)
                idx.append(t_.replace("\x00", ""))
        ctx.instance(f"repeat:{name}")
        if idx != ["..(input.len()-cur.len())"]:
            ctx.report(f"repeat:{name}", ctx.where(f, fn.node), f"`{name}` no longer returns the consumed prefix `..(input.len() - cur.len())` (found {idx})", {})
        loops = [x for x, _ in A.walk(fn.block) if A.kind(x) in ("Expr::While", "Expr::Loop")]
        if len(loops) != 1:
            ctx.report(f"repeat:{name}:loop", ctx.where(f, fn.node), f"`{name}` has {len(loops)} loops (expected one)", {})


def first_set(rules, n, seen=()):
    """over-approximate set of first characters / classes; returns (set, nullable)"""
    k = n.k
    if k == "lit":
        return ({("c", n.s[0])}, False) if n.s else (set(), True)
    if k == "cls":
        return ({("p", n.pred)}, False)
    if k in ("any", "anyv"):
        return ({("any",)}, False)
    if k in ("eof", "and", "not"):
        return (set(), True)
    if k == "ref":
        if n.name in seen:
            return (set(), False)
        return first_set(rules, rules[n.name], seen + (n.name,))
    if k == "seq":
        out = set()
        for it in n.items:
            s, nl = first_set(rules, it, seen)
            out |= s
            if not nl:
                return out, False
        return out, True
    if k == "alt":
        out = set()
        nl = False
        for it in n.items:
            s, x = first_set(rules, it, seen)
            out |= s
            nl = nl or x
        return out, nl
    if k in ("opt", "star"):
        s, _ = first_set(rules, n.p, seen)
        return s, True
    if k == "commit":
        s, _ = first_set(rules, n.p, seen)
        return s, True
    if k in ("plus", "map", "usize"):
        return first_set(rules, n.p, seen)
    if k == "wrap":
        out = set()
        for it in list(n.pre) + [n.p]:
            s, nl = first_set(rules, it, seen)
            out |= s
            if not nl:
                return out, False
        return out, True
    if k == "bind":
        s, nl = first_set(rules, n.p, seen)
        if nl:
            s2, nl2 = first_set(rules, n.cont, seen)
            return s | s2, nl2
        return s, False
    if k == "fnseq":
        out = set()
        for var, p, req in n.steps:
            s, nl = first_set(rules, p, seen)
            out |= s
            if not nl:
                return out, False
        return out, True
    raise ValueError(k)


def alt_literals(n):
    """for an alt of map(lit|char ..): the literal each alternative starts with (None for non-literals)"""
    out = []
    for it in n.items:
        x = it
        while x.k in ("map",):
            x = x.p
        out.append(x.s if x.k == "lit" else None)
    return out


def std_doc_tables(ctx):
    """(grammar text, type->trait table) from the toolchain's alloc/src/fmt.rs docs, else the frozen copy"""
    cand = []
    try:
        sysroot = subprocess.run(["rustc", "+nightly", "--print", "sysroot"], capture_output=True, text=True).stdout.strip()
        cand.append(os.path.join(sysroot, "lib/rustlib/src/rust/library/alloc/src/fmt.rs"))
    except OSError:
        pass
    frozen = os.path.join(A.VERIF, "rules", "std_fmt_grammar.txt")
    text = None
    for c in cand:
        if os.path.exists(c):
            text = open(c).read()
            src = c
            break
    if text is None:
        text = open(frozen).read()
        src = frozen
    gram = {}
    for m in re.finditer(r"^//! (\w+) := (.*)$", text, re.M):
        gram[m.group(1)] = m.group(2).strip()
    types = {}
    for m in re.finditer(r"^//! \* (\*nothing\*|`([^`]+)`) ⇒ \[`(\w+)`\]", text, re.M):
        types[m.group(2) or ""] = m.group(3)
    return src, gram, types


def rule_peg_tables(ctx):
    """G-TAB: table rules on the PEG extracted from fmt/parsing.rs against std's documented grammar: type table and trait mapping, ordered-choice soundness (no alternative shadowed by an earlier prefix), the `0`-flag / `0$` disambiguation, optional whitespace before `}`, and progress of every repetition."""
    ex, rules = extract(ctx)
    f = ex.f
    src, gram, types = std_doc_tables(ctx)
    ctx.note(f"reference grammar read from {src}: {len(gram)} productions, {len(types)} types")
    if len(gram) < 13 or len(types) != 11:
        raise A.AnchorLost("std::fmt documentation grammar", f"{len(gram)} productions / {len(types)} types parsed")
    frozen = os.path.join(A.VERIF, "rules", "std_fmt_grammar.txt")
    if os.path.exists(frozen):
        ftext = open(frozen).read()
        for k, v in gram.items():
            if f"//! {k} := {v}" not in ftext:
                ctx.note(f"toolchain grammar differs from the frozen copy for `{k}`")
    # --- type table
    ty = rules["type_"]
    if ty.k != "alt":
        raise A.AnchorLost("impl/src/fmt/parsing.rs::type_", "not an alt([..])")
    got = {}
    for it in ty.items:
        lab = it.val[1] if it.k == "map" and it.val[0] == "label" else None
        x = it.p if it.k == "map" else it
        lit = x.s if x.k == "lit" else ("" if x.k == "and" else None)
        got[lit] = lab
    for lit, trait in types.items():
        ctx.instance(f"type:{lit!r}")
        lab = got.get(lit)
        if lab is None:
            ctx.report(f"type-missing:{lit}", ctx.where(f, ex.fns["type_"].node), f"std type `{lit}` (=> {trait}) has no alternative in `type_`", {})
            continue
        if fmtparse_label_trait(ctx, ex, lab) != trait:
            ctx.report(f"type-trait:{lit}", ctx.where(f, ex.fns["type_"].node), f"type `{lit}` maps to `{lab}` whose trait_name is `{fmtparse_label_trait(ctx, ex, lab)}`, std says `{trait}`", {})
    for lit in got:
        if lit not in types:
            ctx.report(f"type-extra:{lit}", ctx.where(f, ex.fns["type_"].node), f"`type_` accepts `{lit}` which std does not document", {})
    # the empty type only directly before the end of the placeholder
    last = ty.items[-1]
    ctx.instance("type:empty-guard")
    lp = last.p if last.k == "map" else last
    if lp.k != "and":
        ctx.report("type-empty-unguarded", ctx.where(f, ex.fns["type_"].node), "the empty (Display) type alternative is not guarded by a lookahead on the end of the placeholder", {})
    # --- is_trivial: false exactly for x? / X?
    triv = A.get_fn(ctx.files, ex.rel, "Type::is_trivial")
    arms = [(A.render_pat(a["pat"]), A.render(a["body"])) for a, _ in A.find(triv.block, "Arm")]
    nontriv = set()
    for pat, body in arms:
        if body == "false":
            nontriv |= set(re.findall(r"Self::(\w+)", pat))
    ctx.instance("Type::is_trivial", sample={"non_trivial": sorted(nontriv)})
    if nontriv != {"LowerDebug", "UpperDebug"}:
        ctx.report("is_trivial", ctx.where(f, triv.node), f"`Type::is_trivial` is false for {sorted(nontriv)}; it must be false exactly for `x?`/`X?` (they change the output like a flag does)", {})
    # --- ordered choice: an earlier literal must not be a proper prefix of a later one
    n_alts = 0
    for name, rule in rules.items():
        for node in iter_nodes(rule):
            if node.k != "alt":
                continue
            n_alts += 1
            lits = alt_literals(node)
            ctx.instance(f"alt:{name}:{lits}")
            for i, a in enumerate(lits):
                for b in lits[i + 1 :]:
                    if a is not None and b is not None and b.startswith(a) and a != b:
                        ctx.report(f"alt-shadow:{name}:{a}<{b}", ctx.where(f, ex.fns[name].node), f"in `{name}` the alternative `{a}` stands before `{b}`: ordered choice never reaches `{b}`", {})
            # general shadowing: an alternative that cannot fail on input where a later one succeeds
    # count: parameter before integer; argument order irrelevant (disjoint first sets)
    cnt = rules["count"]
    order = [x.p.name if x.k == "map" and x.p.k == "ref" else None for x in cnt.items] if cnt.k == "alt" else []
    ctx.instance("count:order", sample=order)
    if order != ["parameter", "integer"]:
        ctx.report("count-order", ctx.where(f, ex.fns["count"].node), f"`count` tries {order}: `integer` before `parameter` turns `1$` into width 1 followed by a stray `$`", {})
    # fill+align before bare align
    fs = rules["format_spec"]
    st = {v: p for v, p, r in fs.steps}

    def deref(n_, depth=0):
        """follow references to helper grammar functions (a sub-parser extracted into its own fn)"""
        while n_ is not None and n_.k == "ref" and n_.name in rules and depth < 5:
            n_ = rules[n_.name]
            depth += 1
        return n_

    al = st.get("align")
    ctx.instance("format_spec:align")
    alp = deref(al.p) if al is not None and al.k == "opt" else None
    ok = alp is not None and alp.k == "alt" and len(alp.items) == 2 and deref(alp.items[0]).k == "bind" and deref(alp.items[0]).p.k == "anyv"
    if not ok:
        ctx.report("fill-align-order", ctx.where(f, ex.fns["format_spec"].node), "`format_spec` does not try `fill align` (any char followed by an alignment) before a bare alignment", {})
    # 0 flag guarded against `0$`
    zp = st.get("zero_padding")
    ctx.instance("format_spec:zero")
    ok = False
    if zp is not None and zp.k == "opt":
        x = deref(zp.p)
        x = deref(x.p) if x.k == "map" else x
        if x.k == "seq" and len(x.items) == 2 and x.items[0].k == "lit" and x.items[0].s == "0" and x.items[1].k == "and" and x.items[1].p.k == "cls" and x.items[1].p.pred == ("notin", "$"):
            ok = True
    if not ok:
        ctx.report("zero-flag-lookahead", ctx.where(f, ex.fns["format_spec"].node), "the `0` flag is not guarded by a look-ahead rejecting `$`: `{:0$}` (width taken from argument 0) is read as flag `0` + garbage", {})
    # order of the spec components
    names = [v for v, p, r in fs.steps if v]
    ctx.instance("format_spec:order", sample=names)
    if names != ["align", "sign", "alternate", "zero_padding", "width", "precision", "ty"]:
        ctx.report("spec-order", ctx.where(f, ex.fns["format_spec"].node), f"format_spec components are parsed in the order {names}; std: [[fill]align][sign]['#']['0'][width]['.' precision][type]", {})
    # --- [ws]* before '}'
    fmt = rules["format"]
    ctx.instance("format:ws")
    if "[ ws ] *" in gram.get("format", ""):
        if not has_ws_before_close(rules, fmt):
            ctx.report(
                "format-ws",
                ctx.where(f, ex.fns["format"].node),
                "`format` does not skip the optional whitespace std allows before `}` (`format := '{' [argument] [':' format_spec] [ws]* '}'`): "
                "`{_0 }` is a valid literal for format_args! but yields no placeholder here, so no bound is inferred",
                {},
            )
    # --- progress: every repetition body consumes input
    for name, rule in rules.items():
        for node in iter_nodes(rule):
            if node.k in ("star", "plus"):
                s, nullable = first_set(rules, node.p)
                ctx.instance(f"repeat:{name}")
                if nullable:
                    ctx.report(f"nullable-repeat:{name}", ctx.where(f, ex.fns[name].node), f"a repetition in `{name}` has a body that can succeed without consuming input (endless loop)", {})
    ctx.floor("alt nodes", n_alts, 9)


def fmtparse_label_trait(ctx, ex, label):
    fn = A.get_fn(ctx.files, ex.rel, "Type::trait_name")
    f = ex.f
    v = label.split("::")[-1]
    for a, _ in A.find(fn.block, "Arm"):
        if re.search(r"Self::%s\b" % v, A.render_pat(a["pat"])):
            b = a["body"]
            if A.kind(b) == "Expr::Lit":
                return b["lit"]["token"]["value"]
    return None


def iter_nodes(n):
    yield n
    for k in ("p", "q", "cont"):
        if hasattr(n, k) and isinstance(getattr(n, k), G.N):
            yield from iter_nodes(getattr(n, k))
    if hasattr(n, "items"):
        for it in n.items:
            yield from iter_nodes(it)
    if hasattr(n, "pre"):
        for it in n.pre:
            yield from iter_nodes(it)
    if hasattr(n, "steps"):
        for v, p, r in n.steps:
            yield from iter_nodes(p)


def has_ws_before_close(rules, fmt):
    """is there a whitespace-skipping step right before the closing '}' of `format`?"""
    steps = [(v, (rules[p.name] if p.k == "ref" and p.name in rules else p), r) for v, p, r in fmt.steps]
    for i, (v, p, r) in enumerate(steps):
        if p.k == "lit" and p.s == "}":
            if i > 0:
                q = steps[i - 1][1]
                for node in iter_nodes(q):
                    if node.k == "cls" and node.pred == ("ws",):
                        return True
            return False
        # a helper parser that does ws* '}' itself
        for node in iter_nodes(p):
            if node.k == "seq" and len(node.items) >= 2 and any(x.k == "star" and x.p.k == "cls" and x.p.pred == ("ws",) for x in node.items) and node.items[-1].k == "lit" and node.items[-1].s == "}":
                return True
            if node.k == "wrap" and node.pre and node.p.k == "lit" and node.p.s == "}":
                return True
    return False


# ---- bounded equivalence

ALPHABET_MISC = ["a", "_", "é", "0", "1", "9", " ", "ж", "€", "😀", "$", "*", "#", "+", "-", ".", ":", "<", "^", ">", "?", "x", "X", "o", "p", "b", "e", "E", "{", "}", "y", "\t"]


def gen_placeholders(seed, tier):
    """derivations of the union of both grammars (bounded)"""
    args = ["", "0", "1", "12", "a", "_a", "x", "é", "_", "_0", "type", "00", "18446744073709551616"]
    fills = ["", "<", "^", ">", "*<", " >", "é^", "0<", ">>", "€>", "😀^", "{<", "}>"]
    signs = ["", "+", "-"]
    alts = ["", "#"]
    zeros = ["", "0"]
    widths = ["", "5", "05", "1$", "0$", "w$", "_w$", "é$", "$"]
    precs = ["", ".", ".3", ".*", ".1$", ".p$", ".0", "._$"]
    types = ["", "?", "x?", "X?", "o", "x", "X", "p", "b", "e", "E", "y", "xx", "??", "x ?"]
    wss = ["", " ", "  ", "\t", "\u2003", "\u00a0 "]
    if tier != "thorough":
        # quick: pairwise-ish sample of the product
        rnd = random.Random(seed or 1)
        seen = set()
        # every single-component variation around a few bases
        bases = [("", "", "", "", "", "", "", "", ""), ("0", ">", "+", "#", "0", "5", ".3", "x", ""), ("a", "*<", "-", "", "", "w$", ".*", "?", " ")]
        comps = [args, fills, signs, alts, zeros, widths, precs, types, wss]
        for base in bases:
            for ci, comp in enumerate(comps):
                for v in comp:
                    t = list(base)
                    t[ci] = v
                    seen.add(tuple(t))
        for _ in range(6000):
            seen.add(tuple(rnd.choice(c) for c in comps))
        combos = sorted(seen)
    else:
        # thorough: every *pair* of component values occurs together (all-pairs over the 9 components), every single
        # variation around the bases, plus 400k random points of the 13M-point product (the full product needs tens of
        # GB once de-duplicated and is not affordable in this sandbox)
        rnd = random.Random((seed or 1) * 31337)
        seen = set()
        comps = [args, fills, signs, alts, zeros, widths, precs, types, wss]
        for i in range(len(comps)):
            for j in range(i + 1, len(comps)):
                for vi in comps[i]:
                    for vj in comps[j]:
                        for _ in range(3):
                            t = [rnd.choice(c) for c in comps]
                            t[i], t[j] = vi, vj
                            seen.add(tuple(t))
        for _ in range(400000):
            seen.add(tuple(rnd.choice(c) for c in comps))
        combos = sorted(seen)
    for a, f, s, al, z, w, p, t, ws in combos:
        spec = f + s + al + z + w + p + t
        if spec:
            yield "{" + a + ":" + spec + ws + "}"
            if not (f or s or al or z or w or p):
                pass
        else:
            yield "{" + a + ws + "}"
            yield "{" + a + ":" + ws + "}"


def gen_strings(seed, tier):
    phs = list(dict.fromkeys(gen_placeholders(seed, tier)))
    for p in phs:
        yield p
    rnd = random.Random((seed or 1) * 7919)
    # sequences of placeholders with text and escapes
    texts = ["", "t", "{{", "}}", "é ", "}", "{", "{{}}", " "]
    sample = rnd.sample(phs, min(len(phs), 400 if tier != "thorough" else 4000))
    for p in sample:
        for t1 in texts:
            yield t1 + p
            yield p + t1
    for _ in range(1500 if tier != "thorough" else 30000):
        k = rnd.randint(2, 3)
        yield "".join(rnd.choice(texts) + rnd.choice(sample) for _ in range(k)) + rnd.choice(texts)
    # one-edit neighbours
    for p in rnd.sample(phs, min(len(phs), 300 if tier != "thorough" else 5000)):
        for _ in range(4):
            i = rnd.randrange(len(p) + 1)
            c = rnd.choice(ALPHABET_MISC)
            op = rnd.randrange(3)
            if op == 0:
                yield p[:i] + c + p[i:]
            elif op == 1 and i < len(p):
                yield p[:i] + p[i + 1 :]
            elif i < len(p):
                yield p[:i] + c + p[i + 1 :]
    # all short strings over a small alphabet
    small = ["{", "}", ":", "0", "a", "$", ".", "*", "<", "?", "x", " ", "é"]
    L = 4 if tier != "thorough" else 5
    for n in range(0, L + 1):
        for tup in itertools.product(small, repeat=n):
            yield "".join(tup)


def rule_peg_equiv(ctx):
    """G-EQUIV: bounded equivalence of the grammar model extracted from fmt/parsing.rs with std's grammar (rustc_parse_format's documented reading): for every generated literal, std-accepted literals yield the same placeholder list (argument, fill/align, sign, `#`, `0`, width, precision, type); literals std rejects are not given placeholders that differ from what the accepted prefix... (reported as 'accepts what std rejects')."""
    ex, rules = extract(ctx)
    interp = G.Interp(rules)
    f = ex.f
    n = 0
    acc = 0
    distinct = set()
    diffs = {}
    for s in gen_strings(ctx.seed, ctx.tier):
        if s in distinct:
            continue
        distinct.add(s)
        n += 1
        ref = ref_parse(s)
        mod = model_parse(interp, s)
        if ref is not None:
            acc += 1
        if ref == mod:
            continue
        if ref is None and mod is not None:
            kind = "accepts-rejected"
        elif ref is not None and mod is None:
            kind = "rejects-accepted"
        else:
            kind = "different-reading"
        cls = classify_diff(s, ref, mod, kind)
        diffs.setdefault(cls, []).append(s)
    ctx.cur.instances += n
    ctx.cur.nontrivial.update(list(distinct)[:0])
    ctx.extra["equiv"] = {"literals": n, "std_accepted": acc, "disagreement_classes": {k: v[:5] for k, v in diffs.items()}}
    ctx.cur.samples.extend(list(itertools.islice((s for s in distinct if "{" in s), 3)))
    ctx.cur.nontrivial.update(itertools.islice(distinct, 50000))
    ctx.note(f"{n} distinct literals compared, {acc} accepted by std, {len(diffs)} disagreement classes")
    for cls, ex_s in sorted(diffs.items()):
        ctx.report(
            f"equiv:{cls}",
            f"{f.rel}:1",
            f"the literal parser disagrees with std::fmt ({cls}) on {len(ex_s)} generated literals, e.g. {ex_s[0]!r}: std reads {ref_parse(ex_s[0])}, the parser reads {model_parse(interp, ex_s[0])}",
            {"examples": ex_s[:10]},
        )
    ctx.floor("literals compared", n, 20000 if ctx.tier != "thorough" else 400000)


def classify_diff(s, ref, mod, kind):
    """stable, input-independent name for a class of disagreements"""
    if kind == "rejects-accepted":
        # which feature of the literal is responsible? try removing features
        if re.search(r"\s\}", s) and ref_parse(re.sub(r"\s+\}", "}", s)) is not None:
            return "rejects-accepted:whitespace-before-close"
        return "rejects-accepted:other"
    if kind == "accepts-rejected":
        return "accepts-rejected"
    return "different-reading"


def rule_fmt_counter(ctx):
    """G-COUNT: `Placeholder::parse_fmt_string` numbers implicit placeholders as std does: the counter advances exactly (a) when a placeholder has no explicit argument and (b) once more, beforehand, for a `.*` precision; explicit arguments never advance it; the derived trait name comes from `Type::trait_name`."""
    rel = "impl/src/fmt/mod.rs"
    fn = A.get_fn(ctx.files, rel, "Placeholder::parse_fmt_string")
    f = fn.file
    counters = [st for st, _ in A.find(fn.block, "Stmt::Local") if st.get("init") and A.render(st["init"]["expr"]) == "0" and A.kind(st["pat"]) == "Pat::Ident" and st["pat"].get("mutability")]
    if len(counters) != 1:
        raise A.AnchorLost(f"{rel}::Placeholder::parse_fmt_string", f"{len(counters)} counter variables (`let mut n = 0`)")
    cname = counters[0]["pat"]["ident"]["sym"]
    incs = []
    for b, ps in A.find(fn.block, "Expr::Binary"):
        if A.kind(b["op"]) == "BinOp::AddAssign" and A.render(b["left"]) == cname:
            # innermost enclosing condition / closure
            cond = None
            for p in reversed(ps):
                k = A.kind(p)
                if k == "Expr::If":
                    cond = ("if", A.render(p["cond"]))
                    break
                if k == "Arm":
                    cond = ("arm", A.render_pat(p["pat"]))
                    break
                if k == "Expr::Closure":
                    # closure passed to which method on what?
                    mc = next((q for q in reversed(ps) if A.kind(q) == "Expr::MethodCall" and any(a is p for a in q["args"])), None)
                    cond = ("closure", (mc["method"]["sym"] + " on " + A.render(mc["receiver"])) if mc else "?")
                    break
            incs.append((A.render(b["right"]), cond, A.span_of(b)[0]))
    ctx.instance("counter-increments", sample={"counter": cname, "increments": [(r, c) for r, c, _ in incs]})
    where = ctx.where(f, fn.node)
    none_inc = [i for i in incs if i[1] and i[1][0] == "closure" and i[1][1].startswith("unwrap_or_else") and "arg" in i[1][1]]
    none_inc += [i for i in incs if i[1] and i[1][0] == "arm" and i[1][1] == "None"]
    star_inc = [i for i in incs if i[1] and i[1][0] in ("if", "arm") and "Precision::Star" in i[1][1]]
    other = [i for i in incs if i not in none_inc and i not in star_inc]
    ctx.instance("counter:none-branch")
    if len(none_inc) != 1 or none_inc[0][0] != "1":
        ctx.report("counter-none", where, f"the implicit positional counter is not advanced by exactly 1 in the no-explicit-argument branch (found {[(r, c) for r, c, _ in none_inc]})", {})
    ctx.instance("counter:star")
    if len(star_inc) != 1 or star_inc[0][0] != "1":
        ctx.report(
            "counter-star",
            where,
            "`Precision::Star` (`.*`) does not advance the implicit positional counter: std takes the next positional argument for the precision first, "
            "so every following implicit placeholder (and this one) is numbered one too low",
            {},
        )
    elif none_inc and star_inc[0][2] > none_inc[0][2]:
        ctx.report("counter-star-order", where, "the `.*` increment happens after the placeholder's own position was assigned (std: precision argument first)", {})
    ctx.instance("counter:other")
    for r, c, _ in other:
        ctx.report(f"counter-extra:{c}", where, f"the implicit positional counter is also advanced under {c}: explicit arguments must not advance it", {})
    # every variant of Precision / Count / Argument that matters for numbering is distinguished
    txt = ";".join(A.render_stmt(s) for s in fn.block["stmts"])
    ctx.instance("trait-name-source")
    if ".trait_name()" not in txt:
        ctx.report("trait-name", where, "the placeholder's trait is no longer taken from `Type::trait_name()`", {})


def rule_single_placeholder(ctx):
    """TRANSP-EQUIV: the question transparency (C05) asks the parser - "is the literal exactly one placeholder and nothing else?" (`parsing::format(lit)` succeeds and leaves an empty rest) - gets std's answer on every generated literal: yes iff the literal starts with a (non-escaped) `{`, std's reading of that one placeholder ends at the last character of the literal; text, escapes or white space before or after the placeholder make it a no."""
    ex, rules = extract(ctx)
    interp = G.Interp(rules)
    if "format" not in rules:
        raise A.AnchorLost("impl/src/fmt/parsing.rs::format", "grammar rule missing")
    # the consumer really asks exactly this question
    fn = A.get_fn(ctx.files, "impl/src/fmt/mod.rs", "FmtAttribute::transparent_call")
    t = A.fn_text(fn)
    ctx.instance("single:consumer")
    if A.wsearch(t, "parsing::format(&lit).and_then(|(more,p)|more.is_empty().then_some(p))?") is None:
        ctx.report("single:consumer", ctx.where(fn.file, fn.node), "`transparent_call` no longer decides 'exactly one placeholder' by `parsing::format(&lit)` leaving an empty rest: the model of that question is unfounded - re-audit", {})
    tails = ["", " ", "\t", "\n", "  ", "x", "{{", "}}", "\u2003", "{}", " x"]
    heads = ["", " ", "x", "{{", "\n"]
    n = 0
    diffs = {}
    seen = set()
    phs = list(dict.fromkeys(gen_placeholders(ctx.seed, ctx.tier)))
    rnd = random.Random((ctx.seed or 1) * 104729)
    sample = rnd.sample(phs, min(len(phs), 2500 if ctx.tier != "thorough" else 30000))
    for p in sample:
        for h in heads:
            for tl in tails:
                if h and tl and ctx.tier != "thorough":
                    continue
                lit = h + p + tl
                if lit in seen:
                    continue
                seen.add(lit)
                if ref_parse(lit) is None:
                    continue
                n += 1
                r = ref_format(lit, 1) if lit.startswith("{") and not lit.startswith("{{") else None
                ref = r is not None and r[1] == len(lit)
                m = interp.run("format", lit)
                mod = m is not None and m[0] == len(lit)
                if ref != mod:
                    cls = ("model-says-single:" if mod else "model-says-not-single:") + ("trailing-whitespace" if tl.strip() == "" and tl else "leading" if h else "other")
                    diffs.setdefault(cls, []).append(lit)
    ctx.cur.instances += n
    ctx.cur.nontrivial.update(itertools.islice(seen, 5000))
    ctx.note(f"{n} std-accepted literals: 'exactly one placeholder' decided alike by std's reading and by the extracted `format` rule, {len(diffs)} disagreement classes")
    for cls, exs in sorted(diffs.items()):
        ctx.report(
            f"single:{cls}",
            f"{ex.f.rel}:1",
            f"`parsing::format` {'leaves an empty rest for' if cls.startswith('model-says-single') else 'does not consume all of'} {exs[0]!r} ({len(exs)} generated literals): "
            + ("a literal with text / white space around its placeholder is taken for a bare placeholder and delegated transparently, dropping that text" if cls.startswith("model-says-single") else "a bare placeholder is no longer delegated, the caller's flags are lost"),
            {"examples": exs[:10]},
        )
    ctx.floor("single-placeholder literals", n, 5000)


def rule_numeric_leaf(ctx):
    """NUM-LEAF: the `integer` leaf of the fmt grammar accepts every run of ASCII digits that `str::parse::<usize>` accepts and yields its value: no range check, filter or comparison is applied to the parsed number (std's own limit - widths / precisions / positions above u16::MAX - is rustc's to report on the literal it is handed verbatim; an *exclusive* or otherwise narrower limit here makes a literal std accepts, e.g. `{:65535}`, unparseable, so the derive sees no placeholders in it)."""
    ex = G.Extractor(ctx.files)
    fn = ex.fns.get("integer")
    if fn is None:
        raise A.AnchorLost("impl/src/fmt/parsing.rs::integer", "leaf parser missing")
    f = fn.file
    ctx.instance("integer:unfiltered")
    ms = [m_["method"]["sym"] for m_, _ in A.find(fn.block, "Expr::MethodCall")]
    extra = [m for m in ms if m in ("filter", "take_if", "then", "then_some", "is_some_and", "min", "max", "clamp", "checked_sub", "saturating_sub") or m.startswith("try_")]
    cmps = [A.render(b) for b, _ in A.find(fn.block, "Expr::Binary") if A.kind(b["op"]) in ("BinOp::Lt", "BinOp::Le", "BinOp::Gt", "BinOp::Ge", "BinOp::Eq", "BinOp::Ne")]
    conds = [x for x, _ in A.walk(fn.block) if A.kind(x) in ("Expr::If", "Expr::Match")]
    if extra or cmps or conds or "parse" not in ms:
        ctx.report("leaf:integer:filtered", ctx.where(f, fn.node), f"`integer` no longer yields every parsed digit run ({', '.join(extra + cmps) or 'a condition'}): a number std accepts in a width / precision / position makes the whole literal unparseable and the derive silently treats it as having no placeholders", {})
