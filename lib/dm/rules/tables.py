"""String tables of the fmt derives, read as tables (whatever their form) and compared with std's own table."""
import re

from .. import ast as A
from . import cfg as CFG
from . import fmtparse as FP


def _snake(s):
    return re.sub(r"(?<!^)([A-Z])", r"_\1", s).lower()


def rule_fmt_trait_tables(ctx):
    """TRAIT-TABLE: the three trait-name tables of the fmt derives, read as key -> value tables whatever their form (`match` on strings, guard arms, `if` chains, a const table of pairs): for every fmt trait registered in impl/src/lib.rs, `trait_name_to_default_placeholder_literal(T)` is `{}` for Display and `{:<c>}` with <c> the type character std's documentation assigns to T (read from the toolchain's alloc/src/fmt.rs), `trait_name_to_attribute_name(T)` is snake_case(T), `normalize_trait_name(T)` is T. A wrong row makes a derived `UpperHex` print lower-case digits (or require `LowerHex` of the field while the bound says `UpperHex`) for single-field delegation."""
    table = CFG.derive_table(ctx)
    disp = sorted(tr for feat, mod, tr, _ in table if mod == "fmt::display")
    dbg = sorted(tr for feat, mod, tr, _ in table if mod == "fmt::debug")
    if len(disp) < 8 or not dbg:
        raise A.AnchorLost("impl/src/lib.rs", f"fmt derives registered: {disp} {dbg}")
    src, gram, types = FP.std_doc_tables(ctx)
    tchar = {}
    for lit, trait in types.items():
        if lit in ("x?", "X?"):
            continue
        tchar.setdefault(trait, lit)
    if len(tchar) != 9:
        raise A.AnchorLost("std::fmt documentation", f"trait table has {len(tchar)} traits")
    ctx.note(f"std's trait table read from {src}: {sorted(tchar.items())}")
    specs = (
        ("impl/src/fmt/display.rs", "trait_name_to_default_placeholder_literal", disp + dbg, lambda t: "{}" if tchar[t] == "" else "{:" + tchar[t] + "}", "placeholder that selects the trait"),
        ("impl/src/fmt/mod.rs", "trait_name_to_attribute_name", disp + dbg, _snake, "helper attribute name"),
        ("impl/src/fmt/display.rs", "normalize_trait_name", disp, lambda t: t, "normalised trait name"),
    )
    for rel, qual, traits, want, what in specs:
        fn = A.get_fn(ctx.files, rel, qual)
        tab = A.string_table(fn)
        w = ctx.where(fn.file, fn.node)
        if tab is None:
            raise A.AnchorLost(f"{rel}::{qual}", "not readable as a string table")
        for t in traits:
            construct = f"{qual}:{t}"
            ctx.instance(construct, sample={"key": t, "value": tab.get(t), "expected": want(t)})
            if t not in tab:
                # `Debug` is never asked of the display-only tables
                if t in dbg and qual != "trait_name_to_attribute_name":
                    continue
                ctx.report(f"trait-table:missing:{construct}", w, f"`{qual}` has no row for the registered derive `{t}`", {"table": tab})
            elif tab[t] != want(t):
                ctx.report(f"trait-table:wrong:{construct}", w, f"`{qual}` maps `{t}` to {tab[t]!r}; the {what} of `{t}` is {want(t)!r}: a derived `{t}` formats single delegated fields with another trait than the one it implements and bounds", {"table": tab})
    ctx.floor("trait table rows", sum(len(s[2]) for s in specs), 26)
