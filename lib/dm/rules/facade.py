"""Run-time helper types of the facade crate (src/*.rs) that the generated code returns as errors."""
import re

from .. import ast as A

# error type -> fields its message must name (audited on the pinned tree: what the documentation of each derive promises
# the error to say)
ERROR_FIELDS = {
    ("src/str.rs", "FromStrError"): ["type_name"],
    ("src/ops.rs", "UnitError"): ["operation_name"],
    ("src/add.rs", "WrongVariantError"): ["operation_name"],
    ("src/convert.rs", "TryFromReprError"): ["input"],
    ("src/convert.rs", "TryIntoError"): ["variant_names", "output_type"],
    ("src/try_unwrap.rs", "TryUnwrapError"): ["enum_name", "variant_name", "func_name"],
}


def _display_impls(f):
    for fn in A.functions(f):
        if fn.name == "fmt" and fn.trait_ and fn.trait_.split("::")[-1] == "Display" and fn.block is not None:
            yield fn


def rule_error_display(ctx):
    """ERR-MSG: the error types derived code returns (`FromStrError`, `TryFromReprError`, `TryIntoError`, `TryUnwrapError`, `UnitError`, `WrongVariantError`, `BinaryError`) render a complete message whatever flags the caller formats them with: in each `Display::fmt` the formatter is used only as the sink of `write!` / `writeln!` / `write_str` / `write_fmt` (never handed to a part's own `fmt`, never `pad`ded - that would apply the caller's width / precision to one fragment, e.g. truncate the enum name out of the message under `{:.3}`) unless the whole body is a pure delegation, and the message names every identifying field of the error."""
    n = 0
    seen = set()
    for rel, f in sorted(ctx.files.items()):
        if not rel.startswith("src/") or rel == "src/fmt.rs":
            continue
        for fn in _display_impls(f):
            ty = (fn.self_ty or "").split("<")[0].split("::")[-1]
            construct = f"{rel}::{ty}::fmt"
            n += 1
            seen.add((rel, ty))
            w = ctx.where(f, fn.node)
            params = [A.pat_idents(p["0"]["pat"]) for p in fn.node["sig"]["inputs"] if A.kind(p) == "FnArg::Typed"]
            if len(params) != 1 or len(params[0]) != 1:
                raise A.AnchorLost(construct, "formatter parameter")
            fm = params[0][0]
            # every occurrence of the formatter
            sinks, leaks = 0, []
            for x, ps in A.walk(fn.block):
                k = A.kind(x)
                if k in ("Expr::Macro", "Stmt::Macro"):
                    mac = x["mac"]
                    nm = A.path_last(mac["path"])
                    toks = mac["tokens"]
                    ids = [t for t in toks if A.kind(t) == "Ident" and t["sym"] == fm]
                    if not ids:
                        continue
                    if nm in ("write", "writeln") and A.kind(toks[0]) == "Ident" and toks[0]["sym"] == fm and len(ids) == 1:
                        sinks += 1
                    else:
                        leaks.append(f"{nm}!(.. {fm} ..)")
                elif k == "Expr::Path" and A.path_str(x) == fm:
                    par = ps[-1] if ps else None
                    if A.kind(par) == "Expr::MethodCall" and par["receiver"] is x and par["method"]["sym"] in ("write_str", "write_fmt", "write_char"):
                        sinks += 1
                    elif A.kind(par) == "Expr::MethodCall" and par["receiver"] is x:
                        leaks.append(f"{fm}.{par['method']['sym']}(..)")
                    else:
                        leaks.append("`" + A.render(par)[:60] + "`" if par is not None else fm)
            # a pure delegation: every leak is `<part>.fmt(f)` / `Trait::fmt(part, f)` and nothing is written besides
            pure = bool(leaks) and sinks == 0 and all(re.search(r"fmt\(", l_) for l_ in leaks)
            ctx.instance(construct, sample={"type": ty, "sink uses": sinks, "formatter handed on": leaks, "pure delegation": pure})
            if leaks and not pure:
                ctx.report(f"err-msg:flag-leak:{construct}", w, f"`<{ty} as Display>::fmt` hands its formatter on ({leaks[:3]}) besides writing text itself: the caller's width / precision / fill then apply to that fragment only (`{{:.3}}` cuts the name out of the message, `{{:12}}` pads inside it)", {})
            flds = ERROR_FIELDS.get((rel, ty))
            if flds:
                txt = A.fn_text(fn)
                # `let Self { field, other: alias, .. } = self;` makes `field` / `alias` stand for `self.field`
                binders = {}
                for st, _ in A.find(fn.block, "Stmt::Local"):
                    pat = st["pat"]
                    if A.kind(pat) == "Pat::Struct" and st.get("init") and A.render(A.peel(st["init"]["expr"])) in ("self", "*self"):
                        for fp in pat["fields"]:
                            if A.kind(fp["member"]) == "Member::Named":
                                ids = A.pat_idents(fp["pat"])
                                if len(ids) == 1:
                                    binders[fp["member"]["0"]["sym"]] = ids[0]
                # names formatted by the write! calls: inline `{name..}` placeholders and identifier arguments
                shown = set()
                for x, _ in A.walk(fn.block):
                    if A.kind(x) in ("Expr::Macro", "Stmt::Macro") and A.path_last(x["mac"]["path"]) in ("write", "writeln"):
                        for t_ in x["mac"]["tokens"]:
                            if A.kind(t_) == "Literal" and isinstance(t_.get("lit"), dict) and t_["lit"].get("kind") == "str":
                                shown.update(re.findall(r"\{([A-Za-z_][A-Za-z0-9_]*)[:}]", t_["lit"].get("value") or ""))
                            elif A.kind(t_) == "Ident":
                                shown.add(t_["sym"])
                for fld in flds:
                    ctx.instance(f"{construct}:{fld}")
                    if not re.search(r"self\." + re.escape(fld) + r"\b", str(txt)) and binders.get(fld) not in shown:
                        ctx.report(f"err-msg:field:{construct}:{fld}", w, f"the message of `{ty}` no longer mentions `self.{fld}`: the error does not say what it is about", {})
    for key in ERROR_FIELDS:
        if key not in seen:
            raise A.AnchorLost(f"{key[0]}::{key[1]}", "Display impl not found")
    ctx.floor("error Display impls", n, 7)
