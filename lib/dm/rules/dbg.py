"""C06 - derive_more::Debug without attributes is indistinguishable from std Debug (builder shape, SIB)."""
import os
import re
import subprocess

from .. import ast as A
from .. import tpl as T

DEBUG = "impl/src/fmt/debug.rs"


def tx(t):
    return A.TTxt(T.ir_text(t.ir).replace(" ", ""))


def rule_builder_shape(ctx):
    """DBG-SHAPE: without a container attribute `generate_body` drives std's builders exactly like `#[derive(Debug)]`: unit -> `Formatter::write_str(f, name)`; named -> `debug_struct(f, name)`, one `DebugStruct::field(_, "<un-raw field name>", &field)` per non-skipped field in declaration order, `finish()` iff nothing was skipped else `finish_non_exhaustive()`; positional -> the same with the crate's `debug_tuple` / `DebugTuple`; a field-level format replaces only that field's value by `&format_args!(..)`."""
    fn = A.get_fn(ctx.files, DEBUG, "Expansion::generate_body")
    f = fn.file
    w = ctx.where(f, fn.node)
    t = A.fn_text(fn)
    tt = A.TList(tx(x) for x in T.templates_both(fn))
    from . import fmtdec

    F = fmtdec.formatter_name(ctx, DEBUG)

    def need(key, cond, msg, detail=None):
        ctx.instance(key)
        if not cond:
            ctx.report(key, w, msg, detail or {"templates": tt})

    need("dbg:unit", f"derive_more::core::fmt::Formatter::write_str({F},#ident,)" in tt, "a unit struct / variant no longer prints through `Formatter::write_str(f, name)` (std pads nothing and ignores flags there, `write!`/`Display::fmt` would not)")
    need("dbg:tuple:open", f"&mutderive_more::__private::debug_tuple({F},#ident_str,)" in tt, "positional fields no longer start with `debug_tuple(f, name)`")
    need("dbg:tuple:field", "derive_more::__private::DebugTuple::field(#out,&#ident)" in tt, "a positional field is no longer handed to `DebugTuple::field(_, &field)` as the field itself")
    need("dbg:tuple:fmt-field", "derive_more::__private::DebugTuple::field(#out,&derive_more::core::format_args!(#fmt_attr,#(#deref_args),*),)" in tt, "a positional field with `#[debug(\"..\")]` is no longer replaced by `&format_args!(..)` of that attribute only")
    fin_sel = _finisher_selection(fn)
    need("dbg:tuple:finish", ("derive_more::__private::DebugTuple::finish(#out)" in tt and "derive_more::__private::DebugTuple::finish_non_exhaustive(#out)" in tt) or fin_sel.get("derive_more::__private::DebugTuple") == {True: "finish", False: "finish_non_exhaustive"}, "tuple finishers changed")
    need("dbg:struct:open", f"&mutderive_more::core::fmt::Formatter::debug_struct({F},#ident,)" in tt, "named fields no longer start with `Formatter::debug_struct(f, name)`")
    need("dbg:struct:field", "derive_more::core::fmt::DebugStruct::field(#out,#field_str,&#field_ident)" in tt, "a named field is no longer handed to `DebugStruct::field(_, name, &field)`")
    need("dbg:struct:fmt-field", "derive_more::core::fmt::DebugStruct::field(#out,#field_str,&derive_more::core::format_args!(#fmt_attr,#(#deref_args),*),)" in tt, "a named field with `#[debug(\"..\")]` is no longer `field(_, name, &format_args!(..))`")
    need("dbg:struct:finish", ("derive_more::core::fmt::DebugStruct::finish(#out)" in tt and "derive_more::core::fmt::DebugStruct::finish_non_exhaustive(#out)" in tt) or fin_sel.get("derive_more::core::fmt::DebugStruct") == {True: "finish", False: "finish_non_exhaustive"}, "struct finishers changed")
    # declaration order and skip handling: a fold over the fields in order, `exhaustive` cleared exactly by Skip
    folds = _exhaustive_folds(fn)
    need("dbg:tuple:order", any(f_["over"] == "unnamed.unnamed.iter().enumerate()" for f_ in folds) and 'let ident=format_ident!("_{}",i)' in t, "positional fields are no longer folded in declaration order under their binder `_{i}`", {})
    need("dbg:struct:order", any(f_["over"] == "named.named.iter()" for f_ in folds), "named fields are no longer folded in declaration order", {})
    # the flag starts `true`, a skipped field clears it, every other field leaves it alone - whether it is a captured
    # `let mut` or the second component of the fold's accumulator
    ok_skip = len(folds) == 2 and all(f_["init"] == "true" and f_["arms"] and all((eff == "false") == ("FieldAttribute::Left" in pat and "Some" in pat) and eff in ("false", "same") for pat, eff in f_["arms"]) and any(eff == "false" for _p, eff in f_["arms"]) for f_ in folds)
    need("dbg:skip", ok_skip, "`exhaustive` is no longer cleared exactly by a skipped field (and only then)", {"folds": [{k_: v_ for k_, v_ in f_.items()} for f_ in folds]})
    fin = re.findall(r"Ok\(if exhaustive\{quote!\(([^)]*::)finish\(#out\)\)\}else \{quote!\(\1finish_non_exhaustive\(#out\)\)\}\)", t)
    need("dbg:finisher-choice", len(fin) == 2 or (len(fin_sel) == 2 and all(v == {True: "finish", False: "finish_non_exhaustive"} for v in fin_sel.values())), "`finish()` is no longer chosen iff no field was skipped (else `finish_non_exhaustive()`): the `..` marker appears / disappears wrongly", {"found": fin})
    need("dbg:field-name", "let field_str=field_ident.unraw().to_string()" in t and t.index("let field_str=field_ident.unraw().to_string()") < t.index("match FieldAttribute::parse_attrs(&field.attrs,self.attr_name)?", t.index("named.named.iter()")), "the printed field name is no longer the un-raw identifier computed once for all three field arms", {})
    # container attribute first
    # (the transparent-first / write! decision itself, inline or in a shared helper of the attribute, is TRANSP-SIB's subject)
    mh = re.match(r"if let Some\(fmt\)=&self\.attr\.fmt\{return Ok\(fmt\.(\w+)\(self\.fields\)\)", t)
    via_helper = False
    if mh:
        hs = [g for g in A.functions(ctx.files["impl/src/fmt/mod.rs"]) if g.name == mh.group(1) and g.block is not None]
        via_helper = len(hs) == 1 and "transparent_call_on_fields" in A.fn_text(hs[0]) and "write!" in A.fn_text(hs[0])
    need("dbg:container-attr", via_helper or t.startswith("if let Some(fmt)=&self.attr.fmt{return Ok(if let Some((expr,trait_ident))=fmt.transparent_call_on_fields(self.fields){"), "a container-level format is no longer handled before (and instead of) the builders", {})


def _finisher_selection(fn):
    """`Builder::#finish(#out)` with the method name chosen by the exhaustiveness flag: {builder path: {True: name when
    exhaustive, False: name otherwise}} - the name comes from `if <flag> { format_ident!("a") } else { format_ident!("b") }`,
    inline or in a helper of the file called with the flag"""
    out = {}
    lets = {}
    for st, _ in A.find(fn.block, "Stmt::Local"):
        ids = A.pat_idents(st["pat"])
        if len(ids) == 1 and st.get("init"):
            lets.setdefault(ids[0], []).append(st["init"]["expr"])

    def choice(e):
        """{True: name, False: name} of an if/else on the flag `exhaustive` building two constant identifiers"""
        e = A.peel(e)
        if A.kind(e) == "Expr::Call" and A.kind(e["func"]) == "Expr::Path" and len(e["args"]) == 1 and A.render(e["args"][0]) == "exhaustive":
            hs = [g for g in A.functions(fn.file) if g.name == A.path_str(e["func"]) and g.block is not None]
            if len(hs) == 1 and len(hs[0].block["stmts"]) == 1 and A.kind(hs[0].block["stmts"][0]) == "Stmt::Expr":
                prm = [A.pat_idents(p_["0"]["pat"]) for p_ in hs[0].node["sig"]["inputs"] if A.kind(p_) == "FnArg::Typed"]
                inner = hs[0].block["stmts"][0]["0"]
                if len(prm) == 1 and len(prm[0]) == 1 and A.kind(inner) == "Expr::If" and A.render(inner["cond"]) == prm[0][0]:
                    return branches(inner)
            return None
        if A.kind(e) == "Expr::If" and A.render(e["cond"]) == "exhaustive":
            return branches(e)
        return None

    def branches(iff):
        def name(b):
            st_ = b["stmts"] if A.kind(b) == "Block" else None
            if st_ and len(st_) == 1 and A.kind(st_[0]) == "Stmt::Expr":
                d = A.ident_ctor(st_[0]["0"])
                if d and not d["args"]:
                    return d["pattern"]
            return None

        eb = iff.get("else_branch")
        eb = eb[1] if isinstance(eb, list) else eb
        if eb is not None and A.kind(eb) == "Expr::Block":
            eb = eb["block"]
        a, b = name(iff["then_branch"]), name(eb) if eb is not None else None
        return {True: a, False: b} if a and b else None

    for t in T.templates_of(fn):
        m = re.fullmatch(r"([\w:]+)::#(\w+)\(#out\)", T.ir_text(t.ir).replace(" ", ""))
        if m:
            for init in lets.get(m.group(2), []):
                c = choice(init)
                if c:
                    out[m.group(1)] = c
    return out


def _exhaustive_folds(fn):
    """the `try_fold`s over the fields of `generate_body`: what they iterate, how the exhaustiveness flag starts and what
    each arm of the per-field `match` does to it ("false" / "true" / "same"), for both representations of the flag"""
    out = []
    for mc, ps in A.method_calls(fn.block, "try_fold"):
        if len(mc["args"]) != 2 or A.kind(mc["args"][1]) != "Expr::Closure":
            continue
        cl = mc["args"][1]
        init = A.peel(mc["args"][0])
        acc_pat = cl["inputs"][0] if cl["inputs"] else None
        flag = None  # name of the accumulator component carrying the flag
        init_v = None
        if A.kind(init) == "Expr::Tuple" and len(init["elems"]) == 2 and acc_pat is not None and A.kind(acc_pat) == "Pat::Tuple" and len(acc_pat["elems"]) == 2:
            ids = A.pat_idents(acc_pat["elems"][1])
            flag = ids[0] if len(ids) == 1 else None
            init_v = A.render(init["elems"][1])
        else:
            # a captured `let mut <flag> = true;` declared just before the fold
            blk = next((p for p in reversed(ps) if A.kind(p) == "Block"), None)
            for st in blk["stmts"] if blk else []:
                if A.kind(st) == "Stmt::Local" and st.get("init") and A.render(st["init"]["expr"]) in ("true", "false") and A.kind(st["pat"]) == "Pat::Ident" and st["pat"].get("mutability"):
                    nm = st["pat"]["ident"]["sym"]
                    if any(A.kind(x) == "Expr::Assign" and A.render(x["left"]) == nm for x, _ in A.walk(cl["body"])):
                        flag, init_v = nm, A.render(st["init"]["expr"])
        mt = next((m for m, _ in A.find(cl["body"], "Expr::Match")), None)
        arms = []
        if mt is not None and flag is not None:
            for arm in mt["arms"]:
                eff = "same"
                assigns = [A.render(x["right"]) for x, _ in A.walk(arm["body"]) if A.kind(x) == "Expr::Assign" and A.render(x["left"]) == flag]
                if assigns:
                    eff = assigns[-1]
                elif A.kind(init) == "Expr::Tuple":
                    # the tuple the arm returns: Ok((out, <flag value>))
                    rets = [x for x, _ in A.walk(arm["body"]) if A.kind(x) == "Expr::Call" and (A.path_str(x["func"]) or "").split("::")[0] == "Ok" and x["args"] and A.kind(A.peel(x["args"][0])) == "Expr::Tuple" and len(A.peel(x["args"][0])["elems"]) == 2]
                    vals = {A.render(A.peel(r["args"][0])["elems"][1]) for r in rets}
                    if len(vals) != 1:
                        eff = "?"
                    else:
                        v = vals.pop()
                        eff = "same" if v == flag else v
                arms.append((A.render_pat(arm["pat"]), eff))
        out.append({"over": A.render(mc["receiver"]), "init": init_v, "flag": flag, "arms": arms})
    return out


def _core_builders():
    try:
        sysroot = subprocess.run(["rustc", "+nightly", "--print", "sysroot"], capture_output=True, text=True).stdout.strip()
    except OSError:
        return None
    p = os.path.join(sysroot, "lib/rustlib/src/rust/library/core/src/fmt/builders.rs")
    return p if os.path.exists(p) else None


def _norm(txt, who):
    """normalise a rendered builder method into the shared vocabulary"""
    t = txt
    if who == "core":
        t = t.replace("fmt::Result", "Result").replace("fmt::Debug", "Debug").replace("fmt::Formatter", "Formatter")
        t = t.replace("let mut slot=None;let mut state=Default::default();let mut writer=PadAdapter::wrap(self.fmt,&mut slot,&mut state)", "let mut PAD=wrap(self.fmt)")
        t = t.replace("value_fmt(&mut writer)?", "VALUE(PAD,inherit-options)?").replace("value_fmt(self.fmt)", "VALUE(self.fmt,inherit-options)")
        t = t.replace("writer.", "PAD.")
        t = t.replace("self.state.on_newline", "self.on_newline").replace("self.buf.", "self.formatter.")
    else:
        t = t.replace("let mut padded_formatter=Padded::new(self.fmt)", "let mut PAD=wrap(self.fmt)")
        t = t.replace("padded_formatter.", "PAD.")
        t = re.sub(r'PAD\.write_fmt\(format_args!\("\{value:#\?\}"\)\)\?', "VALUE(PAD,fresh{:#?})?", t)
        t = t.replace("value.fmt(self.fmt)", "VALUE(self.fmt,inherit-options)")
    return t


def rule_debug_tuple_sibling(ctx):
    """SIB: src/fmt.rs::DebugTuple is a copy of core::fmt::DebugTuple (plus the pad adapter). For `field`, `finish`, `finish_non_exhaustive`, the constructor and the adapter's `write_str`, the effect skeleton (conditions over is_pretty / fields / empty_name, literals written in order, and *how the value is formatted*: through the caller's formatter, options inherited, or through a fresh `format_args!`) must equal the one of the toolchain's core/src/fmt/builders.rs."""
    lib = ctx.files.get("src/fmt.rs")
    if lib is None:
        raise A.AnchorLost("src/fmt.rs", "missing")
    cp = _core_builders()
    if cp is None:
        raise A.AnchorLost("core/src/fmt/builders.rs", "rust-src of the nightly toolchain not found")
    core = A.load_files([cp])[cp]
    cf = {fn.qual: fn for fn in A.functions(core)}
    df = {fn.qual: fn for fn in A.functions(lib)}
    pairs = [
        ("DebugTuple::field", "DebugTuple::field_with", "field"),
        ("DebugTuple::finish", "DebugTuple::finish", "finish"),
        ("DebugTuple::finish_non_exhaustive", "DebugTuple::finish_non_exhaustive", "finish_non_exhaustive"),
        ("DebugTuple::is_pretty", "DebugTuple::is_pretty", "is_pretty"),
        ("debug_tuple", "debug_tuple_new", "constructor"),
        ("<Padded as Write>::write_str", "<PadAdapter as Write>::write_str", "pad adapter write_str"),
    ]
    from .. import sibexec as X

    dimpl = {fn.name: fn for fn in A.functions(lib) if fn.qual.startswith("DebugTuple::")}
    cimpl = {fn.name: fn for fn in A.functions(core) if fn.qual.startswith("DebugTuple::")}
    executed = set()
    # SIB-EXEC: the three state-dependent methods are compared by their effect traces on every abstract builder state
    for dq, cq, name in pairs[:3]:
        if dq not in df or cq not in cf:
            continue
        diffs = []
        try:
            for fields in (0, 1, 2):
                for pretty in (True, False):
                    for empty in (True, False):
                        for result in ("ok", "err"):
                            st = {"fields": fields, "pretty": pretty, "empty_name": empty, "result": result}
                            a = X.run_method(df[dq], dimpl, st, "dyn")
                            b = X.run_method(cf[cq], cimpl, st, "closure")
                            ctx.instance(f"sibexec:{name}:fields={fields if fields < 2 else '>=2'},pretty={pretty},empty_name={empty},result={result}", sample={"method": name, "state": st, "trace": [str(t) for t in a[0]][:6]})
                            if a[0] != b[0] or a[1] != b[1]:
                                diffs.append((st, a[0], b[0]))
        except X.Unsupported as u:
            ctx.note(f"SIB-EXEC cannot evaluate `{dq}` / `{cq}` ({u}); falling back to the textual skeleton comparison")
            continue
        executed.add(name)
        if not diffs:
            continue
        fresh_only = all(
            st["pretty"] and len(ta) == len(tb) and all(x == y or (x[:2] == ("value", "pad") and y == ("value", "pad", "inherit") and str(x[2]).startswith("fresh")) for x, y in zip(ta, tb)) for st, ta, tb in diffs
        )
        if name == "field" and fresh_only:
            ctx.report(
                "sib:field:pretty-value-fresh-format_args",
                ctx.where(lib, df[dq].node),
                "in the pretty (`{:#?}`) branch `DebugTuple::field` formats the value with a fresh `format_args!(\"{value:#?}\")` instead of the caller's (wrapped) formatter: "
                "hex-debug, width, fill and precision are dropped (`{:#x?}` on a tuple struct prints `255`, std prints `0xff`)",
                {"cases": [str(d[0]) for d in diffs]},
            )
            continue
        st, ta, tb = diffs[0]
        ctx.report(
            f"sib:{name}",
            ctx.where(lib, df[dq].node),
            f"`{dq}` behaves differently from core's `{cq}` in {len(diffs)} abstract builder states, e.g. fields={'>=2' if st['fields'] == 2 else st['fields']}, pretty={st['pretty']}, empty_name={st['empty_name']}, result={st['result']}: "
            f"derive_more does {[str(t) for t in ta]}, core does {[str(t) for t in tb]}: tuple structs / variants no longer print like std's derive for that formatter configuration",
            {"states": [str(d[0]) for d in diffs]},
        )
    # the padding adapter: one loop iteration on (on_newline, piece ends with newline)
    dq, cq0 = "<Padded as Write>::write_str", "<PadAdapter as Write>::write_str"
    cqs = [q for q in cf if q.split("::")[-1] == "write_str" and "PadAdapter" in q]
    if dq in df and len(cqs) == 1:
        try:
            diffs = []
            # bisimulation from the constructors' initial states: whatever represents "at the start of a line" (a bool,
            # an enum ..), both adapters must write the same for every sequence of pieces
            d_fns = {fn.name: fn for fn in A.functions(lib) if fn.qual.startswith("Padded::")}
            c_fns = {fn.name: fn for fn in A.functions(core) if fn.qual.startswith("PadAdapter::")}
            d_all = {fn.qual: fn for fn in A.functions(lib) if fn.block is not None and fn.qual.count("::") == 1}
            c_all = {fn.qual: fn for fn in A.functions(core) if fn.block is not None and fn.qual.count("::") == 1}
            d0 = X.adapter_state_field(df, "Padded::") or ("on_newline", True)
            c0 = ("on_newline", True)
            it_d = X.loop_body(df[dq])[0]
            it_c = X.loop_body(cf[cqs[0]])[0]
            seen, work = set(), [(d0[1], c0[1])]
            while work:
                sd_, sc_ = work.pop()
                if (str(sd_), str(sc_)) in seen:
                    continue
                seen.add((str(sd_), str(sc_)))
                for nl in (True, False):
                    ta, na = X.step_loop_body(df[dq], d_fns, d_all, d0[0], sd_, nl)
                    tb, nb = X.step_loop_body(cf[cqs[0]], c_fns, c_all, c0[0], sc_, nl)
                    ctx.instance(f"sibexec:pad-adapter:state={sc_},piece_ends_newline={nl}", sample={"trace": [str(t) for t in ta], "next": str(na)})
                    if ta != tb:
                        diffs.append(((sc_, nl), (it_d, ta, na), (it_c, tb, nb)))
                    else:
                        work.append((na, nb))
                if len(seen) > 16:
                    raise X.Unsupported("adapter state space does not close")
            if A.alpha(it_d) != A.alpha(it_c):
                diffs.append(((None, None), (it_d, [], None), (it_c, [], None)))
            # and nothing but the loop and `Ok(())`
            rest = [A.render_stmt(x) for x in df[dq].block["stmts"]]
            tail_ok = rest and rest[-1] in ("Ok(())",) or (len(rest) == 1 and "try_for_each" in rest[0])
            executed.add("pad adapter write_str")
            if diffs or not tail_ok:
                (on, nl), a, b = diffs[0] if diffs else ((None, None), ("", [], None), ("", [], None))
                ctx.report(
                    "sib:pad adapter write_str",
                    ctx.where(lib, df[dq].node),
                    f"`{dq}` differs from core's `PadAdapter::write_str`"
                    + (f" for a piece with on_newline={on}, ends-with-newline={nl}: derive_more {a[0]} {[str(t) for t in a[1]]} -> on_newline={a[2]}, core {b[0]} {[str(t) for t in b[1]]} -> on_newline={b[2]}" if diffs else ": statements besides the per-line loop")
                    + ": continuation lines of multi-line field output are indented differently from std",
                    {},
                )
        except X.Unsupported as u:
            ctx.note(f"SIB-EXEC cannot evaluate the padding adapter ({u}); textual comparison used")
    # the builder's state has the same fields of the same types as core's (a narrower counter wraps at 256 fields)
    def struct_fields(fobj, name):
        for it, mods, cfgs in A.iter_items(fobj.ast["items"]):
            if A.kind(it) == "Item::Struct" and it["ident"]["sym"] == name and A.kind(it["fields"]) == "Fields::Named":
                flds = it["fields"]["0"]["named"] if "0" in it["fields"] else it["fields"]["named"]
                return {x["ident"]["sym"]: re.sub(r"'\w+", "'_", A.expr_text(fobj, x["ty"]).replace(" ", "")).replace("fmt::", "") for x in flds}
        return None

    dsf, csf = struct_fields(lib, "DebugTuple"), struct_fields(core, "DebugTuple")
    ctx.instance("sib:struct:DebugTuple", sample={"derive_more": dsf, "core": csf})
    if dsf is None or csf is None:
        raise A.AnchorLost("DebugTuple", "struct definition not found")
    for fld_, ty_ in sorted(csf.items()):
        if fld_ in dsf and dsf[fld_] != ty_ and re.fullmatch(r"[a-z0-9]+", ty_) and re.fullmatch(r"[a-z0-9]+", dsf[fld_]):
            ctx.report(f"sib:struct:{fld_}", ctx.where(lib, df["DebugTuple::field"].node), f"`DebugTuple::{fld_}` is `{dsf[fld_]}` here and `{ty_}` in core: the builder's state can no longer hold what core's holds (a `u8` field counter overflows at 256 fields: panic in debug builds, `(`/`, ` mix-up in release)", {})
    # every other method the adapter's `Write` impl overrides must behave like core's (the trait's defaults go through
    # `write_str`, so an override is a second copy of the indentation logic)
    over = sorted(fn.name for fn in A.functions(lib) if fn.qual.startswith("<Padded as Write>::") and fn.name != "write_str")
    ctx.instance("sibexec:pad-adapter:overrides", sample={"overridden besides write_str": over})
    for name in over:
        dqo = f"<Padded as Write>::{name}"
        cqo = [q for q in cf if q.split("::")[-1] == name and "PadAdapter" in q and " as " in q]
        if name != "write_char" or len(cqo) != 1:
            ctx.report(f"sib:pad adapter {name}", ctx.where(lib, df[dqo].node), f"`{dqo}` overrides a `fmt::Write` method that this rule cannot compare with core's adapter: its indentation behaviour is unaudited", {})
            continue
        try:
            for on in (True, False):
                for nl in (True, False):
                    a = X.run_write_char(df[dqo], {fn.name: fn for fn in A.functions(lib) if fn.qual.startswith("Padded::")}, on, nl)
                    b = X.run_write_char(cf[cqo[0]], {fn.name: fn for fn in A.functions(core) if fn.qual.startswith("PadAdapter::")}, on, nl)
                    ctx.instance(f"sibexec:pad-adapter:write_char:on_newline={on},c_is_newline={nl}", sample={"trace": [str(t) for t in a[0]], "on_newline after": a[1]})
                    if a != b:
                        ctx.report(
                            "sib:pad adapter write_char",
                            ctx.where(lib, df[dqo].node),
                            f"`{dqo}` differs from core's `PadAdapter::write_char` for on_newline={on}, c=='\\n' is {nl}: derive_more writes {[str(t) for t in a[0]]} and leaves on_newline={a[1]}, core writes {[str(t) for t in b[0]]} and leaves on_newline={b[1]}: "
                            "a field whose Debug output writes a newline through `write_char` is continued without indentation",
                            {},
                        )
                        raise StopIteration
        except X.Unsupported as u:
            ctx.report("sib:pad adapter write_char", ctx.where(lib, df[dqo].node), f"`{dqo}` cannot be evaluated ({u}); an override of `write_char` must keep the `on_newline` state like core's", {})
        except StopIteration:
            pass
    # the constructor: what is written first and how the builder starts
    if "debug_tuple" in df and "debug_tuple_new" in cf:
        try:
            a = X.run_constructor(df["debug_tuple"])
            b = X.run_constructor(cf["debug_tuple_new"])
            ctx.instance("sibexec:constructor", sample={"trace": [str(t) for t in a[0]], "builder": str(a[1])[:160]})
            executed.add("constructor")
            if a != b:
                ctx.report(
                    "sib:constructor",
                    ctx.where(lib, df["debug_tuple"].node),
                    f"`debug_tuple` starts the builder differently from core's `debug_tuple_new`: derive_more {[str(t) for t in a[0]]} -> {a[1]}, core {[str(t) for t in b[0]]} -> {b[1]}: "
                    "e.g. `fmt.pad(name)` instead of `fmt.write_str(name)` applies the caller's width / precision to the type name",
                    {},
                )
        except X.Unsupported as u:
            ctx.note(f"SIB-EXEC cannot evaluate the constructor ({u}); textual comparison used")
    for dq, cq, name in pairs:
        if name in executed:
            continue
        if dq not in df:
            raise A.AnchorLost(f"src/fmt.rs::{dq}", "missing")
        if cq not in cf:
            # names in core may carry generics in the impl header; search by suffix
            cands = [q for q in cf if q.split("::")[-1] == cq.split("::")[-1] and ("PadAdapter" in q) == ("PadAdapter" in cq) and ("DebugTuple" in q) == ("DebugTuple" in cq)]
            if len(cands) != 1:
                raise A.AnchorLost(f"core::fmt::builders::{cq}", f"candidates {cands}")
            cq = cands[0]
        a = _norm(A.fn_text(df[dq]), "dm")
        b = _norm(A.fn_text(cf[cq]), "core")
        ctx.instance(f"sib:{name}", sample={"method": name, "derive_more": a[:200], "core": b[:200]})
        if a == b:
            continue
        # locate the first differing action
        i = 0
        while i < min(len(a), len(b)) and a[i] == b[i]:
            i += 1
        da, db = a[max(0, i - 40) : i + 60], b[max(0, i - 40) : i + 60]
        key = f"sib:{name}"
        if "VALUE(PAD,fresh{:#?})" in a and "VALUE(PAD,inherit-options)" in b and a.replace("VALUE(PAD,fresh{:#?})", "VALUE(PAD,inherit-options)") == b:
            key = f"sib:{name}:pretty-value-fresh-format_args"
            msg = (
                "in the pretty (`{:#?}`) branch `DebugTuple::field` formats the value with a fresh `format_args!(\"{value:#?}\")` instead of the caller's (wrapped) formatter: "
                "hex-debug, width, fill and precision are dropped (`{:#x?}` on a tuple struct prints `255`, std prints `0xff`)"
            )
        else:
            msg = f"`{dq}` differs from core's `{cq}`: derive_more has `..{da}..`, core has `..{db}..`: tuple structs / variants no longer print like std's derive for some formatter configuration"
        ctx.report(key, ctx.where(lib, df[dq].node), msg, {"derive_more": a, "core": b})
