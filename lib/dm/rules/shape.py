"""Shape rules for C11 (variant accessors), C12 (TryFrom repr), C13 (FromStr), C14 (delegating derives)."""
import re

from .. import ast as A
from .. import tpl as T
from .. import types as TY


def tx(t):
    return A.TTxt(T.ir_text(t.ir).replace(" ", ""))


def texts(fn):
    return A.TList(tx(t) for t in T.templates_both(fn))


def need(ctx, key, cond, where, msg, detail=None):
    ctx.instance(key)
    if not cond:
        ctx.report(key, where, msg, detail or {})


# ---------------------------------------------------------------- C11


def _ident_built(fn, pattern, args, span):
    """does `fn` build an identifier `pattern` from exactly these argument expressions (aliases followed) with this
    span - spelled as `format_ident!` or as `Ident::new(&format!(..), span)` alike?"""
    al = {n: A.render(e) for n, (e, st, interp) in A.aliases(fn).items()}

    def res(t):
        t = t.replace(" ", "")
        for _ in range(3):
            t = al.get(t, t).replace(" ", "")
        return t

    for x, d in A.ident_ctors(fn.block):
        if d["pattern"] == pattern and [res(a) for a in d["args"]] == [a.replace(" ", "") for a in args] and (res(d["span"]) if d["span"] else None) == (span.replace(" ", "") if span else None):
            return True
    return False


def _let_init(fn, name):
    """initialiser of the single immutable `let <name> = ..` of the function, else None"""
    found = []
    for st, _ in A.find(fn.block, "Stmt::Local"):
        pat = st["pat"]
        if A.kind(pat) == "Pat::Type":
            pat = pat["pat"]
        if A.kind(pat) == "Pat::Ident" and pat["ident"]["sym"] == name and not pat.get("mutability") and st.get("init"):
            found.append(st["init"]["expr"])
    return found[0] if len(found) == 1 else None


def _expand_lets(fn, als, text):
    """`<name>` holes of an identifier text whose name is an immutable `let` of the function (however often it is used:
    `let snake = v.ident.unraw()..; format_ident!("unwrap_{snake}")` three times) replaced by `<its initialiser>`"""
    if not text:
        return text
    lets = {}
    for st, _ in A.find(fn.block, "Stmt::Local"):
        pat = st["pat"]
        if A.kind(pat) == "Pat::Type":
            pat = pat["pat"]
        if A.kind(pat) == "Pat::Ident" and not pat.get("mutability") and st.get("init"):
            n_ = pat["ident"]["sym"]
            lets[n_] = None if n_ in lets else st["init"]["expr"]

    def sub(m):
        e_ = lets.get(m.group(1))
        return "<" + A.inline_text(A.render(e_), als).replace(" ", "") + ">" if e_ is not None else m.group(0)

    return re.sub(r"<(\w+)>", sub, text)


def _ident_text(fn, e, env=None, depth=0):
    """the text an identifier-building expression yields, with `<expr>` for each formatted argument: a `format_ident!`
    (named, inline or positional arguments; `span =` ignored), or a call of a same-file helper that is one, its
    parameters replaced by the arguments (string literals spliced in). None when not understood."""
    env = env or {}
    e = A.peel(e)
    if depth > 3:
        return None
    k = A.kind(e)

    def sub(text):
        for n_, v_ in env.items():
            text = re.sub(r"(?<![\w.])%s\b" % re.escape(n_), lambda _m: v_ if not v_.startswith('"') else v_, text)
        return text.replace(" ", "")

    if k == "Expr::Path":
        nm = A.path_str(e)
        if nm in env and env[nm].startswith('"'):
            return env[nm][1:-1]
        als = A.aliases(fn)
        if nm in als:
            return _ident_text(fn, als[nm][0], env, depth + 1)
        return None
    if k == "Expr::Macro" and A.path_last(e["mac"]["path"]) == "format_ident":
        toks = e["mac"]["tokens"]
        if not toks or A.kind(toks[0]) != "Literal":
            return None
        pat = toks[0]["lit"].get("value") or ""
        args, cur = [], []
        for t_ in toks[1:]:
            if A.kind(t_) == "Punct" and A.punct_char(t_) == ",":
                if cur:
                    args.append(cur)
                cur = []
            else:
                cur.append(t_)
        if cur:
            args.append(cur)
        named, pos = {}, []
        for a_ in args:
            if len(a_) >= 2 and A.kind(a_[0]) == "Ident" and A.kind(a_[1]) == "Punct" and A.punct_char(a_[1]) == "=" and not (len(a_) > 2 and A.kind(a_[2]) == "Punct" and A.punct_char(a_[2]) == "="):
                named[a_[0]["sym"]] = A.tokens_text(a_[2:])
            else:
                pos.append(A.tokens_text(a_))
        named.pop("span", None)
        als = A.aliases(fn)
        it = iter(pos)

        def ph(m_):
            nm = m_.group(1)
            if nm == "":
                v = next(it, None)
            elif nm in named:
                v = named[nm]
            else:
                v = nm
            if v is None:
                return "<?>"
            v = v.replace(" ", "")
            if v in env and env[v].startswith('"'):
                return env[v][1:-1]
            v = A.inline_text(v, als).replace(" ", "") if v in als else v
            return "<" + sub(v) + ">"

        return re.sub(r"\{(\w*)\}", ph, pat)
    if k == "Expr::Call":
        nm = A.path_str(e["func"]) or ""
        hs = [g for g in A.functions(fn.file) if g.name == nm and "::" not in g.qual and g.block is not None and g is not fn]
        if len(hs) == 1 and len(hs[0].block["stmts"]) == 1 and A.kind(hs[0].block["stmts"][0]) == "Stmt::Expr":
            prm = [x for p_ in hs[0].node["sig"]["inputs"] if A.kind(p_) == "FnArg::Typed" for x in A.pat_idents(p_["0"]["pat"])]
            if len(prm) == len(e["args"]):
                als = A.aliases(fn)
                env2 = {}
                for pn, a_ in zip(prm, e["args"]):
                    a_ = A.peel(a_)
                    r_ = A.render(a_)
                    env2[pn] = r_ if A.kind(a_) == "Expr::Lit" else A.inline_text(r_, als).replace(" ", "").lstrip("&")
                return _ident_text(hs[0], hs[0].block["stmts"][0]["0"], env2, depth + 1)
    return None


def rule_accessors(ctx):
    """ACC: IsVariant / Unwrap / TryUnwrap build, per enabled variant, method name, pattern and error text from that one variant; the success arm returns exactly the binders of its own pattern, in field order; the fall-through arm binds the whole value (`val @ _`) and re-matches it against *all* variants (ignored ones too) so that every value yields a panic message / an error carrying the original value; owned/ref/ref_mut forms are emitted as configured."""
    # --- is_variant
    fn = A.get_fn(ctx.files, "impl/src/is_variant.rs", "expand")
    w = ctx.where(fn.file, fn.node)
    t = A.fn_text(fn)
    tt = texts(fn)
    # the method template is produced once per element of `state.enabled_variant_data().variant_states` (for-loop or
    # iterator chain alike, aliases inlined), from that element's variant
    qm = next((m_ for m_, _ in A.find(fn.block, ("Expr::Macro", "Stmt::Macro")) if A.path_last(m_["mac"]["path"]) == "quote" and "fn_name" in A.tokens_text(m_["mac"]["tokens"])), None)
    it_ = A.iteration_of(qm, fn.block) if qm is not None else None
    als_ = A.aliases(fn)
    src_ = A.inline_text(it_[0], als_).replace(" ", "") if it_ else None
    loop_ok = bool(it_) and re.sub(r"\.(iter|into_iter)\(\)$", "", src_).lstrip("&") == "state.enabled_variant_data().variant_states" and any(A.wfull(A.render_stmt(x).rstrip(";"), f"let variant={it_[1]}.variant.unwrap()") for x in it_[2] if A.kind(x) == "Stmt::Local")
    need(ctx, "is_variant:loop", loop_ok or "for variant_state in state.enabled_variant_data().variant_states{let variant=variant_state.variant.unwrap()" in t, w, "IsVariant no longer iterates over the enabled variants (ignored variants must get no method)")
    need(ctx, "is_variant:same-variant", _ident_built(fn, "is_{}", ["variant.ident.unraw().to_string().to_case(Case::Snake)"], "variant.ident.span()") and "let variant_ident=&variant.ident" in t and "let data_pattern=match variant.fields{" in t, w, "method name, matched path and data pattern are no longer all taken from the variant being iterated")
    need(ctx, "is_variant:matches", any("pubconstfn#fn_name(&self)->bool{derive_more::core::matches!(self,#enum_name::#variant_ident#data_pattern)}" in s for s in tt), w, "`is_x()` is no longer `matches!(self, Enum::X <pattern>)`", {"templates": tt})
    need(ctx, "is_variant:patterns", "{..}" in tt and "(..)" in tt and "" in tt, w, "data patterns `{..}` / `(..)` / (unit) changed")
    # --- unwrap / try_unwrap
    for rel, kind_ in (("impl/src/unwrap.rs", "unwrap"), ("impl/src/try_unwrap.rs", "try_unwrap")):
        fn = A.get_fn(ctx.files, rel, "expand")
        w = ctx.where(fn.file, fn.node)
        t = A.fn_text(fn)
        tt = texts(fn)
        need(ctx, f"{kind_}:loop", "Iterator::zip(variant_data.variant_states.iter(),variant_data.infos)" in t and "let variant_data=state.enabled_variant_data()" in t, w, f"{kind_}: methods are no longer generated per enabled variant with its own info")
        # alias-insensitive: `let` aliases (variant, variant_ident, a hoisted snake-case name ..) are inlined
        ti = A.fn_text(fn, inline=True)
        V = "variant_state.variant.unwrap()"
        als = A.aliases(fn)
        vi = next((n for n, (e, *_) in als.items() if A.inline_text(A.render(e), als).lstrip("&") == f"{V}.ident"), None)
        need(
            ctx,
            f"{kind_}:same-variant",
            f"get_field_info(&{V}.fields)" in ti and (f"#enum_name::#{vi}#data_pattern" in tt if vi else False),
            w,
            f"{kind_}: pattern is no longer `Enum::X <binders>` of the iterated variant (identifier and fields of the same `variant_state.variant`)",
        )
        for nm, pre in (("fn_name", ""), ("ref_fn_name", "_ref"), ("mut_fn_name", "_mut")):
            need(
                ctx,
                f"{kind_}:{nm}",
                re.search(r'let %s=format_ident!\("%s_\{\}%s",%s\.ident\.unraw\(\)\.to_string\(\)\.to_case\(Case::Snake\),span=%s\.ident\.span\(\)\)' % (nm, kind_, pre, re.escape(V), re.escape(V)), ti.replace(" ", "").replace("let" + nm, "let " + nm)) is not None
                or (nm in als and _ident_text(fn, als[nm][0]) == f"{kind_}_<{V}.ident.unraw().to_string().to_case(Case::Snake)>{pre}")
                or (_let_init(fn, nm) is not None and _expand_lets(fn, als, _ident_text(fn, _let_init(fn, nm))) == f"{kind_}_<{V}.ident.unraw().to_string().to_case(Case::Snake)>{pre}"),
                w,
                f"{kind_}: `{nm}` is not `{kind_}_<snake_case(variant)>{pre}`",
            )
        forms = [("self", "", "#failed_block"), ("&self", "&", "#failed_block_ref"), ("&mutself", "&mut", "#failed_block_mut")]
        for recv, r, fb in forms:
            if kind_ == "unwrap":
                s = f"(#(#{'' if not r else ''}data_types),*)"
                pat = f"({recv})->(#({r}#data_types),*){{matchself{{#pattern=>#ret_value,val@_=>{fb},}}}}"
            else:
                pat = f"({recv})->derive_more::core::result::Result<(#({r}#data_types),*),derive_more::TryUnwrapError<{r}Self>>{{matchself{{#pattern=>derive_more::core::result::Result::Ok(#ret_value),val@_=>{fb},}}}}"
            need(ctx, f"{kind_}:form:{recv}", any(pat in s for s in tt), w, f"{kind_}: the `{recv}` accessor no longer has the shape `match self {{ <own pattern> => <own binders>, val @ _ => <per-variant failure> }}`", {"expected": pat})
        # each receiver form is emitted exactly when the variant's own-else-inherited flag of that kind is set
        # (condition formula of the push == that one flag of the per-variant info)
        from . import reject as RJ
        from .. import guardf as GF

        gate = {}
        for mc_, ps_ in A.method_calls(fn.block, "push"):
            if not mc_["args"] or A.kind(A.peel(mc_["args"][0])) != "Expr::Path":
                continue
            var = A.path_str(A.peel(mc_["args"][0]))
            b_ = TY.resolve(fn, var, (A.span_of(mc_) or [0])[0])
            init = A.render(b_["init"]) if b_ is not None and b_.get("init") is not None else ""
            # an instance of a local template closure (`method(.., quote!{ &mut }, ..)`): read the instantiated template
            for c__, t__ in T.closure_instances(fn):
                if b_ is not None and b_.get("init") is not None and A.peel(b_["init"]) is c__:
                    init = T.ir_text(t__.ir)
            form = "ref_mut" if "(&mut self)" in init or "(&mutself)" in init.replace(" ", "") else "ref_" if "(&self)" in init.replace(" ", "") else "owned" if "(self)" in init.replace(" ", "") else None
            if form:
                gate[form] = GF.canon_text(RJ.site_formula(fn, mc_, ps_))
        need(ctx, f"{kind_}:gating", gate == {"owned": "$.owned", "ref_": "$.ref_", "ref_mut": "$.ref_mut"}, w, f"{kind_}: owned/ref/ref_mut forms are no longer emitted exactly as the variant's flags select them (conditions found: {gate})")
        gi = A.get_fn(ctx.files, rel, "get_field_info")
        gt = A.fn_text(gi)
        # one enumerate over the variant's unnamed fields yields the binder `field_{n}` and the type of the same element
        # (iterator chain or loop alike); pattern and returned tuple list the same binders
        fim = next((m_ for m_, _ in A.find(gi.block, ("Expr::Macro", "Stmt::Macro")) if A.path_last(m_["mac"]["path"]) == "format_ident"), None)
        it_ = A.iteration_of(fim, gi.block) if fim is not None else None
        b_ok = False
        if it_:
            src_, pat_, stmts_ = it_
            pm = re.fullmatch(r"\((\w+),(\w+)\)", pat_)
            body_ = ";".join(A.render_stmt(x) for x in stmts_)
            b_ok = bool(pm) and "unnamed" in src_ and src_.endswith(".enumerate()") and f'format_ident!("field_{{}}",{pm.group(1)})' in body_.replace(" ", "") and f"&{pm.group(2)}.ty" in body_
            if not b_ok:
                # the binders numbered by a range over the same fields, the types taken from the fields in order
                rm = re.fullmatch(r"0\.\.(.+)\.unnamed\.len\(\)", src_)
                pn = re.fullmatch(r"\w+", pat_)
                b_ok = bool(rm) and bool(pn) and f'format_ident!("field_{{}}",{pat_})' in body_.replace(" ", "") and re.search(re.escape(rm.group(1)) + r"\.unnamed\.iter\(\)\.map\(\|(\w+)\|&\1\.ty\)", str(gt)) is not None
        # the pattern and the returned tuple are the same binder list
        al_g = {}
        for st_, _ in A.find(gi.block, "Stmt::Local"):
            ids_ = A.pat_idents(st_["pat"])
            if len(ids_) == 1 and st_.get("init"):
                al_g[ids_[0]] = st_["init"]["expr"]

        def _tpl_of(e_, depth=0):
            e_ = A.peel(e_)
            if A.kind(e_) == "Expr::MethodCall" and e_["method"]["sym"] == "clone" and not e_["args"]:
                return _tpl_of(e_["receiver"], depth)
            if A.kind(e_) == "Expr::Macro" and A.path_last(e_["mac"]["path"]) == "quote":
                return T.ir_text(T.to_ir(e_["mac"]["tokens"])).replace(" ", "")
            if A.kind(e_) == "Expr::Path" and A.path_str(e_) in al_g and depth < 3:
                return _tpl_of(al_g[A.path_str(e_)], depth + 1)
            return None

        tup_ok = False
        for tp, _ in A.find(gi.block, "Expr::Tuple"):
            if len(tp["elems"]) == 3:
                a0, a1 = _tpl_of(tp["elems"][0]), _tpl_of(tp["elems"][1])
                m0 = re.fullmatch(r"\(#\(#(\w+)\),\*\)", a0 or "")
                if m0 and a0 == a1 and A.kind(A.peel(tp["elems"][2])) == "Expr::Path":
                    tup_ok = True
        need(ctx, f"{kind_}:binders", b_ok and tup_ok, ctx.where(gi.file, gi.node), f"{kind_}: pattern binders, returned tuple and types no longer come from one enumerate over the variant's fields (same identifiers, same order)")
        fb = A.get_fn(ctx.files, rel, "failed_block")
        ft = A.fn_text(fb)
        need(
            ctx,
            f"{kind_}:failed-block:all-variants",
            "let arms=state.variant_states.iter().map(|it|" in ft and not ft.has_exact("enabled_variant"),
            ctx.where(fb.file, fb.node),
            f"{kind_}: the failure re-match no longer lists *all* variants (`state.variant_states`, ignored ones included): a value of an ignored variant hits a missing / `unreachable!` arm instead of the documented panic or error",
        )
        ftt = A.TList(list(texts(fb)) + [x for h in A.single_use_helpers(fb) for x in texts(h)])
        need(ctx, f"{kind_}:failed-block:match", "matchval{#(#arms),*}" in ftt and not any("_=>" in s for s in ftt), ctx.where(fb.file, fb.node), f"{kind_}: the failure re-match is no longer an exhaustive `match val {{ <one arm per variant> }}` (a wildcard arm hides variants)", {"templates": ftt})
        if kind_ == "try_unwrap":
            need(ctx, "try_unwrap:error-carries-value", any(s.startswith("derive_more::TryUnwrapError::<_>::new(val,") for s in ftt) and "val@#enum_name::#variant_ident#data_pattern=>derive_more::core::result::Result::Err(#error)" in ftt, ctx.where(fb.file, fb.node), "try_unwrap: the error is no longer built from the re-bound original value `val`")
    # --- try_into
    fn = A.get_fn(ctx.files, "impl/src/try_into.rs", "expand")
    w = ctx.where(fn.file, fn.node)
    t = A.fn_text(fn)
    tt = texts(fn)
    need(ctx, "try_into:grouping", "variants_per_types.entry((ref_type,field_types.clone())).or_insert_with(Vec::new).push(multi_field_data.clone())" in t and "for ref_type in variant_info.ref_types()" in t, w, "TryInto: variants are no longer grouped by (reference kind, enabled field types)")
    # every reference kind the *variant's own* info asks for is grouped, unconditionally; the variant's info and field
    # types come from the same `enabled_fields_data()` of that variant
    loops = [fl for fl, _ in A.find(fn.block, "Expr::ForLoop") if A.render(fl["expr"]).endswith(".ref_types()")]
    ok = False
    why = "no `for ref_type in <variant info>.ref_types()` loop"
    if len(loops) == 1:
        fl = loops[0]
        src = A.render(fl["expr"])[: -len(".ref_types()")]
        body = fl["body"]["stmts"]
        one = len(body) == 1 and A.kind(body[0]) == "Stmt::Expr" and A.wfull(A.render(body[0]["0"]), "variants_per_types.entry((ref_type,field_types.clone())).or_insert_with(Vec::new).push(multi_field_data.clone())") is not None
        from_variant = A.wsearch(t, "let MultiFieldData{variant_info:variant_info,field_types:field_types,..}=multi_field_data.clone()") is not None and A.wsearch(t, "let multi_field_data=variant_state.enabled_fields_data()") is not None and src == "variant_info"
        ok = one and from_variant
        why = ("the loop body is not the single unconditional insertion" if not one else f"the reference kinds are taken from `{src}` instead of the variant's own `variant_info`")
    need(
        ctx,
        "try_into:ref-kinds",
        ok,
        w,
        f"TryInto: {why}: a variant-level `#[try_into(ref_mut)]` (or `owned` / `ref`) no longer yields the `TryFrom<&mut Enum>` impl for that variant's field types (or yields one the variant did not ask for)",
    )
    need(ctx, "try_into:matcher", "matchers.push(multi_field_data.matcher(&multi_field_data.field_indexes,&patterns),)" in t.replace(" ", "").replace("matchers.push(multi", "matchers.push(multi") or "multi_field_data.matcher(&multi_field_data.field_indexes,&patterns)" in t, w, "TryInto: patterns are no longer built by `matcher(field_indexes, binders)`")
    need(ctx, "try_into:binders", 'let vars=&numbered_vars(original_types.len(),"")' in t and "vars.iter().map(|var|quote!(#pattern_ref#var)).collect()" in t, w, "TryInto: binders are no longer one per target-tuple component, in order")
    need(ctx, "try_into:body", any("matchvalue{#(#matchers)|*=>derive_more::core::result::Result::Ok(#vars),_=>derive_more::core::result::Result::Err(derive_more::TryIntoError::new(value,#variant_names,#output_type),),}" in s for s in tt), w, "TryInto: body is no longer `match value { <matchers> => Ok(binders), _ => Err(TryIntoError::new(value, ..)) }` (the error must carry the unmatched original)", {"templates": tt[-1:]})


# ---------------------------------------------------------------- C12


OPERATOR_PUNCT = set("+-*/%^!&|<>.?")


def _expr_valued(ctx, fn, var_node):
    """is the interpolated TokenStream a spliced user *expression* (syn::Expr -> tokens)?"""
    name = var_node["s"]
    ty, b = TY.var_type_at(ctx, fn, name, var_node["span"][0])
    if ty and re.search(r"(^|[^:\w])(syn::Expr|parsing::Expr)\b", ty):
        return True
    srcs = []
    if b is not None and b.get("init") is not None:
        srcs.append(b["init"])
    for x, _ in A.find(fn.block, "Expr::Assign"):
        if A.render(x["left"]) == name:
            srcs.append(x["right"])
    for s in srcs:
        r = A.render(s)
        if ".to_token_stream()" in r or ".into_token_stream()" in r:
            root, ops = A.chain(s)
            if A.kind(root) == "Expr::Path":
                rn = A.path_str(root)
                sp = A.span_of(root)
                rty, _ = TY.var_type_at(ctx, fn, rn, sp[0] if sp else 0)
                if rty and "syn::Expr" in rty:
                    return True
    return False


def rule_tpl_prec(ctx):
    """TPL-PREC: a user expression spliced into a template next to an operator (`+ - * / % ^ ! & | < > . ?`, `as`) is parenthesised in the template, otherwise its own lower-precedence operators re-associate (`1 << 3 + 1`)."""
    n = 0
    total = 0
    for fn in A.all_functions(ctx.files):
        if not fn.file.rel.startswith("impl/src"):
            continue
        for t in T.templates_of(fn):
            for seq, i, x, parents in T.ir_walk(t.ir):
                if x["t"] != "var":
                    continue
                if not _expr_valued(ctx, fn, x):
                    continue
                total += 1
                neigh = []
                if i > 0:
                    neigh.append(seq[i - 1])
                if i + 1 < len(seq):
                    neigh.append(seq[i + 1])
                ops = [y for y in neigh if (y["t"] == "p" and y["c"] in OPERATOR_PUNCT) or (y["t"] == "id" and y["s"] == "as")]
                construct = f"{t.key()}:#{x['s']}"
                ctx.instance(construct, nontrivial=True, sample={"site": construct, "template": tx(t)[:120], "adjacent_operators": [y.get("c") or y.get("s") for y in ops]})
                if not ops:
                    continue
                n += 1
                ctx.report(
                    f"{t.key()}:prec:#{x['s']}",
                    f"{t.file.rel}:{t.line}",
                    f"template `{T.ir_text(t.ir)[:80]}` in `{fn.qual}` splices the user expression `#{x['s']}` directly next to `{ops[0].get('c') or ops[0].get('s')}` without parentheses: "
                    "an expression with a lower-precedence operator changes meaning (`A = 1 << 3, B` gives B the constant `1 << 3 + 1` = 16 instead of 9)",
                    {},
                )
    ctx.note(f"{total} user-expression splices, {n} next to an operator")
    ctx.floor("user-expression splices", total, 3)


def rule_discriminants(ctx):
    """DISC: TryFrom<repr> reconstructs each discriminant as `<last explicit> + <offset>`: the offset restarts exactly where an explicit discriminant is seen, advances once per variant (with or without fields), constants exist only for field-less variants, are typed as the repr integer, named injectively after the variant, and the match yields `Ok` only through them and `Err(TryFromReprError::new(val))` otherwise. The repr integer is one of Rust's 12 primitive representations (default `isize`), other repr hints are ignored and never displace it."""
    rel = "impl/src/try_from.rs"
    fn = A.get_fn(ctx.files, rel, "<Expansion as ToTokens>::to_tokens")
    w = ctx.where(fn.file, fn.node)
    # the impl is emitted for every enum: `to_tokens` has no early exit (an enum without unit variants still gets
    # `TryFrom<repr>` - every integer is an `Err`)
    ctx.instance("disc:no-early-exit")
    for r_, ps in A.find(fn.block, "Expr::Return"):
        iff = next((p for p in reversed(ps) if A.kind(p) == "Expr::If"), None)
        # the one documented exit: without `#[try_from(repr)]` the derive generates nothing
        if iff is not None and A.render(iff["cond"]) in ("self.attr.is_none()", "!self.attr.is_some()"):
            continue
        if not any(A.kind(p) == "Expr::Closure" for p in ps):
            ctx.report(
                "disc:early-exit",
                ctx.where(fn.file, r_),
                "`to_tokens` of the TryFrom<repr> expansion returns early: for the inputs taking that path no impl is generated at all (an enum with no field-less variant silently loses `TryFrom`, "
                "where every integer must map to `Err(TryFromReprError)`)",
                {},
            )
    cl = None
    for c, ps in A.find(fn.block, "Expr::Closure"):
        if "discriminant" in A.render_pat(c["inputs"][0]) if c["inputs"] else False:
            cl = c
    if cl is None:
        raise A.AnchorLost(f"{rel}::<Expansion as ToTokens>::to_tokens", "discriminant closure")
    body = cl["body"]
    stmts = body["block"]["stmts"] if A.kind(body) == "Expr::Block" else []
    rs = [A.render_stmt(s) for s in stmts]
    whole = A.fn_text(fn)
    mc = A.wsearch(whole, "let mut base=quote!(0);let mut cnt=0usize")
    if not mc:
        raise A.AnchorLost(f"{rel}::<Expansion as ToTokens>::to_tokens", "`let mut <base> = quote!{0}; let mut <counter> = 0usize;`")
    base_n, cnt_n = mc.group("v_base"), mc.group("v_cnt")
    rs = [A.canon_names(r, {base_n: "last_discriminant", cnt_n: "inc"}) for r in rs]
    need(ctx, "disc:reset", any(A.wfull(r, "if let Some(d)=discriminant{last_discriminant=d.1.to_token_stream();inc=0}") for r in rs), w, "the offset is no longer reset to 0 exactly where an explicit discriminant replaces the base", {"stmts": rs})
    incs = [(i, r) for i, r in enumerate(rs) if r == "inc+=1"]
    need(
        ctx,
        "disc:inc-every-variant",
        len(incs) == 1 and not any("inc+=1" in r and r != "inc+=1" for r in rs),
        w,
        "`inc += 1` is no longer an unconditional top-level statement of the per-variant closure: variants with fields must still consume a discriminant value (`enum E { A, B(u8), C }`: C is 2)",
        {"stmts": rs},
    )
    # the offset used for this variant is read from the counter *before* the counter advances: the first statement that
    # reads `inc` (as `Literal::usize_unsuffixed(inc)` / `#inc`) precedes `inc += 1`
    use_i = next((i for i, r in enumerate(rs) if r != "inc+=1" and re.search(r"usize_unsuffixed\(inc\)|#inc\b", r)), None)
    later_reads = [i for i, r in enumerate(rs) if incs and i > incs[0][0] and re.search(r"usize_unsuffixed\(inc\)|#inc\b|\binc\b", r)]
    need(ctx, "disc:inc-after-use", use_i is not None and bool(incs) and incs[0][0] > use_i and not later_reads, w, "the offset is advanced before it is used for the current variant")
    allrs = ";".join(rs).replace(" ", "")
    need(ctx, "disc:fieldless-only", "fields.is_empty().then_some((" in allrs, w, "constants are no longer generated for field-less variants only")
    need(ctx, "disc:const-name", 'format_ident!("__DISCRIMINANT_{}",ident)' in allrs, w, "the constant's name is no longer `__DISCRIMINANT_<variant identifier as written>`: a case-folding or otherwise non-injective name makes variants differing only in case collide (E0428)")
    tt = texts(fn)
    need(ctx, "disc:const-expr", "(#last_discriminant)+#inc" in tt, w, "constant expression is no longer `<last explicit> + <offset>`", {"templates": tt})
    # .. for every enum: no other expression is chosen for some class of enums (`Enum::V as repr` needs the enum's generic
    # arguments, which a const item cannot name)
    from . import reject as RJ
    from .. import guardf as GF

    for mac_, ps_ in A.find(fn.block, ("Expr::Macro", "Stmt::Macro")):
        if A.path_last(mac_["mac"]["path"]) == "quote" and A.TTxt(T.ir_text(T.to_ir(mac_["mac"]["tokens"])).replace(" ", "")).same("(#last_discriminant)+#inc"):
            fm_ = RJ.site_formula(fn, mac_, ps_)
            at_, pl_ = set(), {}
            GF._collect(fm_, at_, pl_)
            # (the only condition in front of it is "a `#[try_from(repr)]` attribute is present")
            need(ctx, "disc:const-expr:always", not at_ and set(pl_) <= {"self.attr"}, w, f"the constant is `<last explicit> + <offset>` only under `{GF.canon_text(fm_)[:120]}`; for the other enums another expression is generated")
    impl = tt[-1] if tt else ""
    need(ctx, "disc:typed-consts", "#(const#consts:#repr_ty=#discriminants;)*" in impl, w, "constants are no longer typed as the repr integer")
    need(ctx, "disc:match", "matchval{#(#consts=>derive_more::core::result::Result::Ok(#ident::#variants),)*_=>derive_more::core::result::Result::Err(derive_more::TryFromReprError::new(val)),}" in impl, w, "the match no longer maps exactly the constants to their variants and everything else to `Err(TryFromReprError::new(val))`")
    need(ctx, "disc:lints", "#[allow(non_upper_case_globals)]" in impl, w, "`#[allow(non_upper_case_globals)]` was dropped: constants named after variants warn")
    # repr table
    ri = A.get_fn(ctx.files, "impl/src/utils.rs", "attr::repr_int::<ReprInt as ParseMultiple>::parse_attr_with")
    t = A.fn_text(ri)
    called = {(A.path_str(c_["func"]) or "").split("::")[-1] for c_, _ in A.find(ri.block, "Expr::Call") if A.kind(c_["func"]) == "Expr::Path"}
    mod_prefix = "::".join(ri.qual.split("::")[:2])
    helpers_txt = " ".join(str(A.fn_text(g_)) for g_ in A.functions(ri.file) if g_.name in called and g_.block is not None and g_.qual.startswith(mod_prefix))
    names = re.findall(r'"([ui](?:8|16|32|64|128|size))"', str(t) + " ".join(A.render(e_) for e_ in A.referenced_consts(ri).values()) + helpers_txt)
    need(ctx, "repr:names", sorted(set(names)) == sorted(["u8", "u16", "u32", "u64", "u128", "usize", "i8", "i16", "i32", "i64", "i128", "isize"]), ctx.where(ri.file, ri.node), f"accepted repr integers are {sorted(set(names))}")
    # every hint is looked at, and a hint that is not the integer has its `(..)` body consumed: the callback leaves early
    # only right after it stored an integer repr (an early exit anywhere else leaves `align(2)`'s body unparsed:
    # `#[repr(u8, align(2))]` -> "expected `,`")
    cb = next((c for c, ps in A.find(ri.block, "Expr::Closure") if any(A.kind(p) == "Expr::MethodCall" and p["method"]["sym"] == "parse_nested_meta" for p in ps[-2:])), None)
    if cb is None:
        raise A.AnchorLost("impl/src/utils.rs::<ReprInt as ParseMultiple>::parse_attr_with", "`attr.parse_nested_meta(|meta| ..)` callback")
    rets = [(r, ps) for r, ps in A.find(cb["body"], "Expr::Return")]
    good = 0
    for r, ps in rets:
        blk = next((p for p in reversed(ps) if A.kind(p) == "Block"), None)
        prev = [A.render_stmt(x) for x in (blk["stmts"] if blk else [])]
        if blk and len(prev) >= 2 and A.wfull(prev[-2].rstrip(";"), "repr=Some(ident.clone())") is not None and A.render(r) == "return Ok(())":
            good += 1
    cbt = A.render(cb["body"])
    # the same decision written as two arms / branches: one stores the integer, the complementary one swallows the body
    two_arms = False
    if not rets:
        store = next(((x, ps) for x, ps in A.find(cb["body"], "Expr::Assign") if A.render(x["left"]) == "repr" and A.render(x["right"]).startswith("Some(")), None)
        swallow = next(((x, ps) for x, ps in A.find(cb["body"], "Expr::MethodCall") if "parse::<proc_macro2::Group>" in A.render(x)), None)
        if store and swallow:
            a1 = next((p for p in reversed(store[1]) if A.kind(p) == "Arm"), None)
            a2 = next((p for p in reversed(swallow[1]) if A.kind(p) == "Arm"), None)
            m1 = next((p for p in reversed(store[1]) if A.kind(p) == "Expr::Match"), None)
            m2 = next((p for p in reversed(swallow[1]) if A.kind(p) == "Expr::Match"), None)
            two_arms = a1 is not None and a2 is not None and a1 is not a2 and m1 is m2 and m1 is not None and A.render_pat(a2["pat"]) in ("_", "None") or False
            if not two_arms:
                i1 = next((p for p in reversed(store[1]) if A.kind(p) == "Expr::If"), None)
                i2 = next((p for p in reversed(swallow[1]) if A.kind(p) == "Expr::If"), None)
                two_arms = i1 is not None and i1 is i2 and RJ._within(store[0], i1["then_branch"]) and not RJ._within(swallow[0], i1["then_branch"])
    need(
        ctx,
        "repr:consume-other-hints",
        (len(rets) == good == 1 and "meta.input.parse::<proc_macro2::Group>()" in cbt) or two_arms,
        ctx.where(ri.file, ri.node),
        f"the `parse_nested_meta` callback of `ReprInt` has {len(rets)} early exits ({good} right after storing the integer repr) / no longer swallows the `(..)` body of other hints: "
        "`#[repr(u8, align(2))]` then fails with \"expected `,`\" and no `TryFrom` impl is generated, although `#[repr(align(2), u8)]` works",
    )
    ty = A.get_fn(ctx.files, "impl/src/utils.rs", "attr::repr_int::ReprInt::ty")
    need(ctx, "repr:default", 'unwrap_or_else(||format_ident!("isize"))' in A.fn_text(ty), ctx.where(ty.file, ty.node), "the default representation is no longer `isize`")
    mg = A.get_fn(ctx.files, "impl/src/utils.rs", "attr::repr_int::<ReprInt as ParseMultiple>::merge_attrs")
    arms = {}
    for arm, _ in A.find(mg.block, "Arm"):
        for p in A.render_pat(arm["pat"]).split("|"):
            arms[p] = A.render(A.unblock(arm["body"]))
    want = {"(Some(_),None)": "Ok(prev)", "(None,None)": "Ok(prev)", "(None,Some(_))": "Ok(new)"}
    for p, b in want.items():
        need(ctx, f"repr:merge:{p}", arms.get(p) == b, ctx.where(mg.file, mg.node), f"merging `#[repr]` attributes {p} yields `{arms.get(p)}` instead of `{b}`: an integer repr followed by a separate non-integer `#[repr(align(..))]` is forgotten and `isize` is assumed")
    # the consumer asks the merging parser about *all* attributes of the item
    ex = A.get_fn(ctx.files, rel, "expand")
    et = A.fn_text(ex)
    lit = next((x for x, _ in A.find(ex.block, "Expr::Struct") if A.path_last(x["path"]) == "Expansion"), None)
    rv = None
    if lit is not None:
        for fv in lit["fields"]:
            if A.kind(fv["member"]) == "Member::Named" and fv["member"]["0"]["sym"] == "repr":
                rv = A.render(fv["expr"])
    need(
        ctx,
        "repr:all-attrs",
        rv is not None and re.fullmatch(r'attr::ReprInt::parse_attrs\(&input\.attrs,&format_ident!\("repr"\)\)\?\.map\(Spanning::into_inner\)\.unwrap_or_default\(\)', rv) is not None,
        ctx.where(ex.file, ex.node),
        f"the enum's representation is read as `{rv}` and not by `ReprInt::parse_attrs(&input.attrs, \"repr\")` over *all* of the item's attributes (merged by `merge_attrs`): "
        "with `#[repr(align(4))] #[repr(u8)]` only one attribute is looked at, `isize` is assumed and `TryFrom<isize>` is generated instead of `TryFrom<u8>`",
    )
    # the entry accepts every enum: one unguarded arm per kind of item
    mt = next((m for m, _ in A.find(ex.block, "Expr::Match") if A.render(m["expr"]) in ("&input.data", "input.data")), None)
    arms_ = [(A.render_pat(a["pat"]), a.get("guard")) for a in mt["arms"]] if mt else []
    need(
        ctx,
        "entry:every-enum",
        mt is not None and [p for p, _ in arms_] == ["syn::Data::Struct(data)", "syn::Data::Enum(data)", "syn::Data::Union(data)"] and not any(g for _, g in arms_),
        ctx.where(ex.file, ex.node),
        f"`expand` no longer dispatches on the kind of item alone (arms {[p + (' if ..' if g else '') for p, g in arms_]}): enums of some shape (e.g. without unit variants, for which every integer must simply be `Err`) are refused or handled by another arm",
    )
    need(ctx, "repr:merge:both", (arms.get("(Some(_),Some(_))") or "").startswith("Err("), ctx.where(mg.file, mg.node), "two integer reprs are no longer an error")


# ---------------------------------------------------------------- C13


def rule_from_str(ctx):
    """FROMSTR: enum arms compare the lower-cased input with the lower-cased un-raw variant name using the *same* case mapping on both sides; a group with one member matches case-insensitively, every member of a larger group is guarded by `src == "<exact name>"`; everything else returns `FromStrError::new(<type name>)`; only field-less variants are accepted; a newtype delegates to `<Field as FromStr>::from_str(src)?` and re-uses the field's error type."""
    rel = "impl/src/from_str.rs"
    ex = A.get_fn(ctx.files, rel, "expand")
    et = A.fn_text(ex)
    from . import reject as RJ

    from .. import guardf as GF

    def reach(callee):
        out = []
        for c, ps in A.find(ex.block, "Expr::Call"):
            if A.kind(c["func"]) == "Expr::Path" and A.path_str(c["func"]).split("::")[-1] == callee:
                out.append(RJ.site_formula(ex, c, ps))
        return out

    f_enum, f_struct = reach("enum_from"), reach("struct_from")
    re_enum, re_struct = [GF.canon_text(x) for x in f_enum], [GF.canon_text(x) for x in f_struct]
    need(
        ctx,
        "from_str:dispatch",
        len(f_enum) == 1
        and len(f_struct) == 1
        and f_enum[0][0] == "is"
        and f_enum[0][1].endswith(".derive_type")
        and f_enum[0][2] == "DeriveType::Enum"
        and GF.equivalent(f_struct[0], GF.f_not(f_enum[0]))[0],
        ctx.where(ex.file, ex.node),
        f"`expand` reaches `enum_from` under {re_enum} and `struct_from` under {re_struct} instead of exactly `state.derive_type == DeriveType::Enum` / its negation: deciding by another observation (e.g. 'has variants') sends an enum without variants to the struct path, which panics instead of generating the impl that rejects every string",
        {"body": et[:300]},
    )
    fn = A.get_fn(ctx.files, rel, "enum_from")
    w = ctx.where(fn.file, fn.node)
    t = A.fn_text(fn)
    tt = texts(fn)
    key_map = re.search(r"\.entry\(\w+\.ident\.unraw\(\)\.to_string\(\)\.(\w+)\(\)\)", t)
    impl = tt[-1] if tt else ""
    src_map = re.search(r"matchsrc\.(\w+)\(\)\.as_str\(\)\{", impl)
    ctx.instance("fromstr:normalisation", sample={"key": key_map.group(1) if key_map else None, "scrutinee": src_map.group(1) if src_map else None})
    if not key_map or not src_map:
        raise A.AnchorLost(f"{rel}::enum_from", "key / scrutinee normalisation")
    if key_map.group(1) != src_map.group(1):
        ctx.report(
            "fromstr:asymmetric-normalisation",
            w,
            f"match keys are built with `{key_map.group(1)}()` at expansion time but the input is mapped with `{src_map.group(1)}()` at run time: names with non-ASCII letters (`Édith`) never match themselves",
            {},
        )
    need(ctx, "fromstr:lowercase", key_map.group(1) == "to_lowercase", w, "case-insensitive matching no longer uses `to_lowercase`")
    # the generated `from_str` decides by the match alone: nothing looks at the raw input before it is normalised
    need(
        ctx,
        "fromstr:match-only",
        re.search(r"fnfrom_str\(\w+:&str\)->[^{]*\{(derive_more::core::result::Result::)?Ok\(match\w+\.", impl) is not None,
        w,
        "the generated `from_str` no longer consists of the `match` on the normalised input alone: a statement before it (a pre-check on the raw input's byte length, first character, ..) can reject strings the match accepts - "
        "lengths computed from `variant.to_string()` include the `r#` of raw identifiers (`r#if` makes \"if\" too short), and lower-casing changes the UTF-8 length",
        {"impl": impl[:300]},
    )
    # guard structure
    loop = None
    mm = A.wsearch(t, "let mut groups=HashMap::default()")
    gname = mm.group("v_groups") if mm else None
    for fl, _ in A.find(fn.block, "Expr::ForLoop"):
        if gname and A.render(fl["expr"]) == gname and A.render_pat(fl["pat"]).startswith("("):
            loop = fl
    if loop is None:
        raise A.AnchorLost(f"{rel}::enum_from", "loop over the case-insensitive groups")
    # semantic form: where are the unguarded / the guarded arm templates reached inside the per-group loop?
    from . import reject as RJ

    arms_found = {"plain": [], "guarded": []}
    for mac, ps in A.find(loop["body"], ("Expr::Macro", "Stmt::Macro")):
        if A.path_last(mac["mac"]["path"]) != "quote":
            continue
        txt = T.ir_text(T.to_ir(mac["mac"]["tokens"])).replace(" ", "")
        chain = A.alpha(" && ".join(RJ.guard_chain(fn, mac, (loop["body"],) + tuple(ps), {})), numbered=False)
        iterated = any((A.kind(p) == "Expr::ForLoop" or (A.kind(p) == "Expr::MethodCall" and p["method"]["sym"] in ("map", "for_each", "flat_map"))) for p in ps)
        if A.TTxt(txt).same("#canonical=>#input_type::#variant,"):
            arms_found["plain"].append((chain, iterated))
        elif A.TTxt(txt).same("#canonicalif(src==#variant_str)=>#input_type::#variant,"):
            arms_found["guarded"].append((chain, iterated))
    ONE = ("if $.len()==1", "$.as_slice() ~ [$]", "&$[..] ~ [$]", "$ ~ [$]")
    NOT_ONE = ("if !($.len()==1)", "$.as_slice() !~ [$]", "&$[..] !~ [$]", "$ !~ [$]", "if $.len()>1")
    ok = (
        len(arms_found["plain"]) == 1
        and len(arms_found["guarded"]) == 1
        and arms_found["plain"][0][0] in ONE
        and arms_found["guarded"][0][0] in NOT_ONE
        and arms_found["guarded"][0][1]
        and (A.wsearch(t, "let variant_str=variant.unraw().to_string()") is not None)
    )
    need(
        ctx,
        "fromstr:ambiguity-guard",
        bool(ok),
        w,
        "the arms of a case-colliding group are no longer *all* guarded by `if (src == \"<exact name>\")` (or a unique group is no longer matched case-insensitively): "
        "with `enum E { on, On, ON }` an unguarded member swallows the inputs of its siblings",
        {"arms": arms_found},
    )
    need(ctx, "fromstr:fallthrough", "_=>returnderive_more::core::result::Result::Err(derive_more::FromStrError::new(#input_type_name),)," in impl, w, "unknown strings no longer return `Err(FromStrError::new(<type name>))`")
    need(ctx, "fromstr:fieldless", "if !variant.fields.is_empty(){panic!(" in t, w, "variants with fields are no longer rejected")
    need(ctx, "fromstr:enabled", "for variant_state in state.enabled_variant_data().variant_states" in t, w, "variants are no longer taken from the enabled variants")
    sf = A.get_fn(ctx.files, rel, "struct_from")
    st = A.fn_text(sf)
    stt = texts(sf)
    w = ctx.where(sf.file, sf.node)
    sti = A.fn_text(sf, inline=True)
    deleg = "#casted_trait::from_str(src)?" in stt and (
        (re.search(r"let \w+=\[quote!\(#\w+::from_str\(src\)\?\)\];", sti) is not None and re.search(r"\.initializer\(&\w+\)", sti) is not None)
        or re.search(r"\.initializer\(&\[quote!\(#\w+::from_str\(src\)\?\)\]\)", sti) is not None
    )
    need(ctx, "fromstr:newtype:delegation", deleg, w, "newtype FromStr no longer wraps `<Field as FromStr>::from_str(src)?`")
    need(ctx, "fromstr:newtype:error", "<#field_typeas#trait_path>::Err" in stt and any("typeErr=#error;" in s and "fnfrom_str(src:&str)->derive_more::core::result::Result<Self,#error>{derive_more::core::result::Result::Ok(#body)}" in s for s in stt), w, "newtype FromStr no longer returns the field type's own error unchanged")
    # reach condition of the refusal, canonical (aliases inlined, negations normalised)
    # (the refusal is a call of the `-> !` helper or the panic itself)
    sites_ = [(c, ps) for c, ps in A.find(sf.block, "Expr::Call") if A.kind(c["func"]) == "Expr::Path" and A.path_str(c["func"]) == "panic_one_field"]
    sites_ += [(m_, ps) for m_, ps in A.find(sf.block, ("Expr::Macro", "Stmt::Macro")) if A.path_last(m_["mac"]["path"]) == "panic"]
    one_f = [RJ.site_formula(sf, c, ps) for c, ps in sites_]
    want_f = GF.f_or([GF.f_not(("is", "$.fields.len()", "1")), GF.f_not(("is", "$.enabled_fields().len()", "1"))])
    need(ctx, "fromstr:newtype:single-field", len(one_f) == 1 and GF.equivalent(one_f[0], want_f)[0], w, f"newtype FromStr no longer requires exactly one (declared and enabled) field (refuses under {[GF.canon_text(x) for x in one_f]})")


# ---------------------------------------------------------------- C14


def rule_delegation(ctx):
    """DELEG: Deref/DerefMut/Index/IndexMut/IntoIterator/AsRef/AsMut act on the single selected field: direct forms return `&[mut] self.<member>`, forwarded forms call `<FieldTy as Trait>::method(&[mut] self.<member>[, idx])` with associated types projected from the same cast; the three IntoIterator forms differ only in the reference tokens; AsRef picks Direct for the field's own type, Forwarded for blanket/generic cases and the autoref-specialised body otherwise, whose receiver has exactly one more `&` than the identity impls of src/as.rs."""
    d = A.get_fn(ctx.files, "impl/src/deref.rs", "expand")
    w = ctx.where(d.file, d.node)
    tt = texts(d)
    t = A.fn_text(d)
    need(ctx, "deref:single-field", "=state.assert_single_enabled_field()" in t, w, "Deref no longer takes the single enabled field")
    need(ctx, "deref:forward", "#casted_trait::Target" in tt and "#casted_trait::deref(&#member)" in tt and "where#field_type:#trait_path" in tt, w, "forwarded Deref is no longer `<FieldTy as Deref>::deref(&self.field)` with `Target` projected from the same cast", {"templates": tt})
    # under which condition is each piece produced? (one tuple-valued `if`, or one `if` per piece, aliases inlined)
    from . import reject as RJ

    class _TC(dict):
        """template text -> conditions; keys are looked up up to renaming of the interpolated names"""

        def get(self, pattern, default=None):
            if pattern in self:
                return self[pattern]
            hits = [v for k, v in self.items() if A.TTxt(k).same(pattern)]
            return hits[0] if len(hits) == 1 else default

    def tpl_conditions(g):
        out = _TC()
        for mac, ps in A.find(g.block, ("Expr::Macro", "Stmt::Macro")):
            if A.path_last(mac["mac"]["path"]) == "quote":
                txt = T.ir_text(T.to_ir(mac["mac"]["tokens"])).replace(" ", "")
                out.setdefault(txt, []).append(RJ.site_formula(g, mac, ps))
        return out

    from .. import guardf as GF

    class _Cond(list):
        """[formula]; equal to another such list when the formulas are pairwise equivalent"""

        def __eq__(self, other):
            return isinstance(other, list) and len(self) == len(other) and all(GF.equivalent(a, b)[0] for a, b in zip(self, other))

        def __ne__(self, other):
            return not self.__eq__(other)

    tc = tpl_conditions(d)
    FWD, DIR = _Cond([("atom", "$.forward")]), _Cond([("not", ("atom", "$.forward"))])
    need(
        ctx,
        "deref:direct",
        tc.get("#field_type") == DIR and tc.get("&#member") == DIR and tc.get("#casted_trait::Target") == FWD and tc.get("#casted_trait::deref(&#member)") == FWD and tc.get("where#field_type:#trait_path") == FWD,
        w,
        f"Deref: the direct form (`Target = FieldTy`, `&self.field`) and the forwarded form are no longer selected by `info.forward` alone ({ {k: [GF.canon_text(x) for x in v] for k, v in tc.items() if len(k) < 40} })",
    )
    need(ctx, "deref:impl", any("typeTarget=#target;#[inline]fnderef(&self)->&Self::Target{#body}" in s for s in tt), w, "Deref impl shape changed")
    dm = A.get_fn(ctx.files, "impl/src/deref_mut.rs", "expand")
    tt = texts(dm)
    w = ctx.where(dm.file, dm.node)
    tcm = tpl_conditions(dm)
    need(
        ctx,
        "deref_mut:forms",
        tcm.get("#casted_trait::deref_mut(&mut#member)") == FWD and tcm.get("&mut#member") == DIR and any("fnderef_mut(&mutself)->&mutSelf::Target{#body}" in s for s in tt),
        w,
        "DerefMut no longer returns `&mut self.field` / forwards to the field's deref_mut exactly as `info.forward` says",
        {"templates": tt},
    )
    for rel, meth, r in (("impl/src/index.rs", "index", "&"), ("impl/src/index_mut.rs", "index_mut", "&mut")):
        fn = A.get_fn(ctx.files, rel, "expand")
        tt = texts(fn)
        t = A.fn_text(fn)
        w = ctx.where(fn.file, fn.node)
        need(ctx, f"{meth}:call", any(f"{{#casted_trait::{meth}({r}#member,idx)}}" in s for s in tt), w, f"{meth} no longer forwards `(&[mut] self.field, idx)` to the field's own implementation", {"templates": tt})
        # `add_where_clauses_for_new_ident(&input.generics, &[field], &index_type, <where FieldTy: Trait<__IdxT>>, true)`,
        # the where-clause given inline or through an alias
        b_ok = False
        for c_, _ in A.find(fn.block, "Expr::Call"):
            if A.kind(c_["func"]) == "Expr::Path" and A.path_str(c_["func"]).split("::")[-1] == "add_where_clauses_for_new_ident" and len(c_["args"]) == 5:
                a_ = [A.render(x_).replace(" ", "") for x_ in c_["args"]]
                wexpr = A.peel(c_["args"][3])
                if A.kind(wexpr) == "Expr::Path":
                    inits_ = [st_["init"]["expr"] for st_, _ in A.find(fn.block, "Stmt::Local") if st_.get("init") and A.pat_idents(st_["pat"]) == [A.path_str(wexpr)]]
                    wexpr = A.peel(inits_[0]) if len(inits_) == 1 else wexpr
                wtxt = T.ir_text(T.to_ir(wexpr["mac"]["tokens"])).replace(" ", "") if A.kind(wexpr) == "Expr::Macro" and A.path_last(wexpr["mac"]["path"]) == "quote" else None
                # the new parameter is the identifier `__IdxT`, whatever the local is called
                idx_nm = a_[2].lstrip("&")
                idx_ok = any(d_["pattern"] == "__IdxT" and not d_["args"] for st_, _ in A.find(fn.block, "Stmt::Local") if st_.get("init") and A.pat_idents(st_["pat"]) == [idx_nm] for d_ in [A.ident_ctor(st_["init"]["expr"])] if d_)
                if a_[0] == "&input.generics" and a_[1] == "&[field]" and idx_ok and a_[4] == "true" and wtxt is not None and A.TTxt(wtxt).same("where#field_type:#trait_path_with_params"):
                    b_ok = True
        need(ctx, f"{meth}:bound", "where#field_type:#trait_path_with_params" in tt and b_ok, w, f"{meth}: the index type parameter / `FieldTy: Index<__IdxT>` bound changed")
        if meth == "index":
            need(ctx, "index:output", any("typeOutput=#casted_trait::Output;" in s for s in tt), w, "Index::Output is no longer the field's Output")
    ii = A.get_fn(ctx.files, "impl/src/into_iterator.rs", "expand")
    tt = texts(ii)
    t = A.fn_text(ii)
    w = ctx.where(ii.file, ii.node)
    # one impl template, inside one iteration over the selected reference kinds, its three reference tokens derived from
    # the iteration variable (loop, closure or named closure alike)
    impl_mac = next((m_ for m_, _ in A.find(ii.block, ("Expr::Macro", "Stmt::Macro")) if A.path_last(m_["mac"]["path"]) == "quote" and "impl" in A.token_idents(m_["mac"]["tokens"])), None)
    it_ = A.iteration_of(impl_mac, ii.block) if impl_mac is not None else None
    ok_ = False
    if it_:
        src_, pat_, stmts_ = it_
        var_ = re.sub(r":.*", "", pat_)
        body_ = ";".join(A.render_stmt(x) for x in stmts_)
        ok_ = re.fullmatch(r"\w+\.ref_types\(\)", src_) is not None and all(f"{var_}.{m_}()" in body_ for m_ in ("reference", "lifetime", "reference_with_lifetime"))
    need(ctx, "into_iter:per-kind", ok_, w, "IntoIterator impls are no longer generated per selected reference kind from one template")
    need(ctx, "into_iter:cast", "<#reference_with_lifetime#field_typeas#trait_path>" in tt and "where#reference_with_lifetime#field_type:#trait_path" in tt, w, "the cast / bound is no longer on `&'a [mut] FieldTy`")
    need(ctx, "into_iter:impl", any("typeItem=#casted_trait::Item;typeIntoIter=#casted_trait::IntoIter;#[inline]fninto_iter(self)->Self::IntoIter{#casted_trait::into_iter(#reference#member)}" in s for s in tt), w, "IntoIterator body is no longer `<&[mut] FieldTy as IntoIterator>::into_iter(&[mut] self.field)` with Item/IntoIter of the same cast", {"templates": tt})
    # RefType helpers agree pairwise
    rt = {n: A.get_fn(ctx.files, "impl/src/utils.rs", f"RefType::{n}") for n in ("lifetime", "reference", "mutability", "reference_with_lifetime", "pattern_ref")}
    tbl = {}
    for n in ("lifetime", "reference", "mutability", "pattern_ref"):
        for arm, _ in A.find(rt[n].block, "Arm"):
            tbl[(n, A.render_pat(arm["pat"]))] = A.render(A.unblock(arm["body"]))
    want = {
        ("reference", "RefType::No"): "quote!()", ("reference", "RefType::Ref"): "quote!(&)", ("reference", "RefType::Mut"): "quote!(&mut)",
        ("mutability", "RefType::Mut"): "quote!(mut)", ("mutability", "_"): "quote!()",
        ("lifetime", "RefType::No"): "quote!()", ("lifetime", "_"): "quote!('__deriveMoreLifetime)",
        ("pattern_ref", "RefType::Ref"): "quote!(ref)", ("pattern_ref", "RefType::Mut"): "quote!(ref mut)", ("pattern_ref", "RefType::No"): "quote!()",
    }
    for k, v in want.items():
        need(ctx, f"reftype:{k[0]}:{k[1]}", tbl.get(k) == v, ctx.where(rt[k[0]].file, rt[k[0]].node), f"`RefType::{k[0]}` for `{k[1]}` yields `{tbl.get(k)}` instead of `{v}`: owned / shared / mutable forms no longer differ only by their reference tokens")
    # `& <lifetime> <mutability>` however it is assembled (one template over two aliases, or a stream extended piecewise),
    # after the early `if !self.is_ref() { return quote!() }`
    rwl = rt["reference_with_lifetime"]
    al_r = {n: A.render(e).replace(" ", "") for n, (e, st_, interp) in A.aliases(rwl).items()}
    reads = set()
    for t_ in T.templates_both(rwl):
        txt_ = T.ir_text([dict(x_, s=al_r.get(x_["s"], x_["s"])) if x_["t"] == "var" else x_ for x_ in t_.ir]).replace(" ", "")
        reads.add(txt_)
    first = A.render_stmt(rwl.block["stmts"][0]) if rwl.block["stmts"] else ""
    need(ctx, "reftype:rwl", "&#self.lifetime()#self.mutability()" in reads and first.replace(" ", "").startswith("if!self.is_ref(){returnquote!()}"), ctx.where(rt["lifetime"].file, rwl.node), f"`reference_with_lifetime` is no longer `& 'lt [mut]` (readings {sorted(reads)})")
    # AsRef / AsMut
    ar = A.get_fn(ctx.files, "impl/src/as/mod.rs", "<Expansion as ToTokens>::to_tokens")
    t = A.fn_text(ar)
    tt = texts(ar)
    w = ctx.where(ar.file, ar.node)
    # the borrowed member is `self.<x>` with x built from the field's own identifier, else from its *original* index
    # (`Either`, `syn::Member`, `match`, `map_or_else` .. alike): the initialiser of the interpolated selector names
    # `self.field.ident` and exactly one index, `Index::from(self.field_index)`
    mem_ok = False
    for t_ in T.templates_both(ar):
        m_ = re.fullmatch(r"&#(\w+)self\.#(\w+)", T.ir_text(t_.ir).replace(" ", ""))
        if m_:
            inits_ = [A.render(st_["init"]["expr"]).replace(" ", "") for st_, _ in A.find(ar.block, "Stmt::Local") if st_.get("init") and A.pat_idents(st_["pat"]) == [m_.group(2)]]
            if inits_ and all("self.field.ident" in i_ and i_.count("Index::from(") == 1 and "Index::from(self.field_index)" in i_ for i_ in inits_):
                mem_ok = True
    need(ctx, "as:member", mem_ok, w, "AsRef/AsMut no longer borrow the field under its own name / original index")
    need(
        ctx,
        "as:kind-decision",
        "let impl_kind=if is_blanket{ImplKind::Forwarded}else if field_ty==return_ty.as_ref(){ImplKind::Direct}else if field_contains_generics||generics_search.any_in(&return_ty){ImplKind::Forwarded}else {ImplKind::Specialized}" in t,
        w,
        "the Direct / Forwarded / Specialized decision changed: a listed type equal to the field's type must yield the field itself (`Direct`) before generics are considered",
    )
    need(ctx, "as:bodies", "<#field_tyas#trait_ty>::#method_ident(#field_ref)" in tt and "ImplKind::Direct=>Cow::Borrowed(&field_ref)" in t, w, "direct / forwarded AsRef bodies changed")
    spec = [s for s in tt if "__extract_ref" in s]
    need(ctx, "as:specialized:shape", len(spec) >= 1 and all("usederive_more::__private::ExtractRefas_;letconv=<derive_more::__private::Conv<&#mut_#field_ty,#return_ty>asderive_more::core::default::Default>::default();" in x for x in spec), w, "the autoref-specialised body changed", {"templates": spec})
    # autoref levels: identity impls are on `&Conv<..>`, forwarding ones on `Conv<..>`; the call needs one more `&`
    lib = ctx.files.get("src/as.rs")
    if lib is None:
        raise A.AnchorLost("src/as.rs", "missing")
    ident_refs, fwd_refs = set(), set()
    for it, mods, cfgs in A.iter_items(lib.ast["items"]):
        if A.kind(it) == "Item::Impl" and it.get("trait_") and A.path_last(it["trait_"][1]) == "ExtractRef":
            st = it["self_ty"]
            depth = 0
            while A.kind(st) == "Type::Reference":
                depth += 1
                st = st["elem"]
            body = " ".join(A.fn_text(f_) for f_ in A.functions(lib) if f_.impl is it)
            # identity: the body is the method's own value parameter, whatever it is called
            prm_ = {x for f_ in A.functions(lib) if f_.impl is it for p_ in f_.node["sig"]["inputs"] if A.kind(p_) == "FnArg::Typed" for x in A.pat_idents(p_["0"]["pat"])}
            if body.strip() in prm_:
                ident_refs.add(depth)
            else:
                fwd_refs.add(depth)
    # AS-SIB: the `&mut` impls are the `&` impls with `mut` / AsMut / as_mut substituted: same generics, same bounds
    # (`?Sized` included: an unsized field type must still hit the identity impl), same receiver depth
    def _impl_sig(it):
        gen = ",".join(sorted(A.render(p) if A.kind(p) else str(p) for p in it["generics"]["params"]))
        wc = it["generics"].get("where_clause")
        preds = sorted(A.tokens_compact([t]) if False else _render_pred(pr) for pr in (wc["predicates"] if wc else []))
        body = " ".join(A.fn_text(f_) for f_ in A.functions(lib) if f_.impl is it)
        assoc = sorted(f"{ii['ident']['sym']}={_render_ty(ii['ty'])}" for ii in it["items"] if A.kind(ii) == "ImplItem::Type")
        return {"self": _render_ty(it["self_ty"]), "generics": gen, "where": preds, "assoc": assoc, "body": body}

    def _render_ty(t):
        sp = A.span_of(t)
        return re.sub(r"\s+", "", lib.text(sp[0], sp[1])) if sp else "?"

    def _render_pred(pr):
        sp = A.span_of(pr)
        return re.sub(r"\s+", "", lib.text(sp[0], sp[1])) if sp else "?"

    def _unmut(d):
        def u(x):
            return x.replace("'amut", "'a").replace("AsMut", "AsRef").replace("as_mut", "as_ref") if isinstance(x, str) else [u(y) for y in x]

        return {k: u(v) for k, v in d.items()}

    sigs = []
    for it, mods, cfgs in A.iter_items(lib.ast["items"]):
        if A.kind(it) == "Item::Impl" and it.get("trait_") and A.path_last(it["trait_"][1]) == "ExtractRef":
            sigs.append(_impl_sig(it))
    shared = [x for x in sigs if "mut" not in x["self"]]
    muts = [x for x in sigs if "mut" in x["self"]]
    ctx.instance("as:sibling-impls", sample={"shared": len(shared), "mut": len(muts)})
    if len(shared) != 2 or len(muts) != 2:
        raise A.AnchorLost("src/as.rs::ExtractRef impls", f"{len(shared)} shared / {len(muts)} mutable impls")
    for mi in muts:
        um = _unmut(mi)
        twin = next((x for x in shared if x["self"] == um["self"]), None)
        if twin is None or twin != um:
            diff = [k for k in um if twin is None or twin[k] != um[k]]
            ctx.report(
                f"as:sibling:{mi['self']}",
                ctx.where(lib, lib.ast["items"][0]) if False else "src/as.rs",
                f"the `ExtractRef` impl for `{mi['self']}` differs from its shared-reference twin in {diff}: `{ {k: mi[k] for k in diff} }` vs `{ {k: (twin or {}).get(k) for k in diff} }`; "
                "AsMut then specialises differently from AsRef (e.g. without `T: ?Sized` an unsized field type no longer hits the identity impl and its own `AsMut<Self>` is called instead of returning the field)",
                {},
            )
    m = re.search(r"\((&+)conv\)\.__extract_ref\(#field_ref\)", spec[0]) if spec else None
    call_refs = len(m.group(1)) if m else -1
    ctx.instance("as:autoref-levels", sample={"identity_impl_refs": sorted(ident_refs), "forwarding_impl_refs": sorted(fwd_refs), "call_refs": call_refs})
    if len(ident_refs) != 1 or len(fwd_refs) != 1:
        raise A.AnchorLost("src/as.rs::ExtractRef impls", f"identity on {ident_refs}, forwarding on {fwd_refs}")
    ir, fr = next(iter(ident_refs)), next(iter(fwd_refs))
    if not (ir == fr + 1 and call_refs == ir + 1):
        ctx.report(
            "as:autoref-priority",
            w,
            f"autoref specialisation is inverted: identity impls are on {'&' * ir}Conv, forwarding ones on {'&' * fr}Conv, but the call is `({'&' * max(call_refs, 0)}conv).__extract_ref(..)`; "
            "the receiver needs exactly one more `&` than the identity impls so that identity wins whenever the listed type *is* the field's type (through an alias or path), "
            "otherwise a field type with its own `AsRef<Self>` returns that impl's result instead of the field",
            {},
        )


def _eval_ref_types(fn, env):
    """evaluate `FullMetaInfo::ref_types` for one assignment of the three flags (env: 'self.owned' -> bool ..):
    the list of `RefType` variants it returns, or None when the body is outside the two readable forms"""
    st = fn.block["stmts"]

    def flag(e):
        e = A.peel(e)
        while A.kind(e) == "Expr::Unary" and A.kind(e["op"]) == "UnOp::Deref":
            e = A.peel(e["expr"])
        r = A.render(e)
        return env.get(r)

    # form A: `let mut v = vec![]; if self.f { v.push(R) } ..; v`
    if len(st) >= 2 and A.kind(st[0]) == "Stmt::Local" and A.kind(st[-1]) == "Stmt::Expr":
        ids = A.pat_idents(st[0]["pat"])
        if len(ids) == 1 and A.render(A.peel(st[-1]["0"])) == ids[0]:
            out = []
            for s_ in st[1:-1]:
                e = s_.get("0") if A.kind(s_) == "Stmt::Expr" else None
                if e is None or A.kind(e) != "Expr::If" or e.get("else_branch"):
                    return None
                c = flag(e["cond"])
                body = e["then_branch"]["stmts"]
                if c is None or len(body) != 1:
                    return None
                m = re.fullmatch(re.escape(ids[0]) + r"\.push\((RefType::\w+)\)", A.render_stmt(body[0]).rstrip(";"))
                if not m:
                    return None
                if c:
                    out.append(m.group(1))
            return out
    # form B: `[(self.f, R), ..].into_iter().<adaptors>.collect()`
    if len(st) == 1 and A.kind(st[0]) == "Stmt::Expr":
        chain = []
        e = A.peel(st[0]["0"])
        while A.kind(e) == "Expr::MethodCall":
            chain.append(e)
            e = A.peel(e["receiver"])
        chain.reverse()
        if A.kind(e) != "Expr::Array":
            return None
        items = []
        for el in e["elems"]:
            el = A.peel(el)
            if A.kind(el) != "Expr::Tuple" or len(el["elems"]) != 2:
                return None
            vals = []
            for x in el["elems"]:
                f_ = flag(x)
                vals.append(f_ if f_ is not None else A.render(A.peel(x)))
            items.append(tuple(vals))

        def call(cl, item):
            pat = cl["inputs"][0]
            while A.kind(pat) in ("Pat::Reference", "Pat::Paren", "Pat::Type"):
                pat = pat["pat"]
            loc = {}
            if A.kind(pat) == "Pat::Tuple" and isinstance(item, tuple):
                for p_, v_ in zip(pat["elems"], item):
                    ids_ = A.pat_idents(p_)
                    if len(ids_) == 1:
                        loc[ids_[0]] = v_
            elif A.kind(pat) == "Pat::Ident":
                loc[pat["ident"]["sym"]] = item
            else:
                raise ValueError("closure parameter")

            def ev(b):
                b = A.peel(b)
                k = A.kind(b)
                if k == "Expr::Unary" and A.kind(b["op"]) == "UnOp::Deref":
                    return ev(b["expr"])
                if k == "Expr::Unary" and A.kind(b["op"]) == "UnOp::Not":
                    v = ev(b["expr"])
                    if not isinstance(v, bool):
                        raise ValueError("!")
                    return not v
                if k == "Expr::Path" and A.path_str(b) in loc:
                    return loc[A.path_str(b)]
                if k == "Expr::MethodCall" and b["method"]["sym"] == "then_some" and len(b["args"]) == 1:
                    c_ = ev(b["receiver"])
                    return ("some", ev(b["args"][0])) if c_ else ("none",)
                if k == "Expr::Field":
                    base = ev(b["base"])
                    idx = b["member"]["0"].get("index") if A.kind(b["member"]) == "Member::Unnamed" else None
                    if isinstance(base, tuple) and idx is not None:
                        return base[idx]
                raise ValueError(A.render(b))

            return ev(cl["body"])

        try:
            for mc in chain:
                m = mc["method"]["sym"]
                if m in ("into_iter", "iter", "copied", "cloned"):
                    continue
                if m == "collect":
                    break
                if len(mc["args"]) != 1 or A.kind(mc["args"][0]) != "Expr::Closure":
                    return None
                cl = mc["args"][0]
                if m == "filter":
                    items = [it for it in items if call(cl, it) is True]
                elif m == "map":
                    items = [call(cl, it) for it in items]
                elif m == "filter_map":
                    res = [call(cl, it) for it in items]
                    items = [r[1] for r in res if r[0] == "some"]
                elif m == "skip_while":
                    k_ = 0
                    while k_ < len(items) and call(cl, items[k_]) is True:
                        k_ += 1
                    items = items[k_:]
                elif m == "take_while":
                    k_ = 0
                    while k_ < len(items) and call(cl, items[k_]) is True:
                        k_ += 1
                    items = items[:k_]
                else:
                    return None
        except ValueError:
            return None
        if all(isinstance(x, str) and x.startswith("RefType::") for x in items):
            return items
    return None


def rule_ref_types(ctx):
    """REF-KINDS: `FullMetaInfo::ref_types()` - the list every by-reference derive (TryInto, Unwrap, TryUnwrap, Into, IntoIterator ..) iterates to emit its owned / `&` / `&mut` forms - contains `RefType::No` iff `owned`, `RefType::Ref` iff `ref_`, `RefType::Mut` iff `ref_mut`, in that order, for all eight combinations of the three flags. The body is *evaluated* on each combination (push-under-if statements, or an array of (flag, kind) pairs through `filter` / `map` / `filter_map` / `skip_while` / `take_while`), so a contiguous-run shortcut that loses `ref_mut` in `owned, ref_mut` is seen as a wrong table row."""
    fn = A.get_fn(ctx.files, "impl/src/utils.rs", "FullMetaInfo::ref_types")
    w = ctx.where(fn.file, fn.node)
    import itertools

    for o, r, m in itertools.product((False, True), repeat=3):
        env = {"self.owned": o, "self.ref_": r, "self.ref_mut": m}
        got = _eval_ref_types(fn, env)
        want = [k for k, f_ in (("RefType::No", o), ("RefType::Ref", r), ("RefType::Mut", m)) if f_]
        ctx.instance(f"ref_types:owned={o},ref={r},ref_mut={m}", sample={"flags": env, "kinds": got})
        if got is None:
            raise A.AnchorLost("impl/src/utils.rs::FullMetaInfo::ref_types", "body is neither push-under-if statements nor an array of (flag, kind) pairs through iterator adaptors")
        if got != want:
            ctx.report(f"ref-kinds:owned={o},ref={r},ref_mut={m}", w, f"`ref_types()` yields {got} for owned={o}, ref={r}, ref_mut={m}; the selected kinds are {want}: a requested form of the derive is not generated (or an unrequested one is)", {})
