"""C15 - expansions depend on no name from the caller's scope (TPL-HYG, TPL-METH, TPL-EXPORT)."""
import re

from .. import ast as A
from .. import tpl as T
from .. import types as TY

KEYWORDS = {
    "as", "break", "const", "continue", "crate", "dyn", "else", "enum", "extern", "false", "fn", "for", "if",
    "impl", "in", "let", "loop", "match", "mod", "move", "mut", "pub", "ref", "return", "self", "Self", "static",
    "struct", "super", "trait", "true", "type", "unsafe", "use", "where", "while", "async", "await", "_",
}
PRIMITIVES = {
    "bool", "char", "str", "u8", "u16", "u32", "u64", "u128", "usize", "i8", "i16", "i32", "i64", "i128", "isize",
    "f32", "f64",
}


def _is_pathsep_before(seq, i):
    """tokens i-2,i-1 are `::`"""
    return (
        i >= 2
        and seq[i - 1]["t"] == "p"
        and seq[i - 1]["c"] == ":"
        and seq[i - 2]["t"] == "p"
        and seq[i - 2]["c"] == ":"
        and seq[i - 2]["joint"]
    )


def _next_is(seq, i, c):
    return i + 1 < len(seq) and seq[i + 1]["t"] == "p" and seq[i + 1]["c"] == c


def _next_is_single(seq, i, c, not_followed=()):
    """token i+1 is punct c and it is not the first half of a two-char operator listed in not_followed."""
    if not _next_is(seq, i, c):
        return False
    nx = seq[i + 1]
    if nx["joint"] and i + 2 < len(seq) and seq[i + 2]["t"] == "p" and seq[i + 2]["c"] in not_followed:
        return False
    return True


def declared_names(ir, out):
    """Names a template declares itself: fn parameters, let/const/type names, generic parameters of a
    literal `fn name<..>`, match-arm binders (`name =>`, `name @`), and a template that consists of one
    lower-case identifier (a local name chosen by the generator and spliced as pattern and expression)."""
    seq = ir
    if len(seq) == 1 and seq[0]["t"] == "id" and (seq[0]["s"][0].islower() or seq[0]["s"].startswith("_")) and seq[0]["s"] not in KEYWORDS:
        out.add(seq[0]["s"])
    n = len(seq)
    i = 0
    while i < n:
        x = seq[i]
        if x["t"] == "id":
            s = x["s"]
            if s in ("let", "const", "static") and i + 1 < n:
                j = i + 1
                while j < n and seq[j]["t"] == "id" and seq[j]["s"] in ("mut", "ref"):
                    j += 1
                if j < n and seq[j]["t"] == "id":
                    out.add(seq[j]["s"])
            elif s == "fn":
                j = i + 2  # skip the name (ident or interpolation)
                if j < n and seq[j]["t"] == "p" and seq[j]["c"] == "<":
                    # generic parameter list of a literal fn: idents at depth 1 followed by `:` `,` or `>`
                    depth = 0
                    while j < n:
                        y = seq[j]
                        if y["t"] == "p" and y["c"] == "<":
                            depth += 1
                        elif y["t"] == "p" and y["c"] == ">":
                            depth -= 1
                            if depth == 0:
                                j += 1
                                break
                        elif y["t"] == "id" and depth == 1 and seq[j - 1]["t"] == "p" and seq[j - 1]["c"] in "<," and not (seq[j - 1]["c"] == "<" and depth != 1):
                            out.add(y["s"])
                        j += 1
                if j < n and seq[j]["t"] == "grp" and seq[j]["d"] == "(":
                    body = seq[j]["body"]
                    for k, y in enumerate(body):
                        if y["t"] == "id" and _next_is_single(body, k, ":", (":",)) and (k == 0 or (body[k - 1]["t"] == "p" and body[k - 1]["c"] == ",") or (body[k - 1]["t"] == "id" and body[k - 1]["s"] == "mut")):
                            out.add(y["s"])
            elif (s[0].islower() or s[0] == "_") and s not in KEYWORDS:
                if (_next_is(seq, i, "=") and seq[i + 1]["joint"] and i + 2 < n and seq[i + 2]["t"] == "p" and seq[i + 2]["c"] == ">") or _next_is(seq, i, "@"):
                    if not _is_pathsep_before(seq, i):
                        out.add(s)
        elif x["t"] in ("grp", "rep"):
            declared_names(x["body"], out)
        i += 1
    return out


def free_names(ir, in_attr=False):
    """Yield (kind, name, node) for every identifier that starts a path or names a macro and is resolved
    in the scope where the expansion lands. kind in {'path','macro'}."""
    seq = ir
    n = len(seq)
    i = 0
    while i < n:
        x = seq[i]
        t = x["t"]
        if t == "p" and x["c"] == "#" and i + 1 < n and seq[i + 1]["t"] == "grp" and seq[i + 1]["d"] == "[":
            # attribute: only macro invocations inside it are name uses
            yield from free_names(seq[i + 1]["body"], in_attr=True)
            i += 2
            continue
        if t == "id":
            s = x["s"]
            prev = seq[i - 1] if i > 0 else None
            is_macro = _next_is(seq, i, "!") and i + 2 < n and seq[i + 2]["t"] == "grp"
            skip = False
            if s in KEYWORDS or s in PRIMITIVES:
                skip = True
            elif _is_pathsep_before(seq, i):
                skip = True  # continuation of a path whose root is judged separately
            elif prev is not None and prev["t"] == "p" and prev["c"] in (".", "'"):
                skip = True  # field / method name, lifetime
            elif prev is not None and prev["t"] == "id" and prev["s"] in ("fn", "let", "const", "type", "static", "mut", "ref") and not is_macro:
                skip = True  # a declaration
            elif in_attr and not is_macro:
                skip = True
            elif not is_macro and _next_is_single(seq, i, ":", (":",)):
                skip = True  # `name: ..` field label / parameter / bounded generic
            elif not is_macro and _next_is_single(seq, i, "=", ("=", ">")):
                skip = True  # `Name = ..` associated-type binding or attribute key
            elif not is_macro and _next_is(seq, i, "@"):
                skip = True
            if not skip:
                k_ = "macro" if is_macro else "path"
                if k_ == "path" and (s[0].islower() or s[0] == "_"):
                    nxt = seq[i + 1] if i + 1 < n else None
                    is_root = nxt is not None and nxt["t"] == "p" and nxt["c"] == ":"
                    is_call = nxt is not None and nxt["t"] == "grp" and nxt["d"] == "("
                    if not is_root and not is_call:
                        k_ = "value"
                yield (k_, s, x)
        elif t in ("grp", "rep"):
            yield from free_names(x["body"], in_attr)
        i += 1


def rule_tpl_crate_path(ctx):
    """CRATE-PATH: generated code names the facade crate as `derive_more::..` - a *relative* path, which is what lets a crate re-export the derives together with the `derive_more` module (`use my_lib::{derive_more, Add};`, README 'Hygiene'); an absolute `::derive_more::..` resolves only for crates that depend on derive_more directly."""
    n = 0
    for t in T.all_templates(ctx.files):
        for seq, i, x, parents in T.ir_walk(t.ir):
            if x["t"] != "id" or x["s"] != "derive_more":
                continue
            n += 1
            if i >= 2 and all(seq[j]["t"] == "p" and seq[j]["c"] == ":" for j in (i - 1, i - 2)) and (i == 2 or seq[i - 3]["t"] not in ("id", "var") and not (seq[i - 3]["t"] == "p" and seq[i - 3]["c"] == ">")):
                ctx.report(
                    f"crate-path:{t.key()}",
                    f"{t.file.rel}:{t.file.line(x['span'][0])}",
                    f"template in `{t.fn.qual}` names the facade crate by the absolute path `::derive_more`: a crate that uses the derives through a re-export (`use my_lib::{{derive_more, Add}};`) has no `derive_more` in its extern prelude - E0433 for exactly the inputs reaching this template",
                    {"template": t.text()[:200]},
                )
    ctx.cur.instances += n
    ctx.floor("`derive_more` path roots in templates", n, 120)


def rule_tpl_hyg(ctx):
    """TPL-HYG: every identifier that starts a path or names a macro in a quote!/parse_quote! template is `derive_more`, declared by the templates of the same file, a generator-reserved `__` name, or absolute."""
    templates = T.all_templates(ctx.files)
    by_file = {}
    for t in templates:
        by_file.setdefault(t.file.rel, []).append(t)
    roots = 0
    # value names (parameters, let/match binders) are local variables of the composed expansion: the
    # templates of one expander are spread over helper modules (`rhs` is declared by the impl template of
    # add_like.rs and used by add_helpers.rs), so they are collected crate-wide. They only excuse a
    # lower-case identifier used as a plain value (not a path root `x::`, not a call `x(`, not a macro).
    gdecl = set()
    for t in templates:
        declared_names(t.ir, gdecl)
    gdecl = {d for d in gdecl if d[0].islower() or d[0] == "_"}
    for rel, ts in sorted(by_file.items()):
        decl = set()
        for t in ts:
            declared_names(t.ir, decl)
        # names produced by format_ident! / Ident::new with a constant name in the same file are generator-chosen
        # locals (binders handed to `matcher` and the like)
        for g_ in A.functions(ctx.files[rel]):
            if g_.block is None:
                continue
            for _x, d_ in A.ident_ctors(g_.block):
                if "{" not in d_["pattern"] and re.fullmatch(r"[a-z_][a-z0-9_]*", d_["pattern"]):
                    decl.add(d_["pattern"])
        for t in ts:
            for kind_, name, node in free_names(t.ir):
                construct = f"{rel}::{t.fn.qual}:{name}{'!' if kind_ == 'macro' else ''}"
                if name == "derive_more":
                    roots += 1
                    ctx.instance(construct, nontrivial=False)
                    continue
                ctx.instance(construct)
                if kind_ == "path" and (name in decl or name.startswith("__")):
                    continue
                if kind_ == "value" and (name in gdecl or name in decl or name.startswith("__")):
                    continue
                ctx.report(
                    construct,
                    f"{rel}:{t.file.line(node['span'][0])}",
                    f"template in `{t.fn.qual}` names `{name}{'!' if kind_ == 'macro' else ''}` without a `derive_more::` path: "
                    f"it resolves in the caller's scope (breaks under #[no_implicit_prelude] / when the caller shadows `{name}`)",
                    {"template": t.text()[:400], "name": name, "kind": kind_},
                )
    ctx.note(f"{len(templates)} templates, {roots} `derive_more` path roots")
    ctx.floor("templates", len(templates), 240)
    ctx.floor("derive_more path roots", roots, 110)


# method-call sites inside templates: how each resolves without the caller's scope.
#   ("import", trait)  : a `use derive_more::..::<trait>` stands in a template of the same file
#   ("inherent", type) : the receiver is a parameter the template itself declares with that literal type
#   ("bound", trait)   : the receiver's type parameter is bounded by that trait in the same template
#   ("inherent-chain", reason) : receiver is the result of an inherent call (audited)
METHOD_TABLE = {
    ("impl/src/error.rs", "as_dyn_error"): ("import", "AsDynError"),
    ("impl/src/error.rs", "provide_ref"): ("inherent", "Request"),
    ("impl/src/as/mod.rs", "__extract_ref"): ("import", "ExtractRef"),
    ("impl/src/fmt/display.rs", "write_str"): ("inherent", "Formatter"),
    ("impl/src/from_str.rs", "to_lowercase"): ("inherent", "str"),
    ("impl/src/from_str.rs", "as_str"): ("inherent-chain", "String::as_str on the String returned by str::to_lowercase"),
    ("impl/src/sum_like.rs", "fold"): ("bound", "Iterator"),
}


def _method_sites(ir):
    for seq, i, x, parents in T.ir_walk(ir):
        if x["t"] == "id" and i > 0 and seq[i - 1]["t"] == "p" and seq[i - 1]["c"] == "." and not (i > 1 and seq[i - 2]["t"] == "p" and seq[i - 2]["c"] == "."):
            # `.name(` or `.name::<..>(`
            j = i + 1
            if j < len(seq) and seq[j]["t"] == "p" and seq[j]["c"] == ":":
                while j < len(seq) and not (seq[j]["t"] == "grp" and seq[j]["d"] == "("):
                    j += 1
            if j < len(seq) and seq[j]["t"] == "grp" and seq[j]["d"] == "(":
                recv = seq[i - 2] if i >= 2 else None
                yield x, recv


def rule_tpl_meth(ctx):
    """TPL-METH: every literal `.method(` in a template resolves without the caller's scope: imported by a `use derive_more::..` in the same file's templates, inherent on a parameter type the template declares, or provided by a bound the template writes."""
    templates = T.all_templates(ctx.files)
    by_file = {}
    for t in templates:
        by_file.setdefault(t.file.rel, []).append(t)
    n = 0
    for rel, ts in sorted(by_file.items()):
        alltext = " ".join(t.text() for t in ts)
        for t in ts:
            for node, recv in _method_sites(t.ir):
                m = node["s"]
                n += 1
                construct = f"{rel}::{t.fn.qual}:.{m}()"
                ctx.instance(construct)
                where = f"{rel}:{t.file.line(node['span'][0])}"
                cls = METHOD_TABLE.get((rel, m))
                if cls is None:
                    ctx.report(
                        construct,
                        where,
                        f"template in `{t.fn.qual}` calls `.{m}(..)`: no audited resolution (inherent / imported / bounded) - a trait method "
                        "here depends on the caller's prelude or imports",
                        {"template": t.text()[:400]},
                    )
                    continue
                kind_, what = cls
                ok = True
                if kind_ == "import":
                    ok = f"use derive_more :: __private :: {what}" in alltext
                elif kind_ == "inherent":
                    # receiver is a declared parameter whose literal type names `what`
                    rn = recv["s"] if recv and recv["t"] == "id" else None
                    ok = rn is not None and (f"{rn} : & mut derive_more :: core :: fmt :: {what}" in alltext or f"{rn} : & mut derive_more :: core :: error :: {what}" in alltext or f"{rn} : & {what}" in alltext)
                elif kind_ == "bound":
                    rn = recv["s"] if recv and recv["t"] == "id" else None
                    # `<P : derive_more::core::iter::Iterator ..>` declared in the template and the receiver typed `rn : P`
                    mb = re.search(r"< (\w+) : derive_more :: core :: iter :: %s\b" % re.escape(what), t.text())
                    ok = rn is not None and mb is not None and f"{rn} : {mb.group(1)}" in t.text()
                if not ok:
                    ctx.report(
                        construct,
                        where,
                        f"template in `{t.fn.qual}` calls `.{m}(..)` expected to resolve as {kind_} `{what}`, but the supporting "
                        "declaration (use / parameter type / bound) is no longer in the templates of this file",
                        {"template": t.text()[:400]},
                    )
    ctx.floor("literal method calls in templates", n, 8)


def facade_exports(ctx):
    """Names reachable as derive_more::<a>::<b> from src/lib.rs (first two segments)."""
    lib = ctx.files.get("src/lib.rs")
    if lib is None:
        raise A.AnchorLost("src/lib.rs", "file missing")
    top = set()
    private = set()
    with_trait = set()
    src = lib.src
    for it, mods, cfgs in A.iter_items(lib.ast["items"]):
        k = A.kind(it)
        if k == "Item::Use":
            names = _use_leaves(it["tree"])
            target = None
            if not mods:
                target = top
            elif mods == ("__private",):
                target = private
            elif mods and mods[0] == "with_trait":
                target = with_trait
            if target is not None:
                for nm in names:
                    target.add(nm)
        elif k == "Item::Mod" and not mods:
            top.add(it["ident"]["sym"])
        elif k == "Item::Macro" and mods and mods[0] == "with_trait" and A.path_last(it["mac"]["path"]) == "re_export_traits":
            toks = it["mac"]["tokens"]
            ids = [t["sym"] for t in toks if A.kind(t) == "Ident"]
            # "feature", module name, path segments..., traits: every identifier after the module path
            for nm in ids:
                with_trait.add(nm)
    return top, private, with_trait


def _use_leaves(tree):
    k = A.kind(tree)
    if "0" in tree:
        tree = tree["0"]
    if k == "UseTree::Path":
        return _use_leaves(tree["tree"])
    if k == "UseTree::Name":
        return [tree["ident"]["sym"]]
    if k == "UseTree::Rename":
        return [tree["rename"]["sym"]]
    if k == "UseTree::Group":
        out = []
        for x in tree["items"]:
            out.extend(_use_leaves(x))
        return out
    if k == "UseTree::Glob":
        return ["*"]
    return []


def rule_tpl_export(ctx):
    """TPL-EXPORT: every literal `derive_more::<seg>[::<seg>]` path a template emits is backed by an item the facade crate exports (src/lib.rs: `core`, `__private::*`, `with_trait::*`, error types)."""
    top, private, with_trait = facade_exports(ctx)
    templates = T.all_templates(ctx.files)
    n = 0
    for t in templates:
        for seq, i, x, parents in T.ir_walk(t.ir):
            if x["t"] == "id" and x["s"] == "derive_more" and not _is_pathsep_before(seq, i):
                segs = []
                j = i + 1
                while j + 2 < len(seq) + 1 and j + 1 < len(seq) and seq[j]["t"] == "p" and seq[j]["c"] == ":" and seq[j + 1]["t"] == "p" and seq[j + 1]["c"] == ":":
                    if j + 2 < len(seq) and seq[j + 2]["t"] == "id":
                        segs.append(seq[j + 2]["s"])
                        j += 3
                    elif j + 2 < len(seq) and seq[j + 2]["t"] == "var":
                        segs.append("#" + seq[j + 2]["s"])
                        j += 3
                        break
                    else:
                        break
                if not segs:
                    continue
                n += 1
                construct = f"{t.file.rel}::{t.fn.qual}:derive_more::{'::'.join(segs[:2])}"
                ctx.instance(construct)
                first = segs[0]
                ok = True
                why = ""
                if first.startswith("#"):
                    ok = False
                    why = "first segment is interpolated"
                elif first not in top:
                    ok = False
                    why = f"`derive_more::{first}` is not exported by src/lib.rs"
                elif first == "__private" and len(segs) > 1 and not segs[1].startswith("#") and segs[1] not in private:
                    ok = False
                    why = f"`derive_more::__private::{segs[1]}` is not exported"
                elif first == "with_trait" and len(segs) > 1 and not segs[1].startswith("#") and segs[1] not in with_trait:
                    ok = False
                    why = f"`derive_more::with_trait::{segs[1]}` is not exported"
                if not ok:
                    ctx.report(construct, f"{t.file.rel}:{t.file.line(x['span'][0])}", f"template in `{t.fn.qual}` emits a path with no backing export: {why}", {"template": t.text()[:300]})
    ctx.floor("derive_more:: paths", n, 110)


# ---------------------------------------------------------------- TPL-ASSOC

# `derive_more::core::..::<Y>::<z>(`: what <Y> is and why <z> resolves without anything in scope
CORE_ASSOC = {
    ("option::Option", "Some"): "enum variant",
    ("option::Option", "None"): "enum variant",
    ("result::Result", "Ok"): "enum variant",
    ("result::Result", "Err"): "enum variant",
}
# inherent methods of core types, verified against the toolchain's rust-src on every run
CORE_INHERENT = {
    "fmt::Formatter": ("fmt/mod.rs", "Formatter"),
    "fmt::DebugStruct": ("fmt/builders.rs", "DebugStruct"),
    "fmt::DebugTuple": ("fmt/builders.rs", "DebugTuple"),
}
# facade paths whose last-but-one segment is a *trait*: `Trait::method(..)` is fully qualified
FACADE_TRAITS = {"with_trait::Error": "re-export of core::error::Error (src/lib.rs `with_trait`)"}

_core_inherent_cache = {}


def _core_inherent(ctx, relpath, ty):
    key = (relpath, ty)
    if key in _core_inherent_cache:
        return _core_inherent_cache[key]
    import os
    import subprocess

    sysroot = subprocess.run(["rustc", "+nightly", "--print", "sysroot"], capture_output=True, text=True).stdout.strip()
    p = os.path.join(sysroot, "lib/rustlib/src/rust/library/core/src", relpath)
    if not os.path.exists(p):
        raise A.AnchorLost(f"core/src/{relpath}", "rust-src of the nightly toolchain not found")
    f = A.load_files([p])[p]
    out = set()
    for it, mods, cfgs in A.iter_items(f.ast["items"]):
        if A.kind(it) == "Item::Impl" and not it.get("trait_") and A.type_str(it["self_ty"]).split("::")[-1] == ty:
            for ii in it["items"]:
                if A.kind(ii) == "ImplItem::Fn":
                    out.add(ii["sig"]["ident"]["sym"])
    _core_inherent_cache[key] = out
    return out


def _facade_index(ctx):
    """types (with inherent fns and variants), traits and free fns defined in the facade crate (src/**)"""
    types, traits, fns = {}, set(), set()
    for rel, f in ctx.files.items():
        if not rel.startswith("src/"):
            continue
        for it, mods, cfgs in A.iter_items(f.ast["items"]):
            k = A.kind(it)
            if k in ("Item::Struct", "Item::Enum"):
                d = types.setdefault(it["ident"]["sym"], {"fns": set(), "variants": set(), "file": rel})
                if k == "Item::Enum":
                    d["variants"].update(v["ident"]["sym"] for v in it["variants"])
            elif k == "Item::Trait":
                traits.add(it["ident"]["sym"])
            elif k == "Item::Fn":
                fns.add(it["sig"]["ident"]["sym"])
        for it, mods, cfgs in A.iter_items(f.ast["items"]):
            if A.kind(it) == "Item::Impl" and not it.get("trait_"):
                nm = A.type_str(it["self_ty"]).split("::")[-1]
                d = types.setdefault(nm, {"fns": set(), "variants": set(), "file": rel})
                for ii in it["items"]:
                    if A.kind(ii) == "ImplItem::Fn":
                        d["fns"].add(ii["sig"]["ident"]["sym"])
    return types, traits, fns


def rule_tpl_assoc(ctx):
    """TPL-ASSOC: every call through a path `derive_more::..::<Y>::<z>(` written literally in a template resolves without anything in the caller's scope: <Y> is a trait (fully qualified call), or <z> is a variant / an *inherent* associated function of the type <Y> (looked up in the facade's sources, for core types in the toolchain's rust-src), or a free function. An associated function that only a trait provides (`Conv::<..>::default()`) needs that trait in scope at the derive site and breaks under `#[no_implicit_prelude]`."""
    types, traits, fns = _facade_index(ctx)
    n = 0
    for t in T.all_templates(ctx.files):
        s = T.ir_text(t.ir).replace(" ", "")
        for m in re.finditer(r"derive_more((?:::\w+)+)(::<[^()]*?>)?::(\w+)\(", s):
            segs = m.group(1).strip(":").split("::")
            z = m.group(3)
            n += 1
            site = "derive_more::" + "::".join(segs) + ("::<..>" if m.group(2) else "") + "::" + z
            key = f"{t.file.rel}::{t.fn.qual}:{site}"
            ctx.instance(key, sample={"site": site, "in": f"{t.file.rel}::{t.fn.qual}"})
            where = f"{t.file.rel}:{t.line}"
            y = segs[-1]
            why = None
            if segs[0] == "core":
                cy = "::".join(segs[1:])
                if (cy, z) in CORE_ASSOC:
                    why = CORE_ASSOC[(cy, z)]
                elif cy in CORE_INHERENT:
                    inh = _core_inherent(ctx, *CORE_INHERENT[cy])
                    if z in inh:
                        why = "inherent (core)"
                    else:
                        ctx.report(key, where, f"template in `{t.fn.qual}` calls `{site}(..)`: `{z}` is not an inherent function of `core::{cy}` in the toolchain's sources", {})
                        continue
            elif "::".join(segs) in FACADE_TRAITS or y in traits:
                why = "trait path (fully qualified call)"
            elif y in types:
                d = types[y]
                if z in d["variants"]:
                    why = "enum variant"
                elif z in d["fns"]:
                    why = "inherent"
                else:
                    ctx.report(
                        key,
                        where,
                        f"template in `{t.fn.qual}` calls `{site}(..)`: `{y}` ({d['file']}) has no inherent associated function or variant `{z}`, so the call resolves through a trait that must be *in scope at the derive site* "
                        f"(e.g. `Default`): it fails under `#[no_implicit_prelude]`; write `<{y}<..> as derive_more::core::..::Trait>::{z}()`",
                        {},
                    )
                    continue
            elif len(segs) >= 1 and z in fns and (segs[-1] in ("__private",) or len(segs) == 1):
                why = "free function of the facade"
            elif z in fns and segs[0] == "__private":
                why = "free function of the facade"
            if why is None:
                ctx.report(key, where, f"template in `{t.fn.qual}` calls `{site}(..)`: no audited resolution for `{z}` on `{'::'.join(segs)}` (not a known trait, inherent function, variant or free function)", {})
    ctx.floor("path calls in templates", n, 30)


def _var_call_sites(ir):
    """(kind, var node, method/fn name or None): `.#m(` | `#x::name(` | `<#x>::name(`"""
    for seq, i, x, parents in T.ir_walk(ir):
        if x["t"] != "var":
            continue
        # `.#m(`  /  `.#m::<..>(`
        if i > 0 and seq[i - 1]["t"] == "p" and seq[i - 1]["c"] == "." and not (i > 1 and seq[i - 2]["t"] == "p" and seq[i - 2]["c"] == "."):
            j = i + 1
            if j < len(seq) and seq[j]["t"] == "p" and seq[j]["c"] == ":":
                while j < len(seq) and not (seq[j]["t"] == "grp" and seq[j]["d"] == "("):
                    j += 1
            if j < len(seq) and seq[j]["t"] == "grp" and seq[j]["d"] == "(":
                yield "method", x, None
        # `#x::name(`: the variable opens the path (not preceded by `::` / `as`)
        prev = seq[i - 1] if i > 0 else None
        opens = not (prev is not None and ((prev["t"] == "p" and prev["c"] == ":") or (prev["t"] == "id" and prev["s"] == "as")))
        if opens and i + 3 < len(seq) + 1:
            j = i + 1
            if j + 1 < len(seq) and seq[j]["t"] == "p" and seq[j]["c"] == ":" and seq[j + 1]["t"] == "p" and seq[j + 1]["c"] == ":":
                k = j + 2
                if k < len(seq) and seq[k]["t"] == "id":
                    m = k + 1
                    if m < len(seq) and seq[m]["t"] == "grp" and seq[m]["d"] == "(":
                        # `<#x>::name(` is the same with `<` `>` around the variable
                        yield "path", x, seq[k]["s"]
        # `< #x > :: name (`
        if prev is not None and prev["t"] == "p" and prev["c"] == "<" and i + 1 < len(seq) and seq[i + 1]["t"] == "p" and seq[i + 1]["c"] == ">":
            j = i + 2
            if j + 2 < len(seq) and seq[j]["t"] == "p" and seq[j]["c"] == ":" and seq[j + 1]["t"] == "p" and seq[j + 1]["c"] == ":" and seq[j + 2]["t"] == "id":
                m = j + 3
                if m < len(seq) and seq[m]["t"] == "grp" and seq[m]["d"] == "(":
                    yield "path", x, seq[j + 2]["s"]


def rule_tpl_ufcs(ctx):
    """TPL-UFCS: generated code calls trait methods on user types only in fully qualified form. In every template of impl/src: (a) no method-call syntax with an interpolated method name (`recv.#method(..)`: resolution then depends on the traits in scope at the derive site and on inherent methods of the receiver); (b) a call `#x::name(..)` / `<#x>::name(..)` whose qualifier is an interpolation is allowed only when `#x` is a cast `<Ty as Trait>` (a token stream built from a template containing `as`), a trait path or an identifier of a trait - not a user *type* (rustc's type of the interpolated value is `syn::Type`, or an `Ident` that does not come from the trait name): `<#ty>::from(v)` picks an inherent `from` of the field type before `From::from`."""
    n = 0
    for t in T.all_templates(ctx.files):
        rel = t.file.rel
        if not rel.startswith("impl/src"):
            continue
        for kind_, var, name in _var_call_sites(t.ir):
            n += 1
            vn = var["s"]
            where = f"{rel}:{t.file.line(var['span'][0])}"
            if kind_ == "method":
                construct = f"{rel}::{t.fn.qual}:.#{vn}()"
                ctx.instance(construct)
                ctx.report(construct, where, f"template in `{t.fn.qual}` calls `.#{vn}(..)` with method-call syntax: an inherent method of the receiver's type with that name is preferred over the trait's (a field type with its own `add` / `not` / `sum` makes the derived operator do something else than the operator on the field), and unless the enclosing impl is of that very trait the method is found only if the trait is in scope where the derive is used (`#[no_implicit_prelude]`, `no_std`); call it as `<path to trait>::#{vn}(recv, ..)`", {"template": t.text()[:300]})
                continue
            construct = f"{rel}::{t.fn.qual}:#{vn}::{name}()"
            ty, b = TY.var_type_at(ctx, t.fn, vn.split(".")[0], var["span"][0])
            cls = TY.classify(ty)
            ok = None
            why = ""
            if cls == "Type":
                ok, why = False, "the qualifier is a user type (`syn::Type`)"
            elif cls == "Tokens":
                # the token stream must be a cast: built by a template containing `as`
                srcs = _token_sources(ctx, t.fn, vn, var["span"][0])
                ok = bool(srcs) and all(" as " in s_ for s_ in srcs)
                why = "the qualifier's tokens are not a `<Ty as Trait>` cast" if not ok else ""
                if not srcs:
                    ok, why = None, "provenance of the token stream not found"
            elif cls in ("Ident", "Path"):
                srcs = _ident_sources(t.fn, vn)
                ok = bool(srcs) and all("trait" in s_.lower() for s_ in srcs)
                why = "the identifier does not come from the trait name" if not ok else ""
            ctx.instance(construct, sample={"call": f"#{vn}::{name}(..)", "qualifier type": ty, "class": cls})
            if ok is not True:
                ctx.report(construct, where, f"template in `{t.fn.qual}` calls `#{vn}::{name}(..)` and {why or 'the qualifier could not be classified'} (rustc type `{ty}`): an inherent associated function `{name}` of that type is chosen before the trait's; write `<#{vn} as path::to::Trait>::{name}(..)`", {"template": t.text()[:300]})
    ctx.floor("calls qualified by an interpolation", n, 6)


def _token_sources(ctx, fn, name, off, depth=0, seen=None):
    """texts of the templates a TokenStream-typed local / struct field called `name` is built from, followed through
    aliases, struct fields (`State` -> `SingleFieldData` -> `MultiFieldData`) and `.map(|..| quote!{..})`: every `let`
    and every struct-literal field of that name in the template's file and in utils.rs contributes"""
    seen = seen if seen is not None else set()
    base = name.split(".")[-1]
    # a local destructured from a struct pattern under another name (`SingleFieldData { casted_trait: cast, .. }`) is
    # the field of that name
    if depth == 0 and fn.block is not None:
        for x_, _ in A.walk(fn.block):
            if A.kind(x_) == "Pat::Struct":
                for fp_ in x_["fields"]:
                    if A.kind(fp_["member"]) == "Member::Named" and A.pat_idents(fp_["pat"]) == [base] and fp_["member"]["0"]["sym"] != base:
                        base = fp_["member"]["0"]["sym"]
    if base in seen or depth > 4:
        return []
    seen.add(base)
    out = []

    def from_expr(e, g):
        ms = list(A.macros(e, ("quote", "parse_quote")))
        if ms:
            return [T.ir_text(T.to_ir(mac["tokens"])) for mac, _p in ms]
        res = []
        names = set()
        for x, _ in A.walk(e):
            k = A.kind(x)
            if k == "Expr::Field" and A.kind(x["member"]) == "Member::Named":
                names.add(x["member"]["0"]["sym"])
            elif k == "Expr::Path" and A.path_str(x) and "::" not in A.path_str(x):
                names.add(A.path_str(x))
        for nm in sorted(names):
            if nm not in ("self", "data", "state"):
                res += _token_sources(ctx, g, nm, 0, depth + 1, seen)
        return res

    for f_ in ctx.files.values():
        if f_.rel != fn.file.rel and f_.rel != "impl/src/utils.rs":
            continue
        for g in A.functions(f_):
            if g.block is None:
                continue
            for st, _ in A.find(g.block, "Stmt::Local"):
                if base in A.pat_idents(st["pat"]) and st.get("init") and A.kind(st["pat"]) in ("Pat::Ident", "Pat::Type"):
                    out += from_expr(st["init"]["expr"], g)
            for x, _ in A.find(g.block, "Expr::Struct"):
                for fv in x["fields"]:
                    if A.kind(fv["member"]) == "Member::Named" and fv["member"]["0"]["sym"] == base:
                        e = fv["expr"]
                        if A.path_str(e) == base:
                            continue  # shorthand: the local of that name, collected above
                        out += from_expr(e, g)
    return out


def _ident_sources(fn, name):
    """rendered initialisers of an Ident-typed local"""
    out = []
    base = name.split(".")[0]
    for st, _ in A.find(fn.block, "Stmt::Local"):
        if base in A.pat_idents(st["pat"]) and st.get("init"):
            out.append(A.render(st["init"]["expr"]))
    for p in fn.node["sig"]["inputs"]:
        if A.kind(p) == "FnArg::Typed" and base in A.pat_idents(p["0"]["pat"]):
            out.append(base)
    return out


def _declared_generics(seq, out):
    """(name, node) of the type / const parameters a template declares literally: `fn name<..>` and `impl<..>` lists"""
    n = len(seq)
    i = 0
    while i < n:
        x = seq[i]
        if x["t"] == "id" and x["s"] in ("fn", "impl"):
            j = i + (2 if x["s"] == "fn" else 1)
            if j < n and seq[j]["t"] == "p" and seq[j]["c"] == "<":
                depth = 0
                while j < n:
                    y = seq[j]
                    if y["t"] == "p" and y["c"] == "<":
                        depth += 1
                    elif y["t"] == "p" and y["c"] == ">" and not (j > 0 and seq[j - 1]["t"] == "p" and seq[j - 1]["c"] in "-="  and seq[j - 1].get("joint")):
                        depth -= 1
                        if depth == 0:
                            break
                    elif y["t"] == "id" and depth == 1 and seq[j - 1]["t"] == "p" and seq[j - 1]["c"] in "<," and y["s"] not in ("const",):
                        out.append((y["s"], y))
                    elif y["t"] == "id" and depth == 1 and seq[j - 1]["t"] == "id" and seq[j - 1]["s"] == "const":
                        out.append((y["s"], y))
                    j += 1
        elif x["t"] in ("grp", "rep"):
            _declared_generics(x["body"], out)
        i += 1
    return out


def rule_generic_capture(ctx):
    """GEN-CAPTURE: a type or const parameter that generated code declares itself (`fn sum<I: ..>`, `impl<__T> ..`) is in scope where the user's own types are spliced (`#field_type`, `#ty`), so its name must be one the user cannot have written for a type of their own: it starts with `__`. A plain `I` / `T` / `U` captures a user type of that name (`struct I(i32); #[derive(Sum)] struct W(I);` -> `empty::<I>()` names the iterator parameter, E0277)."""
    n = 0
    for t in T.all_templates(ctx.files):
        if not t.file.rel.startswith("impl/src/"):
            continue
        for name, node in _declared_generics(t.ir, []):
            n += 1
            key = f"{t.file.rel}::{t.fn.qual}:<{name}>"
            ctx.instance(f"gen-capture:{key}", sample={"template in": f"{t.file.rel}::{t.fn.qual}", "parameter": name})
            if not name.startswith("__"):
                ctx.report(f"gen-capture:{key}", f"{t.file.rel}:{t.file.line(node['span'][0])}", f"the template in `{t.fn.qual}` declares the generic parameter `{name}`; user types are spliced inside its scope, so a user type called `{name}` is captured by it (the derive then fails to compile or, worse, resolves to the parameter) - generated parameters are named `__..`", {"template": t.text()[:300]})
    # names of generated type-level items built as identifiers: `format_ident!("__RhsT")`, `parse_quote! { __AsT }`
    for fn in A.all_functions(ctx.files):
        if not fn.file.rel.startswith("impl/src/") or fn.block is None:
            continue
        cands = []
        for fi in T.format_idents_of(fn):
            pat = fi["pattern"] or ""
            lit = re.sub(r"\{[^}]*\}", "", pat)
            if lit and re.fullmatch(r"_*[A-Z][A-Za-z0-9_]*", lit) and (pat.startswith(lit[:1])):
                cands.append((lit, fi["line"]))
        for mac, _ in A.macros(fn.block, ("parse_quote",)):
            toks = mac["tokens"]
            if len(toks) == 1 and A.kind(toks[0]) == "Ident" and re.fullmatch(r"_*[A-Z][A-Za-z0-9_]*", toks[0]["sym"]):
                cands.append((toks[0]["sym"], fn.file.line(toks[0]["span"][0])))
        for name, line in cands:
            n += 1
            key = f"{fn.file.rel}::{fn.qual}:ident:{name}"
            ctx.instance(f"gen-capture:{key}", sample={"built in": f"{fn.file.rel}::{fn.qual}", "name": name})
            if not name.startswith("__"):
                ctx.report(f"gen-capture:{key}", f"{fn.file.rel}:{line}", f"`{fn.qual}` builds the type-level name `{name}` for generated code (a generic parameter / const next to the user's own types): a user item of that name is captured - generated names start with `__`", {})
    ctx.floor("generated type-level names", n, 7)
