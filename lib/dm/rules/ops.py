"""C10 - derived operators act field-wise with operand order preserved (TPL-ROLE and friends)."""
import glob
import os
import re
import subprocess

from .. import ast as A
from .. import tpl as T
from .. import types as TY
from . import cfg as CFG


def tx(t):
    return A.TTxt(T.ir_text(t.ir).replace(" ", ""))


def templates_in(ctx, rel, qual):
    fn = A.get_fn(ctx.files, rel, qual)
    return fn, T.templates_both(fn)


def rule_tpl_role(ctx):
    """TPL-ROLE: in every binary-operator template the receiver is rooted in the left operand and the argument in the right one, field by field: structs `self.#f.#op(rhs.#f)` with the same selector on both sides; enums match `(self, rhs)` against `(#V(l..), #V(r..))` and build `#V(l.op(r)..)` from the same variant; scalar forms apply `rhs` to every member; unit variants yield the unit error for `(#V, #V)` only and different variants fall through to the mismatch error."""
    n = 0
    # --- struct forms
    for qual in ("tuple_exprs", "struct_exprs"):
        fn, ts = templates_in(ctx, "impl/src/add_helpers.rs", qual)
        for t in ts:
            n += 1
            s = tx(t)
            ctx.instance(f"add_helpers::{qual}", sample=s)
            m = re.fullmatch(r"#(\w+)\(#(\w+)self\.#(\w+),rhs\.#(\w+)\)", s)
            if not m or m.group(3) != m.group(4):
                ctx.report(f"role:add_helpers::{qual}", f"impl/src/add_helpers.rs:{t.line}", f"field-wise operator template is `{s}`; expected `#method(#lhs_ref self.#f, rhs.#f)` (the operator's method called fully qualified, left operand first, same field on both sides)", {})
        # the selector enumerates the fields in order (for-loop or iterator chain alike)
        mac = next((m_ for m_, _ in A.find(fn.block, ("Expr::Macro", "Stmt::Macro")) if A.path_last(m_["mac"]["path"]) == "quote"), None)
        it = A.iteration_of(mac, fn.block) if mac is not None else None
        src, pat, stmts = it if it else (None, None, [])
        sel = [A.render_stmt(x).rstrip(";") for x in stmts if A.kind(x) == "Stmt::Local"]
        # a selector written as an earlier stage of the chain (`(0..n).map(Index::from).map(|i| ..)`,
        # `fields.iter().map(|field| field.ident.as_ref().unwrap()).map(|field_id| ..)`) reads like the `let` in the body
        if it and src and ".map(" in src:
            k_ = src.rfind(".map(")
            base, stage = src[:k_], src[k_ + 5 :]

            def _bal(t_):
                while t_.count(")") > t_.count("(") and t_.endswith(")"):
                    t_ = t_[:-1]
                while t_.count("(") > t_.count(")") and t_.startswith("("):
                    t_ = t_[1:]
                return t_

            base, stage = _bal(base), _bal(stage)
            base = re.sub(r"\.(iter|into_iter)\(\)$", "", base)
            mc_ = re.fullmatch(r"\|(\w+)\|(.*)", stage)
            if mc_:
                sel.append(f"let {pat}={mc_.group(2)}")
                src = base
            elif re.fullmatch(r"[\w:]+", stage):
                sel.append(f"let {pat}={stage}({pat})")
                src = base
        if qual == "tuple_exprs" and not (it and A.wfull(src, "0..fields.len()") and any(A.wfull(x, "let i=Index::from(i)") for x in sel)):
            ctx.report("role:tuple_exprs:index", ctx.where(fn.file, fn.node), f"`tuple_exprs` no longer walks the indices 0..fields.len() in order (iterates `{src}`, selectors {sel})", {})
        if qual == "struct_exprs" and not (it and A.wfull(src, "fields") and any(A.wfull(x, "let field_id=field.ident.as_ref().unwrap()") for x in sel)):
            ctx.report("role:struct_exprs:ident", ctx.where(fn.file, fn.node), f"`struct_exprs` no longer walks the fields in order by their own identifier (iterates `{src}`, selectors {sel})", {})
    # the method handed to the helpers is the fully qualified operator method, the left-hand borrow is none for the
    # by-value operators and `&mut` for the assigning ones
    for rel, lhs in (("impl/src/add_like.rs", ""), ("impl/src/add_assign_like.rs", "&mut"), ("impl/src/not_like.rs", None)):
        efn = A.get_fn(ctx.files, rel, "expand")
        etx = A.TList(tx(t) for t in T.templates_both(efn))
        n += 1
        ctx.instance(f"{rel}::expand:qualified-method")
        if "derive_more::core::ops::#trait_ident::#method_ident" not in etx:
            ctx.report(f"role:qualified:{rel}", ctx.where(efn.file, efn.node), "the operator's method is no longer named as `derive_more::core::ops::#Trait::#method` for the field-wise calls: with method-call syntax an inherent method of a field type takes over", {"templates": etx})
        if lhs is not None:
            file_tx = A.TList(tx(t) for g in A.functions(efn.file) if g.block is not None for t in T.templates_both(g))
            ctx.instance(f"{rel}:lhs-borrow")
            if lhs not in file_tx:
                ctx.report(f"role:lhs-borrow:{rel}", ctx.where(efn.file, efn.node), f"the left operand of the field-wise call is no longer passed as `{lhs or '(by value)'}`", {})
    # --- enum forms
    fn, ts = templates_in(ctx, "impl/src/add_like.rs", "enum_content")
    f = fn.file
    texts = A.TList(tx(t) for t in ts)
    want = {
        "tuple": r"\(#subtype\(#\(#(\w+)\),\*\),#subtype\(#\(#(\w+)\),\*\)\)=>\{derive_more::core::result::Result::Ok\(#subtype\(#\(#method_iter\(#(\w+),#(\w+)\)\),\*\)\)\}",
        "named": r"\(#subtype\{#\(#field_names:#(\w+)\),\*\},#subtype\{#\(#field_names:#(\w+)\),\*\}\)=>\{derive_more::core::result::Result::Ok\(#subtype\{#\(#field_names:#method_iter\(#(\w+),#(\w+)\)\),\*\}\)\}",
    }
    for key, rx in want.items():
        hit = None
        for s in texts:
            m = re.fullmatch(rx, s)
            if m:
                hit = m
        n += 1
        ctx.instance(f"add_like::enum_content:{key}-arm")
        if not hit:
            ctx.report(f"role:enum:{key}", ctx.where(f, fn.node), f"the {key}-variant arm of `enum_content` no longer has the shape `(V(l..), V(r..)) => Ok(V(Trait::op(l, r)..))`", {"templates": texts})
            continue
        l, r, l2, r2 = hit.groups()
        if not (l == l2 and r == r2 and l != r):
            ctx.report(f"role:enum:{key}:order", ctx.where(f, fn.node), f"the {key}-variant arm binds the left operand's fields as `{l}` and the right one's as `{r}` but computes `{l2}.op({r2})`: operands are swapped or mixed", {})
        # l from the left-prefixed names, r from the right-prefixed
        body = A.fn_text(fn)
        for v, pre in ((l, "l_"), (r, "r_")):
            if f'let {v}=&numbered_vars(size,"{pre}")' not in body:
                ctx.report(f"role:enum:{key}:{v}", ctx.where(f, fn.node), f"`{v}` is not `numbered_vars(size, \"{pre}\")` of the variant's own field count", {})
    n += 1
    ctx.instance("add_like::enum_content:scrutinee")
    if "match(self,rhs){#(#matches),*}" not in texts:
        ctx.report("role:enum:scrutinee", ctx.where(f, fn.node), "the enum operator no longer matches on `(self, rhs)` (left operand first)", {"templates": texts})
    n += 1
    ctx.instance("add_like::enum_content:unit-arm")
    if "(#subtype,#subtype)=>derive_more::core::result::Result::Err(derive_more::BinaryError::Unit(derive_more::UnitError::new(#operation_name)))" not in texts:
        ctx.report(
            "role:enum:unit",
            ctx.where(f, fn.node),
            "the unit-variant arm is not `(#V, #V) => Err(BinaryError::Unit(UnitError::new(op)))`: with a wildcard on either side a unit variant combined with a *different* variant reports the unit error instead of the mismatch error",
            {"templates": texts},
        )
    n += 1
    ctx.instance("add_like::enum_content:mismatch-arm")
    body = A.fn_text(fn)
    if "_=>derive_more::core::result::Result::Err(derive_more::BinaryError::Mismatch(derive_more::WrongVariantError::new(#operation_name)))" not in texts or "if data_enum.variants.len()>1{" not in body:
        ctx.report("role:enum:mismatch", ctx.where(f, fn.node), "the `_ => Err(BinaryError::Mismatch(..))` arm for operands of different variants is missing or no longer added whenever the enum has more than one variant", {})
    if "let subtype=quote!(#input_type::#subtype)" not in body:
        ctx.report("role:enum:subtype", ctx.where(f, fn.node), "variant paths are no longer `#input_type::#variant` of the variant being iterated", {})
    # --- scalar forms
    fn, ts = templates_in(ctx, "impl/src/mul_helpers.rs", "generics_and_exprs")
    n += 1
    s = tx(ts[0]) if ts else ""
    ctx.instance("mul_helpers::generics_and_exprs", sample=s)
    if s != "#casted_trait::#method_ident(#reference#member,rhs)":
        ctx.report("role:scalar", ctx.where(fn.file, fn.node), f"scalar operator template is `{s}`; expected `<FieldTy as Trait<Rhs>>::op(#ref #member, rhs)` (field first, scalar second)", {})
    body = A.fn_text(fn)
    if "casted_traits.iter().zip(members).map(|(casted_trait,member)|" not in body:
        ctx.report("role:scalar:zip", ctx.where(fn.file, fn.node), "`casted_traits` is no longer zipped with `members` in field order: a field is combined with another field's trait cast", {})
    def _nb(t_):
        """borrow- and clone-insensitive text: how an argument is passed (`&x`, `x`, `x.clone()`) is not what it is"""
        return re.sub(r"\.clone\(\)", "", str(t_)).replace("&mut ", "").replace("&", "")

    if "add_where_clauses_for_new_ident(multi_field_data.state.input.generics,fields,scalar_ident,type_where_clauses,true)" not in _nb(body):
        ctx.report("role:scalar:generics", ctx.where(fn.file, fn.node), "the scalar type parameter is no longer added through `add_where_clauses_for_new_ident(.., &fields, ..)` (Copy bound for more than one field)", {})
    wc = A.get_fn(ctx.files, "impl/src/utils.rs", "add_where_clauses_for_new_ident")
    wt = A.fn_text(wc)
    n += 1
    ctx.instance("add_where_clauses_for_new_ident:copy")
    from . import reject as RJ

    from .. import guardf as GF

    copy_chains = []
    for mac, ps in A.find(wc.block, ("Expr::Macro", "Stmt::Macro")):
        if A.path_last(mac["mac"]["path"]) == "quote" and T.ir_text(T.to_ir(mac["mac"]["tokens"])).replace(" ", "").endswith(":derive_more::core::marker::Copy"):
            copy_chains.append(RJ.site_formula(wc, mac, ps))
    if len(copy_chains) != 1 or not GF.equivalent(copy_chains[0], ("atom", "1<$.len()"))[0]:
        ctx.report("role:scalar:copy", ctx.where(wc.file, wc.node), "the scalar right-hand side is no longer bounded by `Copy` exactly when it is applied to more than one field", {})
    # receiver kinds: Mul by value, MulAssign by &mut
    for rel, kind_ in (("impl/src/mul_like.rs", "RefType::No"), ("impl/src/mul_assign_like.rs", "RefType::Mut")):
        e = A.get_fn(ctx.files, rel, "expand")
        n += 1
        ctx.instance(f"{rel}:ref-kind")
        if f"generics_and_exprs(multi_field_data,scalar_ident,type_where_clauses,{kind_})" not in _nb(A.fn_text(e)):
            ctx.report(f"role:{rel}:ref", ctx.where(e.file, e.node), f"`{rel}` no longer builds its field expressions with {kind_}", {})
    ctx.floor("operator templates", n, 10)


def rule_unary(ctx):
    """UNARY: Not/Neg map every field (`self.#f.op()`), enum arms rebuild the same variant from the same binders, and the Result wrapping (`Ok(..)` per arm, `Err(UnitError)` for unit variants, `Result<Self, UnitError>` as output) is governed by one `has_unit_type` = 'some variant is a unit'."""
    rel = "impl/src/not_like.rs"
    for qual, rx in (("tuple_content", r"#\w+\(self\.#(\w+)\)"), ("struct_content", r"#(\w+):#\w+\(self\.#(\w+)\)")):
        fn, ts = templates_in(ctx, rel, qual)
        ok = False
        for t in ts:
            m = re.fullmatch(rx, tx(t))
            if m and len(set(m.groups())) == 1:
                ok = True
        ctx.instance(f"not_like::{qual}")
        if not ok:
            ctx.report(f"unary:{qual}", ctx.where(fn.file, fn.node), f"`{qual}` no longer maps each field with `Trait::op(self.#f)` into the same field", {"templates": [tx(t) for t in ts]})
    fn, ts = templates_in(ctx, rel, "enum_output_type_and_content")
    f = fn.file
    texts = A.TList(tx(t) for t in ts)
    body = A.fn_text(fn)
    need = {
        "tuple-body": "#subtype(#(#method_iter(#vars)),*)",
        "tuple-arm": "#subtype(#(#vars),*)=>{#body}",
        "named-body": "#subtype{#(#field_names:#method_iter(#vars)),*}",
        "named-arm": "#subtype{#(#field_names:#vars),*}=>{#body}",
        "unit-arm": "#subtype=>derive_more::core::result::Result::Err(derive_more::UnitError::new(#operation_name))",
        "match": "matchself{#(#matches),*}",
        "result-type": "derive_more::core::result::Result<#input_type#ty_generics,derive_more::UnitError>",
    }
    for k, s in need.items():
        ctx.instance(f"not_like::enum:{k}")
        if s not in texts:
            ctx.report(f"unary:enum:{k}", ctx.where(f, fn.node), f"enum unary operator lost the `{k}` template `{s}`", {"templates": texts})
    ctx.instance("not_like::enum:has_unit_type")
    if "let has_unit_type=data_enum.variants.iter().any(|v|v.fields==Fields::Unit)" not in body:
        ctx.report("unary:has_unit_type", ctx.where(f, fn.node), "`has_unit_type` is no longer 'any variant is a unit variant'", {})
    # where is a value wrapped in `Result::Ok(..)`? directly under `if has_unit_type`, or through a helper that wraps
    # under its own first parameter and is handed `has_unit_type`
    from . import reject as RJ

    def ok_sites(g):
        out = []
        for mac, ps in A.find(g.block, ("Expr::Macro", "Stmt::Macro")):
            if A.path_last(mac["mac"]["path"]) == "quote" and A.TTxt(T.ir_text(T.to_ir(mac["mac"]["tokens"])).replace(" ", "")).same("derive_more::core::result::Result::Ok(#body)"):
                ch = RJ.guard_chain(g, mac, ps, {})
                out.append(ch[-1] if ch else "")
        return out

    wraps = sum(1 for c in ok_sites(fn) if c == "if has_unit_type")
    for g in A.functions(f):
        if g is fn or g.block is None or g.impl is not None:
            continue
        prm = [A.pat_idents(p_["0"]["pat"]) for p_ in g.node["sig"]["inputs"] if A.kind(p_) == "FnArg::Typed"]
        if prm and len(prm[0]) == 1 and ok_sites(g) == [f"if {prm[0][0]}"]:
            for c, _ in A.find(fn.block, "Expr::Call"):
                if A.kind(c["func"]) == "Expr::Path" and A.path_str(c["func"]) == g.name and c["args"] and A.render(c["args"][0]) == "has_unit_type":
                    wraps += 1
    if wraps != 2 or "let output_type=if has_unit_type{" not in body:
        ctx.report("unary:wrap-consistency", ctx.where(f, fn.node), "the `Ok(..)` wrapping of the tuple and named arms and the `Result` output type are no longer all governed by `has_unit_type`", {})


OPS_TRAITS = {
    "Add": "arith", "Sub": "arith", "Mul": "arith", "Div": "arith", "Rem": "arith", "Neg": "arith",
    "AddAssign": "arith", "SubAssign": "arith", "MulAssign": "arith", "DivAssign": "arith", "RemAssign": "arith",
    "BitAnd": "bit", "BitOr": "bit", "BitXor": "bit", "Shl": "bit", "Shr": "bit", "Not": "bit",
    "BitAndAssign": "bit", "BitOrAssign": "bit", "BitXorAssign": "bit", "ShlAssign": "bit", "ShrAssign": "bit",
}
FALLBACK_METHODS = {t: re.sub(r"assign$", "_assign", t.lower()) for t in OPS_TRAITS}
FALLBACK_METHODS.update({"Sum": "sum", "Product": "product"})


def core_method_names():
    """{Trait: method} read from the toolchain's library/core/src/ops/*.rs and iter/traits/accum.rs"""
    try:
        sysroot = subprocess.run(["rustc", "+nightly", "--print", "sysroot"], capture_output=True, text=True).stdout.strip()
    except OSError:
        return None
    base = os.path.join(sysroot, "lib/rustlib/src/rust/library/core/src")
    out = {}
    for fname in ("ops/arith.rs", "ops/bit.rs", "iter/traits/accum.rs"):
        p = os.path.join(base, fname)
        if not os.path.exists(p):
            return None
        src = open(p).read()
        for m in re.finditer(r"pub (?:const )?(?:\[const\] )?trait (\w+)[^{]*\{(.*?)\n\}", src, re.S):
            fm = re.search(r"\n\s*fn (\w+)", m.group(2))
            if fm:
                out[m.group(1)] = fm.group(1)
    return out


def _eval_tok_chain(fn, toks, env, depth=0):
    """constant-evaluate a token sequence `name(.method(args))*` like eval_str does for the parsed form"""
    if not toks or A.kind(toks[0]) != "Ident" or depth > 8:
        return None
    nm = toks[0]["sym"]
    if nm in env:
        v = env[nm]
    else:
        b = TY.resolve(fn, nm, toks[0]["span"][0])
        v = eval_str(fn, b["init"], env, depth + 1) if b and b.get("init") is not None else None
    i = 1
    while v is not None and i < len(toks):
        if not (A.kind(toks[i]) == "Punct" and A.punct_char(toks[i]) == "." and i + 2 < len(toks) + 0 and A.kind(toks[i + 1]) == "Ident" and A.kind(toks[i + 2]) == "Group"):
            return None
        m, args = toks[i + 1]["sym"], toks[i + 2]["stream"]
        if m == "to_lowercase" and not args:
            v = v.lower()
        elif m in ("to_string", "to_owned", "into", "as_str", "clone") and not args:
            pass
        elif m == "trim_end_matches" and len(args) == 1 and A.kind(args[0]) == "Literal" and args[0]["lit"].get("value"):
            a = args[0]["lit"]["value"]
            while v.endswith(a):
                v = v[: -len(a)]
        else:
            return None
        i += 3
    return v


def eval_str(fn, e, env, depth=0):
    """constant-evaluate a string expression over `env` (names -> str): to_lowercase, trim_end_matches, to_string, +, format!"""
    e = A.peel(e)
    k = A.kind(e)
    if depth > 8:
        return None
    if k == "Expr::Lit" and A.kind(e["lit"]) == "Lit::Str":
        return e["lit"]["token"]["value"]
    if k == "Expr::Path":
        nm = A.path_str(e)
        if nm in env:
            return env[nm]
        sp = A.span_of(e)
        b = TY.resolve(fn, nm, sp[0] if sp else 0)
        if b and b.get("init") is not None:
            return eval_str(fn, b["init"], env, depth + 1)
        return None
    if k == "Expr::MethodCall":
        r = eval_str(fn, e["receiver"], env, depth + 1)
        if r is None:
            return None
        m = e["method"]["sym"]
        if m == "to_lowercase":
            return r.lower()
        if m in ("to_string", "to_owned", "into", "as_str", "clone"):
            return r
        if m == "trim_end_matches":
            a = eval_str(fn, e["args"][0], env, depth + 1)
            if a is None or a == "":
                return None
            while r.endswith(a):
                r = r[: -len(a)]
            return r
        return None
    if k == "Expr::Binary" and A.kind(e["op"]) == "BinOp::Add":
        l, r = eval_str(fn, e["left"], env, depth + 1), eval_str(fn, e["right"], env, depth + 1)
        return l + r if l is not None and r is not None else None
    if k == "Expr::Call" and (A.path_str(e["func"]) or "").split("::")[-2:] == ["Ident", "new"] and len(e["args"]) == 2:
        # `Ident::new(<string>, span)` names what the string says
        return eval_str(fn, e["args"][0], env, depth + 1)
    if k == "Expr::Macro" and A.path_last(e["mac"]["path"]) in ("format", "format_ident"):
        toks = e["mac"]["tokens"]
        if toks and A.kind(toks[0]) == "Literal":
            pat = toks[0]["lit"].get("value") or ""
            # positional `{}` arguments that are plain names
            parts, cur = [], []
            for t_ in toks[1:]:
                if A.kind(t_) == "Punct" and A.punct_char(t_) == ",":
                    parts.append(cur)
                    cur = []
                else:
                    cur.append(t_)
            parts.append(cur)
            pos = [p_ for p_ in parts if p_ and not (len(p_) >= 2 and A.kind(p_[1]) == "Punct" and A.punct_char(p_[1]) == "=")]
            if "{}" in pat:
                if pat.count("{}") != len(pos):
                    return None
                if not all(len(p_) == 1 and A.kind(p_[0]) == "Ident" for p_ in pos):
                    # arguments that are method chains on a name (`trait_name.to_lowercase().trim_end_matches("assign")`)
                    vals = [_eval_tok_chain(fn, p_, env, depth + 1) for p_ in pos]
                    if any(v is None for v in vals):
                        return None
                    itv = iter(vals)
                    pat = re.sub(r"\{\}", lambda m_: next(itv).replace("{", "{{").replace("}", "}}"), pat)
                    if "{" in pat.replace("{{", "").replace("}}", ""):
                        pass
                    else:
                        return pat.replace("{{", "{").replace("}}", "}")
                else:
                    it_ = iter(pos)
                    pat = re.sub(r"\{\}", lambda m_: "{" + next(it_)[0]["sym"] + "}", pat)

            def sub(m):
                nm = m.group(1)
                if nm in env:
                    return env[nm]
                b = TY.resolve(fn, nm, toks[0]["span"][0])
                v = eval_str(fn, b["init"], env, depth + 1) if b and b.get("init") is not None else None
                if v is None:
                    raise KeyError(nm)
                return v

            try:
                return re.sub(r"\{(\w+)\}", sub, pat)
            except KeyError:
                return None
    return None


def rule_method_names(ctx):
    """OP-NAMES: for each of the operator / Sum / Product derives registered in impl/src/lib.rs, the method name the expander derives from the trait name (constant evaluation of its `to_lowercase` / `trim_end_matches` / `format_ident!` chain) equals the method core declares for that trait (read from the toolchain's core/src/ops/*.rs); Sum folds with Add::add and Product with Mul::mul, accumulator first."""
    core = core_method_names() or FALLBACK_METHODS
    table = CFG.derive_table(ctx)
    mods = {"add_like": "impl/src/add_like.rs", "add_assign_like": "impl/src/add_assign_like.rs", "not_like": "impl/src/not_like.rs", "mul_like": "impl/src/mul_like.rs", "mul_assign_like": "impl/src/mul_assign_like.rs", "sum_like": "impl/src/sum_like.rs"}
    n = 0
    for feat, mod, tr, fnname in table:
        if mod not in mods:
            continue
        rel = mods[mod]
        fn = A.get_fn(ctx.files, rel, "expand")
        env = {"trait_name": tr}
        got = None
        # method_ident binding (add_like, add_assign_like, not_like) or the trait_attr handed to State (mul*, sum)
        b = TY.resolve(fn, "method_ident", A.span_of(fn.block)[1])
        if b and b.get("init") is not None and b["kind"] == "let" and A.kind(b["pat"]) == "Pat::Ident":
            got = eval_str(fn, b["init"], env)
        if got is None:
            for c, _ in A.calls(fn.block, lambda p: p.startswith("State::")):
                if len(c["args"]) >= 3:
                    got = eval_str(fn, c["args"][2], env)
        want = core.get(tr)
        n += 1
        ctx.instance(f"method-name:{tr}", sample={"trait": tr, "derived": got, "core": want})
        if got is None:
            ctx.report(f"opname:{tr}:unknown", ctx.where(fn.file, fn.node), f"cannot evaluate how `{rel}` derives the method name for `{tr}` any more - re-audit", {})
        elif want is not None and got != want:
            ctx.report(f"opname:{tr}", ctx.where(fn.file, fn.node), f"`{rel}` derives method `{got}` for trait `{tr}`, core declares `{want}`", {})
    ctx.floor("operator derives", n, 24)
    # Sum / Product fold
    fn, ts = templates_in(ctx, "impl/src/sum_like.rs", "expand")
    body = A.fn_text(fn)
    texts = A.TList(tx(t) for t in ts)
    ctx.instance("sum:op-table")
    if 'let op_trait_name=if trait_name=="Sum"{"Add"}else {"Mul"}' not in body and 'let op_trait_name=if trait_name=="Sum"{"Add"}else{"Mul"}' not in body.replace("else {", "else{"):
        ctx.report("sum:op-table", ctx.where(fn.file, fn.node), "Sum -> Add / Product -> Mul mapping changed", {})
    ctx.instance("sum:fold")
    # the template declaring `fn #method_ident<P: ..Iterator<Item = Self>>(NAME: P)`: whatever the parameter and the argument are called
    impl = []
    for s_ in texts:
        m_ = re.search(r"fn#method_ident<(\w+):derive_more::core::iter::Iterator<Item=Self>>\((\w+):\1\)->Self", s_)
        if m_:
            impl.append((s_, m_.group(2)))
    if not impl or ("{%s.fold(#identity,#op_path::#op_method_ident)}" % impl[0][1]) not in impl[0][0]:
        ctx.report(
            "sum:fold",
            ctx.where(fn.file, fn.node),
            "Sum/Product is no longer `iter.fold(<field-wise empty sum/product>, Op::op)`: e.g. a `reduce` skips the identity for non-empty iterators, which differs for element types whose empty sum is not neutral",
            {"template": impl[:1]},
        )
    ctx.instance("sum:identity")
    if "#trait_path::#method_ident(derive_more::core::iter::empty::<#field_type>())" not in texts or "field_types.iter().map(|field_type|" not in body or "let identity=multi_field_data.initializer(&initializers)" not in body:
        ctx.report("sum:identity", ctx.where(fn.file, fn.node), "the fold's start value is no longer built field by field from `Sum/Product` of an empty iterator of that field's type", {})
    ctx.instance("sum:op-method")
    if 'let op_method_ident=format_ident!("{}",op_trait_name.to_lowercase())' not in body:
        ctx.report("sum:op-method", ctx.where(fn.file, fn.node), "the folding method is no longer the lower-cased operator trait name (add / mul)", {})
