"""ITER-FRESH: per-element values must not leak from one loop iteration into the next.

The derives process variants / fields in iterator closures (`try_fold`, `map`, ...) and `for` loops. A variable that
lives *outside* such a loop body and is assigned *inside* it is loop-carried state. Two uses are legitimate and
recognised: accumulators (compound assignment, method calls such as `push`/`extend`/`insert`, or assignment of a
constant such as `exhaustive = false`) and per-element slots that are overwritten on *every* iteration before they are
read (`attrs.fmt = <parse this variant's attributes>` as an unconditional statement of the body). A per-element value
stored *conditionally* is a leak: the element that does not store inherits the value of an earlier one (a variant
without `#[debug("..")]` printing with the literal of the previous variant).
"""
import re

from .. import ast as A

ITER_METHODS = {
    "map", "for_each", "try_for_each", "fold", "try_fold", "filter_map", "filter", "flat_map", "find_map", "any", "all", "map_while", "scan", "find", "position", "inspect", "take_while", "skip_while", "partition", "max_by_key", "min_by_key",
    "unzip",
}
CONST = re.compile(r"^(?:Some\()?(true|false|None|\d+|\"[^\"]*\"|\(\))\)?$")
# loop-carried recurrences that are the documented semantics (one reason each), by function: at most `max` such
# assignments, each directly under an `if let Some(..) = <pattern variable of the loop>`
RECURRENCES = {
    ("impl/src/try_from.rs", "<Expansion as ToTokens>::to_tokens"): (
        1,
        "Rust's discriminant rule: a variant without an explicit discriminant continues from the last explicit one (+1 per variant); the base is replaced exactly when the variant has an explicit discriminant; "
        "the recurrence itself is checked by rule_discriminants (C12)",
    ),
}


def _declared(body, params):
    names = set()
    for p in params:
        names.update(A.pat_idents(p))
    for st, _ in A.find(body, "Stmt::Local"):
        names.update(A.pat_idents(st["pat"]))
    for cl, _ in A.find(body, "Expr::Closure"):
        for p in cl["inputs"]:
            names.update(A.pat_idents(p))
    for arm, _ in A.find(body, "Arm"):
        names.update(A.pat_idents(arm["pat"]))
    for x, _ in A.find(body, ("Expr::Let", "Expr::ForLoop")):
        names.update(A.pat_idents(x["pat"]))
    return names


def _root(e):
    r, ops = A.chain(e)
    while A.kind(r) in ("Expr::Unary", "Expr::Paren", "Expr::Reference"):
        r = r["expr"]
        r, _ = A.chain(r)
    return A.path_str(r) if A.kind(r) == "Expr::Path" else None


def loop_bodies(fn):
    """(kind, body node, params, description) of every iteration body in fn"""
    for x, ps in A.walk(fn.block):
        k = A.kind(x)
        if k == "Expr::ForLoop":
            yield "for", x["body"], [x["pat"]], f"for {A.render_pat(x['pat'])} in {A.render(x['expr'])[:60]}"
        elif k == "Expr::MethodCall" and x["method"]["sym"] in ITER_METHODS:
            for a in x["args"]:
                if A.kind(a) == "Expr::Closure":
                    yield "closure", a["body"], a["inputs"], f".{x['method']['sym']}(|{','.join(A.render_pat(p) for p in a['inputs'])}| ..) over {A.render(x['receiver'])[:60]}"


def rule_iteration_state(ctx):
    """ITER-FRESH: inside every iteration body (iterator-adaptor closure or `for` loop) of the crate, a plain assignment to a variable declared outside the body either stores a constant (monotone flag), or is an unconditional statement of the body executed on every iteration; a conditional store of a per-element value leaks the previous element's value into elements that do not store."""
    n_bodies = n_assign = 0
    used = {}
    for rel, f in sorted(ctx.files.items()):
        if not rel.startswith("impl/src/"):
            continue
        for fn in A.functions(f):
            if fn.block is None:
                continue
            for kind_, body, params, desc in loop_bodies(fn):
                n_bodies += 1
                inner = _declared(body, params)
                top = body["stmts"] if A.kind(body) == "Block" else (body["block"]["stmts"] if A.kind(body) == "Expr::Block" else [])
                top_exprs = set()
                for st in top:
                    if A.kind(st) == "Stmt::Expr":
                        top_exprs.add(id(st["0"]) if "0" in st else id(st.get("expr")))
                for asg, ps in A.find(body, "Expr::Assign"):
                    root = _root(asg["left"])
                    if root is not None and root in inner:
                        # a name that is only a parameter of a *nested* closure which does not contain this assignment
                        # shadows nothing here (`attrs.fmt = xs.try_fold(None, |mut attrs, a| ..)?`)
                        encl = [id(p) for p in ps if A.kind(p) == "Expr::Closure"]
                        outer_names = set()
                        for p_ in params:
                            outer_names.update(A.pat_idents(p_))
                        for st_, sps in A.find(body, ("Stmt::Local", "Arm", "Expr::Let", "Expr::ForLoop")):
                            if all(id(q) in encl for q in sps if A.kind(q) == "Expr::Closure"):
                                outer_names.update(A.pat_idents(st_["pat"]))
                        for cl_, cps in A.find(body, "Expr::Closure"):
                            if id(cl_) in encl:
                                for p_ in cl_["inputs"]:
                                    outer_names.update(A.pat_idents(p_))
                        if root in outer_names:
                            continue
                    elif root is None:
                        continue
                    # nested iteration bodies are judged on their own
                    if any(A.kind(p) == "Expr::Closure" for p in ps[1:]) and kind_ == "for":
                        pass
                    rhs = A.render(asg["right"])
                    lhs = A.render(asg["left"])
                    n_assign += 1
                    key = f"{rel}::{fn.qual}:{lhs}"
                    const = CONST.match(rhs) is not None
                    uncond = id(asg) in top_exprs
                    ctx.instance(key, sample={"fn": f"{rel}::{fn.qual}", "loop": desc, "assign": f"{lhs} = {rhs[:80]}", "class": "constant flag" if const else "unconditional per-element slot" if uncond else "CONDITIONAL"})
                    # an unconditional per-element store is fresh only if the new value does not read the slot it replaces
                    selfread = re.search(r"(?<![\w.])" + re.escape(lhs) + r"(?![\w(])", rhs) is not None
                    # (a plain local that the loop folds into - `acc = Some(match acc.take() {..})` - is an accumulator by
                    # design; the slot of a structure handed to each element's expansion is not)
                    if uncond and selfread and not const and "." in lhs:
                        ctx.report(
                            key + ":self-read",
                            ctx.where(f, asg["left"]),
                            f"`{lhs}` lives outside the iteration body `{desc}` of `{fn.qual}` and its per-element value is computed from its own previous value (`{rhs[-100:]}`): "
                            "what was stored for an earlier element flows into later ones (e.g. a variant without its own attribute is expanded with the previous variant's format)",
                            {"loop": desc},
                        )
                        continue
                    if const or uncond:
                        continue
                    rk = (rel, fn.qual)
                    if rk in RECURRENCES:
                        iff = next((p for p in reversed(ps) if A.kind(p) == "Expr::If"), None)
                        guarded = iff is not None and A.kind(iff["cond"]) == "Expr::Let" and A.render_pat(iff["cond"]["pat"]).startswith("Some(") and A.render(iff["cond"]["expr"]) in inner
                        used[rk] = used.get(rk, 0) + 1
                        if guarded and used[rk] <= RECURRENCES[rk][0]:
                            ctx.note(f"{rel}::{fn.qual}: `{lhs}` is a listed recurrence: {RECURRENCES[rk][1]}")
                            continue
                    ctx.report(
                        key,
                        ctx.where(f, asg["left"]),
                        f"`{lhs}` lives outside the iteration body `{desc}` of `{fn.qual}` and is assigned a per-element value (`{rhs[:100]}`) only on some paths: "
                        "an element that takes another path keeps the value stored for an earlier element (e.g. a variant without its own attribute is expanded with the previous variant's)",
                        {"loop": desc},
                    )
    ctx.note(f"{n_bodies} iteration bodies, {n_assign} loop-carried plain assignments")
    ctx.floor("iteration bodies", n_bodies, 100)
    ctx.floor("loop-carried assignments", n_assign, 2)


ACC_METHODS = {"push", "extend", "push_value", "push_punct", "insert", "append", "extend_from_slice", "push_str"}
EMPTY_VALUE = re.compile(r"^(Vec::new\(\)|Default::default\(\)|Punctuated::new\(\)|\w+::default\(\)|vec!\(\)|None|TokenStream::new\(\)|String::new\(\)|HashMap::default\(\)|HashSet::default\(\))$")


def _last_member(e):
    r, ops = A.chain(e)
    fs = [o[1] for o in ops if o[0] == "f"]
    if fs:
        return str(fs[0])
    if A.kind(r) == "Expr::Path":
        return A.path_str(r)
    return None


def rule_accumulators(ctx):
    """ACCUM: a collection that a function fills by `push` / `extend` / `insert` .. is never *overwritten* with a non-empty value in that function: `convs.tys = <the types of this group>` where the other paths do `convs.tys.extend(..)` makes a later `owned(..)` / `ref(..)` group replace the earlier one of the same kind instead of adding to it (a conversion the user listed silently disappears)."""
    n = 0
    for rel, f in sorted(ctx.files.items()):
        if not rel.startswith("impl/src/"):
            continue
        for fn in A.functions(f):
            if fn.block is None:
                continue
            acc = {}
            for mc, _ in A.find(fn.block, "Expr::MethodCall"):
                if mc["method"]["sym"] in ACC_METHODS:
                    nm = _last_member(mc["receiver"])
                    if nm:
                        acc.setdefault(nm, set()).add(mc["method"]["sym"])
            n += len(acc)
            for a, _ in A.find(fn.block, "Expr::Assign"):
                nm = _last_member(a["left"])
                if nm not in acc:
                    continue
                rhs = A.render(a["right"])
                ctx.instance(f"accum:{rel}::{fn.qual}:{nm}", sample={"fn": f"{rel}::{fn.qual}", "place": A.render(a["left"]), "assigned": rhs[:80], "filled_by": sorted(acc[nm])})
                if EMPTY_VALUE.match(rhs):
                    continue
                ctx.report(
                    f"accum:{rel}::{fn.qual}:{nm}",
                    ctx.where(f, a["left"]),
                    f"`{fn.qual}` fills `{nm}` by {sorted(acc[nm])} but here overwrites it: `{A.render(a['left'])} = {rhs[:100]}`: what earlier elements (an earlier `owned(..)` / `ref(..)` group, an earlier attribute) contributed is discarded",
                    {},
                )
    ctx.cur.instances += n
    ctx.floor("accumulated places", n, 40)


# functions whose accumulating `for` loops were read on the audited tree: each processes every element it iterates over
AUDITED_FOR_LOOPS = {
    ("impl/src/add_helpers.rs", "tuple_exprs"), ("impl/src/add_helpers.rs", "struct_exprs"), ("impl/src/add_like.rs", "enum_content"),
    ("impl/src/error.rs", "render_enum"), ("impl/src/from.rs", "Expansion::expand"), ("impl/src/from_str.rs", "enum_from"),
    ("impl/src/into.rs", "check_legacy_syntax"), ("impl/src/is_variant.rs", "expand"), ("impl/src/not_like.rs", "tuple_content"),
    ("impl/src/not_like.rs", "struct_content"), ("impl/src/not_like.rs", "enum_output_type_and_content"), ("impl/src/try_into.rs", "expand"),
    ("impl/src/try_unwrap.rs", "expand"), ("impl/src/unwrap.rs", "expand"), ("impl/src/utils.rs", "parse_punctuated_nested_meta"),
}


def rule_loop_exit(ctx):
    """LOOP-EXIT: a `for` / `while` loop that accumulates into state outside its body (assignment, `push`, `insert`, ..) is left early only through a failure value (`return Err(..)`, `return None`, `?`): `return <anything else>` - e.g. turning a recursive call followed by more iterations into a tail call - silently ignores the remaining elements (attribute parameters written after a `not(..)` group)."""
    n = 0
    for rel, f in sorted(ctx.files.items()):
        if not rel.startswith("impl/src/"):
            continue
        for fn in A.functions(f):
            if fn.block is None:
                continue
            for loop, _ in A.find(fn.block, ("Expr::ForLoop", "Expr::While")):
                body = loop["body"]
                params = [loop["pat"]] if A.kind(loop) == "Expr::ForLoop" else []
                inner = _declared(body, params)
                mutates = False
                for x, _ps in A.walk(body):
                    k = A.kind(x)
                    if k == "Expr::Assign" or (k == "Expr::Binary" and (A.kind(x["op"]) or "").endswith("Assign")):
                        r = _root(x["left"])
                        if r and r not in inner:
                            mutates = True
                    elif k == "Expr::MethodCall" and x["method"]["sym"] in ACC_METHODS | {"get_or_insert_with", "get_or_insert", "replace"}:
                        r = _root(x["receiver"])
                        if r and r not in inner:
                            mutates = True
                if not mutates:
                    continue
                n += 1
                desc = (f"for {A.render_pat(loop['pat'])} in {A.render(loop['expr'])[:50]}" if A.kind(loop) == "Expr::ForLoop" else f"while {A.render(loop['cond'])[:50]}")
                ctx.instance(f"loopexit:{rel}::{fn.qual}:{desc[:40]}", sample={"fn": f"{rel}::{fn.qual}", "loop": desc})
                for r_, ps in A.find(body, "Expr::Return"):
                    if any(A.kind(p) == "Expr::Closure" for p in ps):
                        continue
                    txt = A.render(r_)
                    if txt.startswith("return Err(") or txt == "return None":
                        continue
                    ctx.report(
                        f"loopexit:{rel}::{fn.qual}:{A.alpha(txt)[:60]}",
                        ctx.where(f, r_),
                        f"`{fn.qual}` leaves its accumulating loop `{desc}` with `{txt[:100]}`, which is not a failure value: the elements after the current one are never processed (e.g. `#[error(not(backtrace), source)]` loses `source`)",
                        {},
                    )
                # `continue` / `break`: the element (or the rest) is dropped without a diagnostic - closed set, expected empty
                # (`for` loops over the input's items only: a `while` loop of a hand-written scanner ends by `break`)
                # and only the loops of the audited tree, where every element reaches the accumulation: a loop that a
                # refactoring creates out of `.filter(..).try_fold(..)` spells its filter as `continue` legitimately
                for c_, ps in (A.find(body, ("Expr::Continue", "Expr::Break")) if A.kind(loop) == "Expr::ForLoop" and (rel, fn.qual) in AUDITED_FOR_LOOPS else ()):
                    if any(A.kind(p) in ("Expr::Closure", "Expr::ForLoop", "Expr::While", "Expr::Loop") and p is not loop for p in ps):
                        continue
                    kw = "continue" if A.kind(c_) == "Expr::Continue" else "break"
                    ctx.report(
                        f"loopexit:{rel}::{fn.qual}:{kw}",
                        ctx.where(f, c_),
                        f"`{fn.qual}` skips {'the rest of the body for one element' if kw == 'continue' else 'all remaining elements'} of its accumulating loop `{desc}` with `{kw}`: what the loop records for every element "
                        "(an impl group, an arm, a predicate) is silently missing for the elements taking that path (a variant whose fields are all ignored drops out of the `()` conversion)",
                        {},
                    )
    ctx.floor("accumulating loops", n, 8)


FLAGS = ("enabled", "forward", "owned", "ref_", "ref_mut")


def _raw_flag_sites(files):
    out = []
    for rel, f in sorted(files.items()):
        for fn in A.functions(f):
            if fn.block is None or fn.qual == "MetaInfo::into_full":
                continue
            for x, _ in A.find(fn.block, "Expr::Field"):
                m = x["member"]
                if A.kind(m) != "Member::Named" or m["0"]["sym"] not in FLAGS:
                    continue
                b = x["base"]
                if A.kind(b) == "Expr::Field" and A.kind(b["member"]) == "Member::Named" and b["member"]["0"]["sym"] == "info":
                    out.append((f, fn, x))
    return out


def rule_raw_flags(ctx):
    """RAW-FLAG: the five legacy attribute flags are consulted only in their resolved form (`FullMetaInfo.<flag>`: own setting, else inherited default); the raw `Option<bool>` slot (`.info.<flag>`) is read nowhere outside `MetaInfo::into_full`. Testing the slot's *presence* (`.info.forward.is_some()`) takes `not(forward)` - `Some(false)` - for `forward`."""
    import os

    files = {rel: f for rel, f in ctx.files.items() if rel.startswith("impl/src/")}
    sites = _raw_flag_sites(files)
    n = sum(len(A.functions(f)) for f in files.values())
    ctx.cur.instances += n
    for f, fn, x in sites:
        ctx.report(
            f"rawflag:{f.rel}::{fn.qual}:{A.render(x)}",
            ctx.where(f, x),
            f"`{fn.qual}` reads the raw attribute slot `{A.render(x)}` (an `Option<bool>`): whether the parameter was *written* is not its value - `not({x['member']['0']['sym'].rstrip('_')})` stores `Some(false)`; use the resolved `FullMetaInfo` flag",
            {},
        )
    pos = os.path.join(os.path.dirname(os.path.dirname(os.path.dirname(os.path.dirname(os.path.abspath(__file__))))), "rules", "positive", "rawflag.rs")
    pc = A.load_files([pos])
    ctx.instance("rawflag:positive-control")
    if len(_raw_flag_sites(pc)) != 1:
        ctx.report("rawflag:positive-control", "rules/positive/rawflag.rs", "the positive control is no longer reported", {})


CONSUMING = {"find", "find_map", "next", "nth", "position", "take_while", "skip_while", "any", "all", "skip", "take", "last", "next_back", "by_ref"}


SEARCHES = ("all", "any", "find", "find_map", "position", "rposition")


def _cursor_sites(files, prefix="impl/src/"):
    """[(kind, key, file, node, message)], number of iterator variables looked at"""
    out = []
    m = 0
    for rel, f in sorted(files.items()):
        if prefix and not rel.startswith(prefix):
            continue
        for fn in A.functions(f):
            if fn.block is None:
                continue
            # `let mut NAME = <iterator-valued expression>` declared in the function
            muts = {}
            for st, _ in A.find(fn.block, "Stmt::Local"):
                pat = st["pat"]
                if A.kind(pat) == "Pat::Type":
                    pat = pat["pat"]
                if A.kind(pat) == "Pat::Ident" and pat.get("mutability") and st.get("init"):
                    r = A.render(st["init"]["expr"])
                    if re.search(r"\.(iter|into_iter|chars|iter_mut|fmt_args_idents|enumerate|zip|map|filter|filter_map)\(", r) and not r.startswith("iter::repeat") and "repeat(" not in r:
                        muts[pat["ident"]["sym"]] = st
            if not muts:
                continue
            for kind_, body, params, desc in loop_bodies(fn):
                inner = _declared(body, params)
                for mc, ps in A.find(body, "Expr::MethodCall"):
                    nm = A.path_str(A.peel(mc["receiver"])) if A.kind(A.peel(mc["receiver"])) == "Expr::Path" else None
                    if nm in muts and nm not in inner and mc["method"]["sym"] in CONSUMING:
                        key = f"{rel}::{fn.qual}:{nm}.{mc['method']['sym']}"
                        out.append(("cursor", key, f, mc["method"], f"`{fn.qual}` advances the outer iterator `{nm}` with `.{mc['method']['sym']}(..)` inside the iteration body `{desc}`: the cursor never goes back, so an element that lies before the previous hit is not found any more - the result depends on the order of the walked sequence"))
            # a data-dependent search (`all` / `any` / `find` ..) leaves the cursor wherever the search stopped: any later
            # use of the same iterator sees only the elements after that point
            for nm, st in sorted(muts.items()):
                uses = []
                for e, ps in A.find(fn.block, "Expr::Path"):
                    if A.path_str(e) == nm and (A.span_of(e) or [0])[0] > (A.span_of(st) or [0, 0])[1]:
                        par = next((p for p in reversed(ps) if A.kind(p) not in ("Expr::Reference", "Expr::Paren", "Expr::Group")), None)
                        meth = par["method"]["sym"] if par is not None and A.kind(par) == "Expr::MethodCall" and A.peel(par["receiver"]) is e else None
                        uses.append(((A.span_of(e) or [0])[0], meth, e))
                uses.sort(key=lambda u: u[0])
                m += 1
                for k, (off, meth, e) in enumerate(uses):
                    if meth in SEARCHES and k + 1 < len(uses):
                        nxt = uses[k + 1]
                        key = f"{rel}::{fn.qual}:{nm}.{meth}+{nxt[1] or 'use'}"
                        out.append(("cursor-reuse", key, f, e, f"`{fn.qual}` searches the iterator `{nm}` with `.{meth}(..)` and then uses the same, partly consumed iterator again (`{nxt[1] or 'passed on'}`): the second use only sees the elements after the point where the search stopped, so its result depends on the position of the first hit (collect the elements, or start a fresh iteration)"))
                        break
    return out, m


def rule_shared_cursor(ctx):
    """CURSOR: (a) no iteration body advances an iterator that lives *outside* it (`let mut fields = xs.iter(); ys.map(move |y| fields.find(..))`): such a cursor only moves forward, so whether an element is found depends on the order in which the other sequence is walked (`"{b:p} {a:p}"` finds `b`, then can never find `a`); (b) an iterator that was searched (`all` / `any` / `find` / `find_map` / `position`) is not used again: the search stops at a data-dependent point and the next use silently skips everything before it. A look-up per element goes over a fresh iteration (`xs.iter().find(..)`) or a collected list. The `iter::repeat(x).by_ref()` feeding a repetition and explicit `zip`s are not look-ups and are not reported. Expected count zero; positive control rules/positive/cursor.rs."""
    import os

    sites, m = _cursor_sites(ctx.files)
    for kind_, key, f, node, msg in sites:
        ctx.instance(key)
        ctx.report(f"{kind_}:{key}", ctx.where(f, node), msg, {})
    ctx.cur.instances += 1
    ctx.note(f"{len(sites)} cursor sites; {m} iterator variables checked")
    pos = os.path.join(os.path.dirname(os.path.dirname(os.path.dirname(os.path.dirname(os.path.abspath(__file__))))), "rules", "positive", "cursor.rs")
    pc = A.load_files([pos])
    got, _ = _cursor_sites(pc, prefix=None)
    ctx.instance("cursor:positive-control")
    kinds = sorted(k for k, *_ in got)
    if kinds != ["cursor", "cursor-reuse"]:
        ctx.report("cursor:positive-control", "rules/positive/cursor.rs", f"the positive control yields {kinds} instead of one site of each kind", {})


def rule_monotone_flags(ctx):
    """MONOTONE: a struct field that the crate sets with a literal (`convs.consider_fields_ty = true` when a bare `owned` / `ref` / `ref_mut` keyword is seen) is a monotone flag: every assignment to a field of that name stores a literal. Assigning it a *computed* value on every pass (`convs.consider_fields_ty = !input.peek(Paren)`) lets a later occurrence take back what an earlier one recorded: `#[into(owned, owned(i64))]` loses the conversion to the field's own type."""
    sites = {}
    for rel, f in sorted(ctx.files.items()):
        if not rel.startswith("impl/src/"):
            continue
        for fn in A.functions(f):
            if fn.block is None:
                continue
            for a, _ in A.find(fn.block, "Expr::Assign"):
                l = A.peel(a["left"])
                if A.kind(l) == "Expr::Field" and A.kind(l["member"]) == "Member::Named":
                    sites.setdefault(l["member"]["0"]["sym"], []).append((f, fn, a, A.render(a["right"])))
    n = 0
    for name, lst in sorted(sites.items()):
        # flags confirmed by reading (kept when an edit removes their last literal assignment)
        if not any(r in ("true", "false") for _, _, _, r in lst) and name not in ("consider_fields_ty",):
            continue
        for f, fn, a, r in lst:
            n += 1
            ctx.instance(f"monotone:{f.rel}::{fn.qual}:{name}", sample={"field": name, "value": r[:60]})
            if r not in ("true", "false"):
                ctx.report(
                    f"monotone:{f.rel}::{fn.qual}:{name}",
                    ctx.where(f, a["left"]),
                    f"`{fn.qual}` assigns the flag `{name}` a computed value (`{r[:80]}`) where the crate otherwise only ever *sets* it: a later pass can clear what an earlier one recorded "
                    "(`#[into(owned, owned(i64))]`: the bare `owned` is forgotten and `From<S> for <field type>` silently disappears)",
                    {},
                )
    ctx.floor("literal flag assignments", n, 1)
