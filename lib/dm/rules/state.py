"""ITER-FRESH: per-element values must not leak from one loop iteration into the next.

The derives process variants / fields in iterator closures (`try_fold`, `map`, ...) and `for` loops. A variable that
lives *outside* such a loop body and is assigned *inside* it is loop-carried state. Two uses are legitimate and
recognised: accumulators (compound assignment, method calls such as `push`/`extend`/`insert`, or assignment of a
constant such as `exhaustive = false`) and per-element slots that are overwritten on *every* iteration before they are
read (`attrs.fmt = <parse this variant's attributes>` as an unconditional statement of the body). A per-element value
stored *conditionally* is a leak: the element that does not store inherits the value of an earlier one (a variant
without `#[debug("..")]` printing with the literal of the previous variant).
"""
import re

from .. import ast as A

ITER_METHODS = {
    "map", "for_each", "try_for_each", "fold", "try_fold", "filter_map", "filter", "flat_map", "find_map", "any", "all", "map_while", "scan", "find", "position", "inspect", "take_while", "skip_while", "partition", "max_by_key", "min_by_key",
    "unzip",
}
CONST = re.compile(r"^(?:Some\()?(true|false|None|\d+|\"[^\"]*\"|\(\))\)?$")
# loop-carried recurrences that are the documented semantics (one reason each), by function: at most `max` such
# assignments, each directly under an `if let Some(..) = <pattern variable of the loop>`
RECURRENCES = {
    ("impl/src/try_from.rs", "<Expansion as ToTokens>::to_tokens"): (
        1,
        "Rust's discriminant rule: a variant without an explicit discriminant continues from the last explicit one (+1 per variant); the base is replaced exactly when the variant has an explicit discriminant; "
        "the recurrence itself is checked by rule_discriminants (C12)",
    ),
}


def _declared(body, params):
    names = set()
    for p in params:
        names.update(A.pat_idents(p))
    for st, _ in A.find(body, "Stmt::Local"):
        names.update(A.pat_idents(st["pat"]))
    for cl, _ in A.find(body, "Expr::Closure"):
        for p in cl["inputs"]:
            names.update(A.pat_idents(p))
    for arm, _ in A.find(body, "Arm"):
        names.update(A.pat_idents(arm["pat"]))
    for x, _ in A.find(body, ("Expr::Let", "Expr::ForLoop")):
        names.update(A.pat_idents(x["pat"]))
    return names


def _root(e):
    r, ops = A.chain(e)
    while A.kind(r) in ("Expr::Unary", "Expr::Paren", "Expr::Reference"):
        r = r["expr"]
        r, _ = A.chain(r)
    return A.path_str(r) if A.kind(r) == "Expr::Path" else None


def loop_bodies(fn):
    """(kind, body node, params, description) of every iteration body in fn"""
    for x, ps in A.walk(fn.block):
        k = A.kind(x)
        if k == "Expr::ForLoop":
            yield "for", x["body"], [x["pat"]], f"for {A.render_pat(x['pat'])} in {A.render(x['expr'])[:60]}"
        elif k == "Expr::MethodCall" and x["method"]["sym"] in ITER_METHODS:
            for a in x["args"]:
                if A.kind(a) == "Expr::Closure":
                    yield "closure", a["body"], a["inputs"], f".{x['method']['sym']}(|{','.join(A.render_pat(p) for p in a['inputs'])}| ..) over {A.render(x['receiver'])[:60]}"


def rule_iteration_state(ctx):
    """ITER-FRESH: inside every iteration body (iterator-adaptor closure or `for` loop) of the crate, a plain assignment to a variable declared outside the body either stores a constant (monotone flag), or is an unconditional statement of the body executed on every iteration; a conditional store of a per-element value leaks the previous element's value into elements that do not store."""
    n_bodies = n_assign = 0
    used = {}
    for rel, f in sorted(ctx.files.items()):
        if not rel.startswith("impl/src/"):
            continue
        for fn in A.functions(f):
            if fn.block is None:
                continue
            for kind_, body, params, desc in loop_bodies(fn):
                n_bodies += 1
                inner = _declared(body, params)
                top = body["stmts"] if A.kind(body) == "Block" else (body["block"]["stmts"] if A.kind(body) == "Expr::Block" else [])
                top_exprs = set()
                for st in top:
                    if A.kind(st) == "Stmt::Expr":
                        top_exprs.add(id(st["0"]) if "0" in st else id(st.get("expr")))
                for asg, ps in A.find(body, "Expr::Assign"):
                    root = _root(asg["left"])
                    if root is None or root in inner or root == "self" and False:
                        continue
                    # nested iteration bodies are judged on their own
                    if any(A.kind(p) == "Expr::Closure" for p in ps[1:]) and kind_ == "for":
                        pass
                    rhs = A.render(asg["right"])
                    lhs = A.render(asg["left"])
                    n_assign += 1
                    key = f"{rel}::{fn.qual}:{lhs}"
                    const = CONST.match(rhs) is not None
                    uncond = id(asg) in top_exprs
                    ctx.instance(key, sample={"fn": f"{rel}::{fn.qual}", "loop": desc, "assign": f"{lhs} = {rhs[:80]}", "class": "constant flag" if const else "unconditional per-element slot" if uncond else "CONDITIONAL"})
                    if const or uncond:
                        continue
                    rk = (rel, fn.qual)
                    if rk in RECURRENCES:
                        iff = next((p for p in reversed(ps) if A.kind(p) == "Expr::If"), None)
                        guarded = iff is not None and A.kind(iff["cond"]) == "Expr::Let" and A.render_pat(iff["cond"]["pat"]).startswith("Some(") and A.render(iff["cond"]["expr"]) in inner
                        used[rk] = used.get(rk, 0) + 1
                        if guarded and used[rk] <= RECURRENCES[rk][0]:
                            ctx.note(f"{rel}::{fn.qual}: `{lhs}` is a listed recurrence: {RECURRENCES[rk][1]}")
                            continue
                    ctx.report(
                        key,
                        ctx.where(f, asg["left"]),
                        f"`{lhs}` lives outside the iteration body `{desc}` of `{fn.qual}` and is assigned a per-element value (`{rhs[:100]}`) only on some paths: "
                        "an element that takes another path keeps the value stored for an earlier element (e.g. a variant without its own attribute is expanded with the previous variant's)",
                        {"loop": desc},
                    )
    ctx.note(f"{n_bodies} iteration bodies, {n_assign} loop-carried plain assignments")
    ctx.floor("iteration bodies", n_bodies, 100)
    ctx.floor("loop-carried assignments", n_assign, 2)
