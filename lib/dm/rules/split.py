"""C16 - format arguments are split where Rust's expression grammar splits them (SPLIT-TAB, hazards)."""
import re

from .. import ast as A

PARSING = "impl/src/parsing.rs"
MOD = "impl/src/fmt/mod.rs"

# Places where Rust's expression grammar admits a comma outside a delimited token group
# (compiled from syn's expr.rs / path.rs / ty.rs: AngleBracketedGenericArguments in expression paths,
#  QSelf, closure inputs, and *types* embedded in expressions).
REFERENCE_ROWS = [
    ("turbofish", "`f::<A, B>()`, `x.m::<A, B>()`  (syn: ExprPath / ExprMethodCall turbofish)", "seq([&mut path_sep,&mut balanced_pair(punct('<'),punct('>'))])"),
    ("qualified-path", "`<A as T<B, C>>::X`  (syn: QSelf)", "seq([&mut balanced_pair(punct('<'),punct('>')),&mut path_sep])"),
    ("closure-params", "`|a, b| ..`  (syn: ExprClosure inputs)", "balanced_pair(punct('|'),punct('|'))"),
    ("cast-type-generics", "`x as M<K, V>`  (syn: ExprCast ty)", None),
    ("closure-return-type", "`|| -> M<K, V> { .. }`  (syn: ExprClosure output)", "EXCEPTION: a closure standing at the top level of a format argument can never be formatted (closures implement no fmt trait) and any call of it needs parentheses, which make it one token tree; the mis-split cannot be observed"),
]


def rule_split_table(ctx):
    """SPLIT-TAB: the argument scanner's alternatives (`Expr::parse`: take token trees until a top-level comma, treating some token runs as balanced groups) are compared row by row with the places where Rust's expression grammar allows a comma outside a delimiter group; the catch-all `token_tree` alternative is last; an identifier is a plain field reference only when the argument is exactly one identifier; the scanner's loops always advance or stop."""
    fn = A.get_fn(ctx.files, PARSING, "<Expr as Parse>::parse")
    f = fn.file
    w = ctx.where(f, fn.node)
    call = None
    for c, ps in A.calls(fn.block, lambda p: p == "take_until1"):
        call = c
    if call is None:
        raise A.AnchorLost(f"{PARSING}::<Expr as Parse>::parse", "take_until1(alt([..]), punct(','))")
    alt = call["args"][0]
    until = A.render(call["args"][1])
    if A.kind(alt) == "Expr::Path":
        # the alternatives extracted into a helper `fn part(c) -> .. { alt(&mut [..])(c) }`
        hf = [g for g in A.functions(f) if g.name == A.path_str(alt) and g.block is not None]
        if len(hf) == 1 and len(hf[0].block["stmts"]) == 1 and A.kind(hf[0].block["stmts"][0]) == "Stmt::Expr":
            e_ = hf[0].block["stmts"][0]["0"]
            if A.kind(e_) == "Expr::Call" and A.kind(e_["func"]) == "Expr::Call":
                alt = e_["func"]
    if A.path_str(alt.get("func")) != "alt":
        raise A.AnchorLost(f"{PARSING}::<Expr as Parse>::parse", "alt([..]) as the scanner body")
    alts = [A.render(A.peel(x)) for x in A.peel(alt["args"][0])["elems"]]
    ctx.instance("scanner:until", sample=until)
    if until != "punct(',')":
        ctx.report("split:until", w, f"arguments are no longer delimited by a top-level `,` (`{until}`)", {})
    ctx.note(f"scanner alternatives: {alts}")
    for key, desc, want in REFERENCE_ROWS:
        ctx.instance(f"row:{key}", sample={"row": key, "grammar": desc, "scanner": want})
        if want is not None and want.startswith("EXCEPTION"):
            ctx.note(f"row {key}: {want}")
            continue
        if want is None:
            ctx.report(
                f"split:uncovered:{key}",
                w,
                f"Rust allows a comma inside {desc}, but the scanner has no alternative for it: such an argument is split in two, so the derive counts / numbers arguments differently from format_args! "
                "(transparency and bound inference refer to the wrong argument)",
                {},
            )
        elif want not in alts:
            ctx.report(f"split:missing:{key}", w, f"the scanner lost its alternative for {desc} (expected `{want}`)", {"alternatives": alts})
    extra = [a for a in alts if a not in [r[2] for r in REFERENCE_ROWS] and a != "token_tree"]
    for a in extra:
        ctx.instance(f"alt-extra:{a}")
        ctx.report(f"split:extra:{a}", w, f"scanner alternative `{a}` corresponds to no place where Rust's grammar keeps a comma inside an expression", {})
    ctx.instance("alt:catch-all-last")
    # the leaf scanners advance by exactly one token tree: no loop inside them (a leaf that swallows a run of tokens
    # hides the openers `<` / `|` of the balanced alternatives and the separating comma itself)
    for leaf in ("token_tree", "punct", "punct_with_spacing"):
        lf = [g for g in A.functions(f) if g.name == leaf and g.block is not None]
        if len(lf) != 1:
            raise A.AnchorLost(f"{PARSING}::{leaf}", "leaf scanner")
        loops = [x for x, _ in A.walk(lf[0].block) if A.kind(x) in ("Expr::While", "Expr::Loop", "Expr::ForLoop")]
        ctx.instance(f"leaf:{leaf}")
        if loops:
            ctx.report(f"split:leaf-loop:{leaf}", ctx.where(f, lf[0].node), f"the leaf scanner `{leaf}` contains a loop: it no longer consumes exactly one token tree, so it can swallow the `<` / `|` that opens a balanced group, or the comma that ends the argument", {})
    if not alts or alts[-1] != "token_tree":
        ctx.report("split:token_tree-not-last", w, "the catch-all `token_tree` alternative is not the last one: the balanced-group alternatives after it are never tried", {"alternatives": alts})
    # an alternative that opens on a token which is also a binary operator must be position-guarded
    for tok, key in (("'|'", "binary-or"),):
        ctx.instance(f"hazard:{key}")
        if f"balanced_pair(punct({tok}),punct({tok}))" in alts:
            ctx.report(
                f"split:hazard:{key}",
                w,
                f"`balanced_pair(punct({tok}), punct({tok}))` also opens on the *binary operator* `|` (there is no check that a closure can start here): in `a | b, c | d` the two `|` are paired across the comma and the two arguments are read as one",
                {},
            )
    # a closing token that is also the second half of a two-character operator legal *inside* the group must be skipped as a unit:
    # `->` (fn-pointer and `Fn(A) -> B` types are generic arguments) ends in the `>` that closes `<..>`
    ctx.instance("hazard:arrow-in-angle")
    if any("balanced_pair(punct('<'),punct('>'))" in a for a in alts):
        why = _arrow_unit(ctx, f)
        if why:
            ctx.report(
                "split:hazard:arrow-in-angle",
                w,
                "`balanced_pair(punct('<'), punct('>'))` counts the `>` of a `->` as the closing angle bracket (" + why + "): in `pick::<fn() -> u8, u8>(*_0)` the bracket is closed after `fn() -`, "
                "the comma between the two generic arguments splits the format argument in two, and the derive counts / numbers arguments differently from format_args! (a bare `{}` is no longer delegated)",
                {},
            )
    # ident-only rule
    t = A.fn_text(fn)
    ctx.instance("ident-only")
    if "c.ident().filter(|(_,c)|c.eof()||punct(',')(*c).is_some())" not in t or t.count("Self::Ident(") != 1:
        ctx.report("split:ident-only", w, "`Expr::Ident` is no longer produced only for an argument consisting of a single identifier (followed by `,` or the end)", {})
    _scanner_progress(ctx)


def _is_arrow_parser(f, e, depth=0):
    """does the parser expression `e` (a call `p(c)`'s callee, or an inline `seq([..])`) recognise exactly a joint `-` followed by `>`?"""
    txt = A.render(e)
    # the `>` of `->` is Joint whenever punctuation follows (`->&T`, `->!`, `->*const T`): its spacing must not be tested
    if re.fullmatch(r"seq\(\[&mut punct_with_spacing\('-',Spacing::Joint\),&mut punct\('>'\)\]\)", txt):
        return True
    nm = A.path_str(e)
    if nm and "::" not in nm and depth < 2:
        for g in A.functions(f):
            if g.name == nm and g.block is not None and len(g.block["stmts"]) == 1 and A.kind(g.block["stmts"][0]) == "Stmt::Expr":
                b = A.peel(g.block["stmts"][0]["0"])
                if A.kind(b) == "Expr::Call" and len(b["args"]) == 1:
                    return _is_arrow_parser(f, b["func"], depth + 1)
    return False


def _arrow_unit(ctx, f):
    """None when `balanced_pair` consumes `->` as one unit *before* it tests for the closing token (without touching the nesting count); otherwise the reason."""
    bp = [g for g in A.functions(f) if g.name == "balanced_pair" and g.block is not None]
    if len(bp) != 1:
        raise A.AnchorLost(f"{PARSING}::balanced_pair", "the balanced-group scanner")
    bp = bp[0]
    prm = [A.pat_idents(p_["0"]["pat"]) for p_ in bp.node["sig"]["inputs"] if A.kind(p_) == "FnArg::Typed"]
    if len(prm) != 2 or not prm[1]:
        raise A.AnchorLost(f"{PARSING}::balanced_pair", "two parser parameters (open, close)")
    close = prm[1][0]
    loops = [x for x, _ in A.find(bp.block, "Expr::While")] + [x for x, _ in A.find(bp.block, "Expr::Loop")]
    if len(loops) != 1:
        raise A.AnchorLost(f"{PARSING}::balanced_pair", "one scanning loop")
    order = []  # (callee expr, branch) of every `if let Some(_) = P(c)` of the loop, in source (= evaluation) order
    for x, _ in A.find(loops[0]["body"], "Expr::If"):
        c = x["cond"]
        if A.kind(c) == "Expr::Let" and A.kind(A.peel(c["expr"])) == "Expr::Call":
            order.append((A.peel(c["expr"])["func"], x["then_branch"]))
    idx = [i for i, (fe, _) in enumerate(order) if A.path_str(fe) == close]
    if not idx:
        raise A.AnchorLost(f"{PARSING}::balanced_pair", f"the test for the closing token `if let Some(..) = {close}(c)`")
    for fe, br in order[: idx[0]]:
        if _is_arrow_parser(f, fe):
            if re.search(r"count\s*[-+]=", A.render(br)):
                return "the `->` branch changes the nesting count"
            return None
    return "no branch consumes a joint `-` `>` before the closing token is tested"


def _scanner_progress(ctx):
    bp = A.get_fn(ctx.files, PARSING, "balanced_pair")
    bt = A.fn_text(bp)
    ctx.instance("balanced_pair:fails-at-eof")
    loops = [x for x, _ in A.find(bp.block, "Expr::While")]
    ok = len(loops) == 1 and A.wfull(A.render(loops[0]["cond"]), "count!=0") is not None
    # the fallback step takes one token tree and *fails* (`?`) at the end of input: inline or through the leaf scanner
    fallback_try = "let (tt,rest)=cur.token_tree()?" in bt or A.wsearch(bt, "token_tree(cur)?") is not None
    early = any(A.kind(x) in ("Expr::Break", "Expr::Return") for x, _ in A.walk(loops[0]["body"])) if loops else True
    if not ok or not fallback_try or early:
        ctx.report(
            "split:balanced_pair:eof",
            ctx.where(bp.file, bp.node),
            "`balanced_pair` no longer *fails* when the input ends before the closing token (it must return `None` so that the next alternative treats the opener as an ordinary token): "
            "a lone `|` (bit-or) would swallow all following arguments: `\"{}: {}\", 1 | 2, x` becomes one argument",
            {"body": bt[:400]},
        )
    ctx.instance("balanced_pair:progress")
    if "out.extend(stream);c=cursor" not in bt or "count-=1" not in bt or "count+=1" not in bt:
        ctx.report("split:balanced_pair:progress", ctx.where(bp.file, bp.node), "`balanced_pair` no longer advances the cursor / tracks nesting in every iteration", {})
    tu = A.get_fn(ctx.files, PARSING, "take_until1")
    tt = A.fn_text(tu)
    ctx.instance("take_until1:progress")
    # alias- and order-insensitive: the exit test (aliases inlined) and the *set* of per-iteration steps
    lp = [x for x, _ in A.find(tu.block, "Expr::Loop")]
    exit_ok = steps_ok = False
    if len(lp) == 1:
        body = lp[0]["body"]["stmts"]
        als = {}
        for st_ in body:
            if A.kind(st_) == "Stmt::Local" and A.kind(st_["pat"]) == "Pat::Ident" and not st_["pat"].get("mutability") and st_.get("init"):
                als[st_["pat"]["ident"]["sym"]] = (st_["init"]["expr"], st_)
        rend = [re.sub(r"^if \((.*)\)\{", r"if \1{", A.inline_text(A.render_stmt(x), als)) for x in body if not (A.kind(x) == "Stmt::Local" and any(x is v[1] for v in als.values()))]
        prm = [A.pat_idents(p_["0"]["pat"]) for p_ in tu.node["sig"]["inputs"] if A.kind(p_) == "FnArg::Typed"]
        p0 = prm[0][0] if len(prm) == 2 and prm[0] else "parser"
        p1 = prm[1][0] if len(prm) == 2 and prm[1] else "until"
        exit_ok = any(A.wfull(r.rstrip(";"), "if cursor.eof()||%s(cursor).is_some(){return parsed.then_some((out,cursor))}" % p1) or A.wfull(r.rstrip(";"), "if %s(cursor).is_some()||cursor.eof(){return parsed.then_some((out,cursor))}" % p1) for r in rend)
        want = ["let (stream,c)=%s(cursor)?" % p0, "out.extend(stream)", "cursor=c", "parsed=true"]
        got = [r.rstrip(";") for r in rend]
        steps_ok = all(any(A.wfull(g, w_) for g in got) for w_ in want) and len(got) == len(want) + 1 and got[0].startswith("if ") and got[1].startswith("let (")
    if not (exit_ok and steps_ok):
        ctx.report("split:take_until1", ctx.where(tu.file, tu.node), "`take_until1` no longer stops at the end / at the delimiter and advances by one parsed item per iteration", {})
    ps_ = A.get_fn(ctx.files, PARSING, "path_sep")
    ctx.instance("path_sep")
    if "seq([&mut punct_with_spacing(':',Spacing::Joint),&mut punct(':')])(c)" not in A.fn_text(ps_):
        ctx.report("split:path_sep", ctx.where(ps_.file, ps_.node), "`path_sep` is no longer a joint `:` followed by `:`", {})



def rule_scanner_progress(ctx):
    """SCAN-PROGRESS: the argument scanner's loops (`balanced_pair`, `take_until1`) advance the cursor in every iteration, fail at the end of input instead of running on, and `path_sep` is a joint `::`."""
    _scanner_progress(ctx)


def _inline_cond(ctx, fn, e, depth=0):
    """render a condition, inlining calls to helper functions of the same file"""
    r = A.render(e)
    if depth > 2:
        return r
    for c, _ in A.calls(e):
        nm = A.path_str(c["func"])
        if nm and nm.startswith("Self::"):
            nm = nm[6:]
        if nm and "::" not in nm:
            cands = [g for g in A.functions(fn.file) if g.name == nm]
            if len(cands) == 1:
                r += " /*" + nm + ":*/ " + A.fn_text(cands[0])
    return r


def rule_alias_test(ctx):
    """ALIAS: `name = expr` is recognised as a named argument exactly when an identifier is followed by a single `=` that is not the first half of `==`; the test must not depend on token spacing (`x=-y`, `x=&y`, `x=!y` are aliases), and every single-punctuation test of the two argument parsers is listed with the multi-character operators sharing that character."""
    fn = A.get_fn(ctx.files, MOD, "<FmtArgument as Parse>::parse")
    f = fn.file
    w = ctx.where(f, fn.node)
    cond = None
    for mc, ps in A.method_calls(fn.block, "then"):
        cond = mc["receiver"]
    if cond is None:
        raise A.AnchorLost(f"{MOD}::<FmtArgument as Parse>::parse", "the alias condition `(..).then(..)`")
    txt = _inline_cond(ctx, fn, A.peel(cond))
    ctx.instance("alias:condition", sample=txt[:300])
    spacing_based = bool(re.search(r"Spacing::Alone|\.spacing\(\)", txt))
    if not spacing_based and ("input.peek(syn::Ident)" not in txt or not re.search(r"peek2\((token::Eq|Token!\(=\)|syn::Token!\(=\))\)", txt)):
        ctx.report("alias:basic", w, f"the alias test is no longer `peek(Ident) && peek2(=)` (`{txt[:160]}`)", {})
    if re.search(r"Spacing::Alone|\.spacing\(\)", txt):
        ctx.report(
            "alias:spacing",
            w,
            "the alias test looks at the *spacing* of `=`: `=` is `Joint` before any punctuation, so `value=-len`, `x=&y`, `x=!flag` are no longer recognised as named arguments "
            "(the derive then resolves `{value}` to the field of that name and adds a spurious bound)",
            {"condition": txt[:300]},
        )
    if not spacing_based and not re.search(r"!input\.peek2\((token::EqEq|Token!\(==\)|syn::Token!\(==\))\)", txt):
        ctx.report(
            "alias:eqeq",
            w,
            "`ident == expr` is taken for the alias `ident =` followed by `= expr` (syn's one-character `peek` ignores that `==` is one operator): "
            "`#[display(\"{}\", a == b)]` makes the derive emit unparsable tokens",
            {"condition": txt[:300]},
        )
    # trailing comma
    pf = A.get_fn(ctx.files, MOD, "<FmtAttribute as Parse>::parse")
    t = A.fn_text(pf)
    ctx.instance("trailing-comma")
    if "args:input.parse_terminated(FmtArgument::parse,token::Comma)?" not in t or "parsed.args.pop_punct()" not in t:
        ctx.report("alias:trailing-comma", ctx.where(pf.file, pf.node), "arguments are no longer parsed with `parse_terminated` + `pop_punct` (trailing comma handling)", {})
    # operator-prefix hazards: single-character punctuation tests
    HAZ = {"<": ["<<", "<=", "<-"], ">": [">>", ">=", "->"], "|": ["||", "|="], ",": [], ":": ["::"], "=": ["==", "=>"]}
    ex = A.get_fn(ctx.files, PARSING, "<Expr as Parse>::parse")
    et = A.fn_text(ex)
    for ch, ops in HAZ.items():
        n = et.count(f"punct('{ch}')")
        if n:
            ctx.instance(f"punct:{ch}", sample={"char": ch, "uses": n, "operators_sharing_it": ops})
    # `|=` opening a closure bracket (`a |= b, c |= d` as *expressions of type ()* cannot be formatted): exotic, listed in DESIGN.md as a residual hazard (not decided)


def rule_ident_argument(ctx):
    """IDENT-ARG: an argument is a plain field reference (`Expr::Ident`, the only kind of argument bounds and transparency are inferred from) exactly when it is a single identifier followed by `,` or the end, recognised with `Cursor::ident()` - which looks through the invisible groups `macro_rules!` wraps around `$arg:expr` fragments; a test on the raw token tree misses those and the bound of a generic field is silently not generated."""
    fn = A.get_fn(ctx.files, PARSING, "<Expr as Parse>::parse")
    t = A.fn_text(fn)
    ctx.instance("ident-only")
    if "c.ident().filter(|(_,c)|c.eof()||punct(',')(*c).is_some())" not in t or t.count("Self::Ident(") != 1:
        ctx.report("split:ident-only", ctx.where(fn.file, fn.node), "`Expr::Ident` is no longer produced only for an argument consisting of a single identifier (followed by `,` or the end), found through `Cursor::ident()`", {})


def rule_expr_ident_eq(ctx):
    """IDENT-EQ: `Expr == Ident` (what decides whether a format argument *is* a given field: Pointer re-binding, transparent delegation on fields) compares the argument's identifier with the given one as written; normalisation (`unraw()`) is the caller's business and is done there on the field side - normalising inside the comparison as well makes an argument written `r#ref` equal to neither `r#ref` nor `ref`, and `{:p}` prints the address of the field instead of the stored pointer."""
    fn = A.get_fn(ctx.files, PARSING, "<Expr as PartialEq<syn::Ident>>::eq")
    ctx.instance("expr-eq-ident", sample=A.fn_text(fn)[:200])
    allowed = {"ident", "is_some_and", "map_or", "map", "unwrap_or", "as_ref", "eq", "is_some", "then", "then_some"}
    extra = sorted({mc["method"]["sym"] for mc, _ in A.find(fn.block, "Expr::MethodCall")} - allowed)
    calls = sorted({A.path_str(c["func"]) or "?" for c, _ in A.find(fn.block, "Expr::Call")} - {"Some"})
    if extra or calls:
        ctx.report(
            "expr-eq-ident:normalised",
            ctx.where(fn.file, fn.node),
            f"`Expr == Ident` transforms an operand before comparing (`{', '.join(extra + calls)}`): together with the caller's `expr == *field || expr == field.unraw()` an argument written as a raw identifier "
            "(`r#ref`) no longer equals its own field, so the Pointer re-binding / transparent delegation silently does not happen",
            {"body": A.fn_text(fn)[:200]},
        )


def rule_stateless_combinators(ctx):
    """STATELESS: the parser combinators (`impl/src/parsing.rs`, `impl/src/fmt/parsing.rs`) return closures that carry no state from one invocation to the next: a function returning `impl FnMut(..)` declares no `let mut` outside the closure it returns (counters and accumulators start afresh inside the closure on every call). A nesting counter hoisted out of `balanced_pair`'s closure survives a failed scan and makes the next `<` of the same argument start at depth 1: the argument then splits at a comma inside `Bound<u8, u16>`."""
    n = 0
    for rel in (PARSING, "impl/src/fmt/parsing.rs"):
        f = ctx.files.get(rel)
        if f is None:
            raise A.AnchorLost(rel, "file missing")
        for fn in A.functions(f):
            if fn.block is None:
                continue
            off = fn.node["sig"]["ident"]["span"][0]
            header = f.src[off : off + 800].split("{")[0]
            if not re.search(r"->\s*impl\s+Fn(Mut|Once)?\b", header):
                continue
            n += 1
            ctx.instance(f"stateless:{rel}::{fn.qual}")
            for st in fn.block["stmts"]:
                if A.kind(st) != "Stmt::Local":
                    continue
                pat = st["pat"]
                if A.kind(pat) == "Pat::Type":
                    pat = pat["pat"]
                if A.kind(pat) == "Pat::Ident" and pat.get("mutability"):
                    nm = pat["ident"]["sym"]
                    # captured by a closure of this function?
                    used = any(A.path_str(e) == nm for cl, _ in A.find(fn.block, "Expr::Closure") for e, _ in A.find(cl["body"], "Expr::Path"))
                    if used:
                        ctx.report(f"stateless:{rel}::{fn.qual}:{nm}", ctx.where(f, st), f"the combinator `{fn.qual}` declares `let mut {nm}` outside the closure it returns and uses it inside: the value survives from one invocation of the parser to the next (a failed or nested scan leaves it behind), so the same tokens parse differently depending on what was scanned before", {})
    ctx.floor("combinators returning closures", n, 12)
